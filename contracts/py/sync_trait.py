"""Contracts for trait synchronisation (C20), traits/has_traits.py.

sync_trait(..., remove=True): removes the link (this attribute -> (partner, alias)); the change handlers of the
attribute (_sync_trait_modified and, for list traits, _sync_trait_items_modified on '<name>_items') are removed
exactly when the last partner of that attribute has been removed -- never while another partner is still linked
('after the link is removed ... changes no longer propagate', and the remaining links keep propagating)."""
import z3

from vc.unit import Contract, register
from vc.pyvc.values import *  # noqa: F401,F403
from vc.pyvc.core import HObj, St, as_val, raise_

PATH = "traits/has_traits.py"


def install_hastraits_env(cx, self_is_list, partner_is_list):
    log = lambda st, rec: st.gset("trace", st.ghost.get("trace", ()) + (rec,))

    def is_list_partner(I, obj, st, k):
        return k(VFunc("opaque", name="_is_list_trait", apply=lambda I2, a, kw, s, kk: kk(VBool(partner_is_list), s)), st)
    cx.elem_attrs["_is_list_trait"] = is_list_partner

    def partner_sync(I, obj, st, k):
        def apply(I2, a, kw, s, kk):
            return kk(NONE, log(s, ("partner.sync_trait", tuple(a), dict(kw))))
        return k(VFunc("opaque", name="sync_trait", apply=apply), st)
    cx.elem_attrs["sync_trait"] = partner_sync


class _SelfMethod(Contract):
    """opaque methods of `self` reached from sync_trait, given by their documented effect"""
    path = PATH
    properties = ()

    def summary(self, I, self_ref, args, kwargs, st, k):
        return self.effect(I, self_ref, args, kwargs, st, k)


def log(st, rec):
    return st.gset("trace", st.ghost.get("trace", ()) + (rec,))


@register
class SyncTraitRemove(Contract):
    path = PATH
    qualname = "HasTraits.sync_trait"
    properties = ("C20",)
    overloads = ("remove", "add")
    class_paths = (PATH,)
    inline = (("HasTraits", "_get_sync_trait_info"),)
    assumptions = ("A-PY", "A-BUILTIN:dict", "_on_trait_change(handler, name, remove=True) detaches that handler (C16-level contract, assumed)")

    def configure(self, cx, I, ov):
        self.self_is_list, self.partner_is_list = z3.Bool("self_is_list_trait"), z3.Bool("partner_is_list_trait")
        install_hastraits_env(cx, self.self_is_list, self.partner_is_list)
        sil = self.self_is_list

        class IsList(_SelfMethod):
            qualname = "HasTraits._is_list_trait"

            def effect(self, I2, self_ref, args, kwargs, st, k):
                return k(VBool(sil), st)

        class OnTraitChange(_SelfMethod):
            qualname = "HasTraits._on_trait_change"

            def effect(self, I2, self_ref, args, kwargs, st, k):
                h = args[0]
                hname = h.name if isinstance(h, VFunc) and h.kind == "bound" else "?"
                return k(NONE, log(st, ("on_trait_change", hname, args[1], dict(kwargs))))
        cx.contracts = dict(cx.contracts)
        cx.contracts[("HasTraits", "_is_list_trait")] = IsList()
        cx.contracts[("HasTraits", "_on_trait_change")] = OnTraitChange()
        if ov == "add":
            cur = z3.Function("current_value", z3.StringSort(), Val)
            wr = z3.Function("weakref_to", Val, Val)
            cx.weakref_hook = lambda I2, args, st, k: k(VElem(wr(as_val(I2.cx, args[0], st))), st)      # the callback is kept, not run here

            other = z3.Function("partner_value", Val, z3.StringSort(), Val)

            def dyn_getattr(I2, args, st, k):
                if isinstance(args[1], VStr) and args[1].t is not None:
                    if isinstance(args[0], VRef):
                        return k(VElem(cur(args[1].t)), st.gset("read_name", args[1].t))
                    if isinstance(args[0], VElem):
                        return k(VElem(other(args[0].t, args[1].t)), st)
                return None
            cx.dyn_getattr_hook = dyn_getattr

            def dyn_setattr(I2, args, st, k):
                obj, nm, v = args
                if isinstance(nm, VStr) and nm.t is not None and isinstance(obj, (VElem, VRef)):
                    src = st.ghost.get("read_name")
                    ok = src is not None and isinstance(v, VElem) and v.t.eq(cur(src))
                    return k(NONE, log(st, ("push", as_val(I2.cx, obj, st), nm.t, src if ok else z3.StringVal("<not this object's current value>"))))
                return None
            cx.dyn_setattr_hook = dyn_setattr

    def setup(self, cx, I, ov):
        st = St()
        name = z3.String("trait_name")
        alias = z3.String("alias")
        partner = z3.Const("partner", Val)
        # info = {"": locked, trait_name: dic, ...}; dic = {(id(partner'), alias'): (weakref, alias'), ...}
        dic_ref, info_ref, self_ref = VRef(cx.new_oid()), VRef(cx.new_oid()), VRef(cx.new_oid())
        D = z3.Const("partners_of_name", MapV)
        INFO = z3.Const("info", MapV)
        st = st.put(dic_ref.oid, HObj("dict", D))
        st = st.put(info_ref.oid, HObj("dict", INFO))
        has_entry = z3.Bool("name_has_partners_entry")
        ntok = cx.box_str(name)
        st = st.assume(z3.If(has_entry, INFO[ntok] == Opt.some(cx.ref_val(dic_ref)), INFO[ntok] == Opt.none))
        st = st.put(self_ref.oid, HObj("obj", None, "HasTraits", {"__sync_trait__": info_ref}))
        mutual = z3.Bool("mutual")
        args = [self_ref, VStr(name), VElem(partner)]
        kwargs = dict(alias=VStr(alias), mutual=VBool(mutual), remove=VBool(ov == "remove"))
        self._partner, self._alias, self._name = partner, alias, name
        key = cx.box_tuple([cx.box_int(z3.Function("id_of", Val, z3.IntSort())(partner)), cx.box_str(alias)])
        return st.gset("trace", ()), args, kwargs, dict(D=D, INFO=INFO, key=key, dic_ref=dic_ref, info_ref=info_ref, ntok=ntok,
                                                        has_entry=has_entry, name=name, mutual=mutual, witness=dict(
                                                            name_has_partners_entry=has_entry, link_present=D[key] != Opt.none))

    def post_add(self, cx, I, info, kind, payload, st):
        """registration: 'while a link exists a change on either side is propagated': the link is recorded, the change handlers
        are installed exactly when the FIRST partner of the attribute is linked, the partner takes this object's current
        value exactly when the link is new, linking twice changes nothing, mutual linking is forwarded once"""
        if kind == "raise":
            return [("exc-free", z3.BoolVal(False), dict(exception="%s %r" % (payload.cname or payload.sym, payload.origin)))]
        D0, key = info["D"], info["key"]
        tr = st.ghost.get("trace", ())
        linked_before = z3.And(info["has_entry"], D0[key] != Opt.none)
        k2 = z3.Const("k!sync", Val)
        had_partner = z3.And(info["has_entry"], z3.Exists([k2], D0[k2] != Opt.none))
        installs = [r for r in tr if r[0] == "on_trait_change" and r[1] == "_sync_trait_modified" and not r[3].get("remove")]
        installs_items = [r for r in tr if r[0] == "on_trait_change" and r[1] == "_sync_trait_items_modified" and not r[3].get("remove")]
        removes = [r for r in tr if r[0] == "on_trait_change" and r[3].get("remove")]
        pushes = [r for r in tr if r[0] == "push"]
        is_list = z3.And(self.self_is_list, self.partner_is_list)
        INFO1 = st.heap[info["info_ref"].oid].payload
        out = [("post:value-handler-installed-iff-first-partner", z3.BoolVal(bool(installs)) == z3.Not(had_partner)),
               ("post:items-handler-installed-iff-first-partner-of-a-list-trait", z3.BoolVal(bool(installs_items)) == z3.And(z3.Not(had_partner), is_list)),
               ("post:handlers-installed-at-most-once-and-none-removed", z3.BoolVal(len(installs) <= 1 and len(installs_items) <= 1 and not removes)),
               ("post:partner-takes-the-current-value-iff-the-link-is-new", z3.BoolVal(len(pushes) == 1) == z3.Not(linked_before)),
               ("post:an-entry-for-the-attribute-exists", INFO1[info["ntok"]] != Opt.none)]
        for r in pushes:
            out.append(("post:the-push-writes-the-partner's-alias-with-this-attribute's-value", z3.And(r[1] == self._partner, r[2] == self._alias, r[3] == self._name)))
        for r in installs_items:
            nm = r[2]
            out.append(("post:items-handler-listens-to-name_items", nm.t == z3.Concat(info["name"], z3.StringVal("_items"))
                        if isinstance(nm, VStr) and nm.t is not None else z3.BoolVal(False)))
        # the link itself
        new_dicts = [oid for oid, h in st.heap.items() if h.kind == "dict" and oid not in (info["dic_ref"].oid, info["info_ref"].oid)
                     and h.payload is not None]
        D_old = st.heap[info["dic_ref"].oid].payload
        out.append(("post:link-recorded-in-the-existing-entry", z3.Implies(info["has_entry"], z3.And(
            INFO1[info["ntok"]] == Opt.some(cx.ref_val(info["dic_ref"])), D_old[key] != Opt.none))))
        out.append(("post:other-links-untouched", z3.Implies(info["has_entry"], z3.ForAll([k2], z3.Implies(k2 != key, D_old[k2] == D0[k2])))))
        if new_dicts:
            nd = new_dicts[-1]
            out.append(("post:link-recorded-in-a-new-entry", z3.Implies(z3.Not(info["has_entry"]), z3.And(
                INFO1[info["ntok"]] == Opt.some(cx.ref_val(VRef(nd))), st.heap[nd].payload[key] != Opt.none,
                z3.ForAll([k2], z3.Implies(k2 != key, st.heap[nd].payload[k2] == Opt.none))))))
        else:
            out.append(("post:link-recorded-in-a-new-entry", info["has_entry"]))
        mutuals = [r for r in tr if r[0] == "partner.sync_trait"]
        out.append(("post:mutual-link-forwarded-once-iff-mutual", z3.BoolVal(len(mutuals) == 1) == info["mutual"]))
        return out

    def post(self, cx, I, ov, info, kind, payload, st):
        if ov == "add":
            return self.post_add(cx, I, info, kind, payload, st)
        if kind == "raise":
            return [("exc-free", z3.BoolVal(False), dict(exception="%s %r" % (payload.cname or payload.sym, payload.origin)))]
        D0, key = info["D"], info["key"]
        D1 = st.heap[info["dic_ref"].oid].payload
        INFO1 = st.heap[info["info_ref"].oid].payload
        present = z3.And(info["has_entry"], D0[key] != Opt.none)
        k2 = z3.Const("k!sync", Val)
        others_remain = z3.Exists([k2], z3.And(k2 != key, D0[k2] != Opt.none))
        last = z3.And(present, z3.Not(others_remain))
        tr = st.ghost.get("trace", ())
        removed_main = [r for r in tr if r[0] == "on_trait_change" and r[1] == "_sync_trait_modified" and r[3].get("remove")]
        removed_items = [r for r in tr if r[0] == "on_trait_change" and r[1] == "_sync_trait_items_modified" and r[3].get("remove")]
        is_list = z3.And(self.self_is_list, self.partner_is_list)
        out = [
            ("post:link-deleted", z3.Implies(info["has_entry"], z3.ForAll([k2], D1[k2] == z3.If(k2 == key, Opt.none, D0[k2])))),
            ("post:value-handler-removed-iff-last-partner-removed", z3.BoolVal(bool(removed_main)) == last),
            ("post:items-handler-removed-iff-last-partner-of-a-list-trait-removed", z3.BoolVal(bool(removed_items)) == z3.And(last, is_list)),
            ("post:per-name-entry-dropped-iff-empty", (INFO1[info["ntok"]] == Opt.none) == z3.Or(z3.Not(info["has_entry"]), last)),
        ]
        for r in removed_items:
            nm = r[2]
            out.append(("post:items-handler-removed-from-name_items", nm.t == z3.Concat(info["name"], z3.StringVal("_items"))
                        if isinstance(nm, VStr) and nm.t is not None else z3.BoolVal(False)))
        mutuals = [r for r in tr if r[0] == "partner.sync_trait"]
        out.append(("post:mutual-removal-forwarded-once-iff-mutual", z3.BoolVal(len(mutuals) == 1) == info["mutual"]))
        return out

    def covers(self, cx, ov, info):
        return [("removes", lambda k, p, s: k == "return")]


# ---------------------------------------------------------------------------------------------
# the change handlers installed by sync_trait
# ---------------------------------------------------------------------------------------------

class _SyncHandler(Contract):
    path = PATH
    properties = ("C20", "C19")
    class_paths = (PATH,)
    assumptions = ("A-PY", "A-BUILTIN:dict", "partners recorded in the info table are alive (the weakref callback removes the "
                   "entries of a collected partner at once)", "partner attribute writes may raise anything (swallowed by the handler)")
    items = False

    def configure(self, cx, I, ov):
        from vc.pyvc import loops
        self.partner_locked = z3.Bool("partner_attribute_is_locked")
        plocked = self.partner_locked

        def weakref_call(I2, fv, args, kwargs, st, k):
            if isinstance(fv, VElem):      # calling the stored weak reference: the live partner
                return k(VElem(z3.Function("deref", Val, Val)(fv.t)), st)
            return None
        cx.call_hook = weakref_call

        def partner_info(I2, obj, st, k):
            # partner._get_sync_trait_info()[""] : the partner's lock table, as a membership oracle
            def apply(I3, a, kw, s, kk):
                return kk(VFunc("lockinfo"), s)
            return k(VFunc("opaque", name="_get_sync_trait_info", apply=apply), st)
        cx.elem_attrs["_get_sync_trait_info"] = partner_info

        def getitem_hook(I2, obj, key, st, k):
            if isinstance(obj, VFunc) and obj.kind == "lockinfo":
                return k(VFunc("locktable"), st)
            return None
        cx.getitem_hook = getitem_hook

        def contains_hook(I2, cont, item, st, k):
            if isinstance(cont, VFunc) and cont.kind == "locktable":
                return k(VBool(plocked), st)
            return None
        cx.contains_hook = contains_hook

        def dyn_setattr(I2, args, st, k):
            # setattr(partner, name, new): runs the partner's trait machinery; may raise anything
            st2 = log(st, ("partner-setattr",) + tuple(args))
            e = cx.fresh("partner_exc", Exc)
            return k(NONE, st2) + [("raise", VExc(sym=e, origin=("partner",)), st2.assume(*cx.exc_axioms(e)))]
        cx.dyn_setattr_hook = dyn_setattr

        def dyn_getattr(I2, args, st, k):
            return k(VElem(z3.Function("attr_value", Val, Val, Val)(as_val(cx, args[0], st), as_val(cx, args[1], st))), st)
        cx.dyn_getattr_hook = dyn_getattr

        def setitem_hook(I2, obj, key, v, st, k):
            if isinstance(obj, VElem):
                st2 = log(st, ("partner-list-setitem", obj, key, v))
                e = cx.fresh("partner_exc", Exc)
                return k(NONE, st2) + [("raise", VExc(sym=e, origin=("partner",)), st2.assume(*cx.exc_axioms(e)))]
            return None
        cx.setitem_hook = setitem_hook

        def delitem_hook(I2, obj, key, st, k):
            if isinstance(obj, VElem):
                st2 = log(st, ("partner-list-delitem", obj, key))
                e = cx.fresh("partner_exc", Exc)
                return k(NONE, st2) + [("raise", VExc(sym=e, origin=("partner",)), st2.assume(*cx.exc_axioms(e)))]
            return None
        cx.delitem_hook = delitem_hook
        # event attributes
        idx = VIdx(z3.Bool("event_index_is_slice"), z3.Int("event_index"), z3.Int("ev_start"), z3.Int("ev_stop"), z3.Int("ev_step"))
        self.idx = idx
        cx.elem_attrs["index"] = lambda I2, o, st, k: k(idx, st)

        def lst(nm):
            def h(I2, o, st, k):
                r = VRef(cx.new_oid())
                return k(r, st.put(r.oid, HObj("list", z3.Const("event_" + nm, SeqV))))
            return h
        cx.elem_attrs["removed"] = lst("removed")
        cx.elem_attrs["added"] = lst("added")
        # the loop over the partners: nothing but partner attributes is touched; the lock table stays as it is
        inv = lambda i, view, st: []
        hdr = "for (object, object_name) in info[name].values()"
        cx.on_loop = loops.make_hook({0: loops.LoopSpec(hdr, [], inv)})

    def setup(self, cx, I, ov):
        st = St()
        name = z3.String("name")
        locked_ref, info_ref, partners_ref, self_ref = [VRef(cx.new_oid()) for _ in range(4)]
        LOCK, INFO, P = z3.Const("locked", MapV), z3.Const("info", MapV), z3.Const("partners", MapV)
        st = st.put(locked_ref.oid, HObj("dict", LOCK)).put(info_ref.oid, HObj("dict", INFO)).put(partners_ref.oid, HObj("dict", P))
        st = st.put(self_ref.oid, HObj("obj", None, "HasTraits", {"__sync_trait__": info_ref}))
        base = z3.SubString(name, 0, z3.Length(name) - 6) if self.items else name
        has_partners = z3.Bool("name_still_has_partners")
        ntok = cx.box_str(base)
        st = st.assume(INFO[cx.box_str(z3.StringVal(""))] == Opt.some(cx.ref_val(locked_ref)),
                       z3.If(has_partners, INFO[ntok] == Opt.some(cx.ref_val(partners_ref)), INFO[ntok] == Opt.none),
                       base != z3.StringVal(""),
                       # the handler runs for a change made from outside its own propagation loop: the name is not locked
                       LOCK[ntok] == Opt.none)
        if self.items:
            st = st.assume(z3.Length(name) >= 7, z3.SuffixOf(z3.StringVal("_items"), name))
        obj, old, last = z3.Consts("object old new_or_event", Val)
        st = st.gset("trace", ())
        def conc(m):
            ev = lambda t: z3.is_true(m.eval(t, model_completion=True))
            return dict(harness="sync", family="sync_items", slice_event=ev(z3.Bool("event_index_is_slice")),
                        partner_collected=not ev(has_partners))
        return st, [self_ref, VElem(obj), VStr(name), VElem(old), VElem(last)], {}, dict(
            LOCK=LOCK, locked_ref=locked_ref, ntok=ntok, has_partners=has_partners, concretise=conc if self.items else (lambda m: dict(harness="sync", family="partner_collected")),
            witness=dict(name_still_has_partners=has_partners, event_index_is_slice=z3.Bool("event_index_is_slice")))

    def post(self, cx, I, ov, info, kind, payload, st):
        LOCK1 = st.heap[info["locked_ref"].oid].payload
        k2 = z3.Const("k!lock", Val)
        out = [("post:lock-table-left-as-found", z3.ForAll([k2], LOCK1[k2] == info["LOCK"][k2]))]
        if kind == "raise":
            out.append(("exc-free:handler-raises-nothing", z3.BoolVal(False),
                        dict(exception="%s %r" % (payload.cname or payload.sym, payload.origin))))
        return out

    def covers(self, cx, ov, info):
        return [("returns", lambda k, p, s: k == "return")]


@register
class SyncTraitModified(_SyncHandler):
    qualname = "HasTraits._sync_trait_modified"

    def configure(self, cx, I, ov):
        super().configure(cx, I, ov)
        from vc.pyvc import loops
        cx.on_loop = loops.make_hook({0: loops.LoopSpec("for (object, object_name) in info[name].values()", [], lambda i, v, s: [])})


@register
class SyncTraitItemsModified(_SyncHandler):
    qualname = "HasTraits._sync_trait_items_modified"
    items = True


# ------------------------------------------------------------------------------------------------------------------
# the weak-reference callback: a partner object has been garbage-collected
# ------------------------------------------------------------------------------------------------------------------
@register
class SyncListenerDeleted(Contract):
    """sync_trait.<locals>._sync_trait_listener_deleted(ref, info): 'after the partner object has been garbage-collected,
    changes no longer propagate and raise nothing'.  When the weak reference `ref` dies

      * every link whose partner is that reference is deleted from the per-trait partner tables, no other link is touched;
      * a per-trait table that became empty is pruned;
      * the re-entrancy LOCK TABLE, kept in the same dictionary under the key "", is left exactly as found -- it is not a
        partner table, is empty whenever no propagation is running, and both change handlers index it unconditionally
        (`info[""]`): pruning it makes every later change of this object, and of every object still linked to it, raise.

    Shape: the lock table plus two per-trait tables of two links each (both loops are unrolled; their bodies do not depend on
    the sizes); which links belong to the dead partner, and the contents of the lock table, are arbitrary."""
    path = PATH
    qualname = "HasTraits.sync_trait.<locals>._sync_trait_listener_deleted"
    properties = ("C20",)
    class_paths = (PATH,)
    assumptions = ("A-PY", "bounded shape: lock table + 2 traits x 2 links, loops unrolled (contents symbolic)")

    def configure(self, cx, I, ov):
        cx.const("None")
        self.ref = z3.Const("dead_weakref", Val)
        self.info = z3.Const("info_dict", Val)
        self.lock = z3.Const("lock_table", Val)
        self.tables = [z3.Const("partners_of_trait_%d" % i, Val) for i in range(2)]
        self.names = [z3.String("trait_name_%d" % i) for i in range(2)]
        self.links = {(i, j): (z3.Const("key_%d_%d" % (i, j), Val), z3.Const("weakref_%d_%d" % (i, j), Val), z3.Const("alias_%d_%d" % (i, j), Val))
                      for i in range(2) for j in range(2)}
        self.lock_len = z3.Int("len_of_lock_table")
        lg = lambda st, rec: st.gset("trace", st.ghost.get("trace", ()) + (rec,))

        def items_attr(I2, o, st, k):
            def apply(I3, a, kw, s, kk):
                if o.t.eq(self.info):
                    return kk(VTuple([VTuple([VStr(const=""), VElem(self.lock)])] +
                                     [VTuple([VStr(self.names[i]), VElem(self.tables[i])]) for i in range(2)]), s)
                for i in range(2):
                    if o.t.eq(self.tables[i]):
                        return kk(VTuple([VTuple([VElem(self.links[(i, j)][0]), VTuple([VElem(self.links[(i, j)][1]), VElem(self.links[(i, j)][2])])]) for j in range(2)]), s)
                if o.t.eq(self.lock):
                    raise Unsupported("iteration over the lock table")
                raise Unsupported("items of %r" % (o,))
            return k(VFunc("opaque", name="items", apply=apply), st)
        cx.elem_attrs["items"] = items_attr
        cx.module_globals["list"] = VFunc("opaque", name="list", apply=lambda I2, a, kw, st, k: k(a[0], st))

        def delitem_hook(I2, obj, key, st, k):
            if isinstance(obj, VElem):
                return k(NONE, lg(st, ("del", obj.t, key)))
            return None
        cx.delitem_hook = delitem_hook

        def len_hook(I2, x, st, k):
            if isinstance(x, VElem) and x.t.eq(self.lock):
                return k(VInt(self.lock_len), st.assume(self.lock_len >= 0))
            for i in range(2):
                if isinstance(x, VElem) and x.t.eq(self.tables[i]):
                    gone = [r for r in st.ghost.get("trace", ()) if r[0] == "del" and r[1].eq(self.tables[i])]
                    return k(VInt(2 - len(gone)), st)
            return None
        cx.len_hook = len_hook

    def setup(self, cx, I, ov):
        st = St().gset("trace", ())
        st = st.assume(z3.Distinct(self.info, self.lock, *self.tables), self.names[0] != self.names[1],
                       *[n != z3.StringVal("") for n in self.names],
                       *[self.links[(i, 0)][0] != self.links[(i, 1)][0] for i in range(2)])
        return st, [VElem(self.ref), VElem(self.info)], {}, dict(witness={"len(lock table)": self.lock_len},
                                                                 concretise=lambda m: dict(harness="sync", family="partner_collected"))

    def post(self, cx, I, ov, info, kind, payload, st):
        if kind == "raise":
            return [("exc-free:the-callback-raises-nothing", z3.BoolVal(False), dict(exception="%s %r" % (payload.cname or payload.sym, payload.origin)))]
        tr = st.ghost.get("trace", ())
        dels = [r for r in tr if r[0] == "del"]
        out = []
        # the lock table
        lock_deleted = any(r[1].eq(self.info) and isinstance(r[2], VStr) and r[2].const == "" for r in dels)
        out.append(("post:the-lock-table-entry-is-left-as-found", z3.BoolVal(not lock_deleted)))
        out.append(("post:nothing-is-deleted-from-the-lock-table", z3.BoolVal(not any(r[1].eq(self.lock) for r in dels))))
        for i in range(2):
            dead = [self.links[(i, j)][1] == self.ref for j in range(2)]
            for j in range(2):
                gone = any(r[1].eq(self.tables[i]) and isinstance(r[2], VElem) and r[2].t.eq(self.links[(i, j)][0]) for r in dels)
                out.append(("post:a-link-is-deleted-iff-its-partner-is-the-dead-reference", z3.BoolVal(gone) == dead[j]))
            pruned = any(r[1].eq(self.info) and isinstance(r[2], VStr) and r[2].t is not None and r[2].t.eq(self.names[i]) for r in dels)
            out.append(("post:a-partner-table-is-pruned-iff-it-became-empty", z3.BoolVal(pruned) == z3.And(*dead)))
        known = 0
        for r in dels:
            if r[1].eq(self.info) or any(r[1].eq(t) for t in self.tables) or r[1].eq(self.lock):
                known += 1
        out.append(("post:nothing-else-is-deleted", z3.BoolVal(known == len(dels))))
        return out

    def covers(self, cx, ov, info):
        return [("partner-had-links", lambda k, p, s: z3.BoolVal(k == "return" and any(r[0] == "del" for r in s.ghost.get("trace", ())))),
                ("partner-had-no-link", lambda k, p, s: z3.BoolVal(k == "return" and not any(r[0] == "del" for r in s.ghost.get("trace", ()))))]
