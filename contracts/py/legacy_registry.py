"""C16 -- the registry of extended-name registrations (HasTraits.on_trait_change, extended-name path).

obj.__dict__[TraitsListener][name] holds the ONLY strong references to the ListenerNotifyWrappers (and through them to the
ListenerItem chains whose bound methods are the link-following notifiers, held weakly by the traits they are attached to).
'Removing the registration stops all calls' and 'is called iff reachable after any history' therefore need a frame condition on
the removal branch: a removal request touches the registry ONLY for the wrapper that equals the handler; a request that matches
nothing leaves every registration where it is.

The branch iterates with enumerate() and deletes while iterating, which is outside pyvc's loop subset; what is decided here is
the FRAME of the branch, from its real AST on every run (a data lemma, not a symbolic execution): every statement of the
`if remove:` branch that can change the registry, a listener list or the instance dictionary is nested inside the
`if wrapper.equals(handler):` guard.  The legacy-vs-observe oracle with a no-op removal in the history is the replay."""
import ast
import hashlib

import z3

from vc.unit import Contract, register

PATH = "traits/has_traits.py"
MUTATORS = {"pop", "popitem", "clear", "remove", "update", "setdefault", "append", "extend", "insert", "__delitem__", "__setitem__", "reverse", "sort"}


@register
class RemoveBranchFrame(Contract):
    lang = "data"
    path = PATH
    qualname = "HasTraits.on_trait_change<remove branch: frame>"
    properties = ("C16",)
    assumptions = ("syntactic frame lemma over the real AST of the `if remove:` branch (no symbolic execution: enumerate + delete-while-iterating is outside pyvc's loop subset)",
                   "wrapper.equals is TraitChangeNotifyWrapper.equals (under contract); listener.unregister / wrapper.dispose are not followed")
    undecided_probe = dict(harness="observe", family="legacy_noop_remove")

    def data_obligations(self, ov):
        from vc.pyvc import source
        from vc.solve import Obligation
        fn, seg, sha, owner = source.get_function(PATH, "HasTraits.on_trait_change")
        obs = []
        name0 = "%s[%s]" % (self.cid, ov)

        def ob(clause, ok, detail):
            obs.append(Obligation("%s/lemma:%s" % (name0, clause), [], z3.BoolVal(bool(ok)), kind="lemma", props=self.properties, witness={"detail": detail}))
        branch = [n for n in ast.walk(fn) if isinstance(n, ast.If) and isinstance(n.test, ast.Name) and n.test.id == "remove"]
        ob("the-removal-branch-exists-once", len(branch) == 1, "%d `if remove:` statements" % len(branch))
        if len(branch) == 1:
            body = branch[0].body

            def is_guard(n):
                t = n.test
                return (isinstance(n, ast.If) and isinstance(t, ast.Call) and isinstance(t.func, ast.Attribute) and t.func.attr == "equals"
                        and len(t.args) == 1 and isinstance(t.args[0], ast.Name) and t.args[0].id == "handler")
            guards = [n for s in body for n in ast.walk(s) if isinstance(n, ast.If) and is_guard(n)]
            ob("one-guard-wrapper.equals(handler)", len(guards) == 1, "%d guards" % len(guards))
            guarded = set()
            for g in guards:
                for s in g.body:
                    for n in ast.walk(s):
                        guarded.add(id(n))
            sites = []
            for s in body:
                for n in ast.walk(s):
                    hit = None
                    if isinstance(n, ast.Delete):
                        hit = "del " + ", ".join(ast.unparse(t) for t in n.targets)
                    elif isinstance(n, (ast.Assign, ast.AugAssign)):
                        tg = n.targets if isinstance(n, ast.Assign) else [n.target]
                        if any(isinstance(t, (ast.Subscript, ast.Attribute)) for t in tg):
                            hit = ast.unparse(n)
                    elif isinstance(n, ast.Call) and isinstance(n.func, ast.Attribute) and n.func.attr in MUTATORS:
                        hit = ast.unparse(n)
                    elif isinstance(n, ast.Call) and isinstance(n.func, ast.Name) and n.func.id in ("setattr", "delattr"):
                        hit = ast.unparse(n)
                    elif isinstance(n, ast.Call) and isinstance(n.func, ast.Attribute) and n.func.attr in ("unregister", "dispose"):
                        hit = ast.unparse(n)
                    if hit is not None:
                        sites.append((hit, id(n) in guarded))
            ob("some-mutation-site-found", len(sites) >= 3, "%d sites" % len(sites))
            outside = [h for (h, g) in sites if not g]
            ob("a-request-that-matches-no-registration-changes-nothing:every-mutation-site-is-inside-the-equals-guard", not outside,
               "outside the guard: %r" % (outside,))
            # inside the guard: exactly one deletion from the listener list, the listener unregistered and the wrapper disposed once, then the loop ends
            if guards:
                g = guards[0]
                texts = [ast.unparse(s) for s in g.body]
                ob("the-matching-wrapper-is-taken-out-unregistered-and-disposed-and-the-scan-ends",
                   any(t.startswith("del listeners[") for t in texts) and "wrapper.listener.unregister(self)" in texts and "wrapper.dispose()" in texts
                   and isinstance(g.body[-1], ast.Break), "guard body: %r" % (texts,))
        cx = type("DataCx", (), dict(axioms=[], hints=[], notes=[], distinct_consts_axiom=lambda self: []))()
        return cx, obs, dict(sha=hashlib.sha256(seg.encode()).hexdigest(), paths=1, lines=(fn.lineno, fn.end_lineno))
