"""Contracts for TraitListObject (C04, C19): the length bounds of a List trait hold after every mutator,
and a mutator that would violate them raises TraitError, changes nothing and notifies nobody.

The TraitList methods reached through super() are executed from their real AST as well (inlined), so the
length argument handed to _validate_length is checked against what the builtin operation really does;
notify / _normalize_slice_or_index are used through their contracts."""
import z3

from vc.unit import Contract, register
from vc.pyvc.values import *  # noqa: F401,F403
from vc.pyvc.core import HObj, St, as_val, raise_
from spec.containers import Validator
from contracts.py import trait_list as TL

PATH = "traits/trait_list_object.py"
MINLEN = z3.Function("trait_minlen", Val, z3.IntSort())
MAXLEN = z3.Function("trait_maxlen", Val, z3.IntSort())

TL_METHODS = ("__delitem__", "__iadd__", "__imul__", "__setitem__", "append", "clear", "extend", "insert", "pop",
              "remove", "__init__")


def install_owner_hooks(cx):
    """Opaque pieces of a TraitListObject's surroundings: the trait (handler) object with minlen / maxlen /
    full_info, class_of(), and message formatting helpers -- all pure (A-CB)."""
    def int_attr(fn):
        return lambda I, obj, st, k: k(VInt(fn(obj.t)), st)
    cx.elem_attrs["minlen"] = int_attr(MINLEN)
    cx.elem_attrs["maxlen"] = int_attr(MAXLEN)
    cx.elem_attrs["full_info"] = lambda I, obj, st, k: k(VFunc("opaque", apply=lambda I2, a, kw, s, kk: kk(VStr(), s), name="full_info"), st)

    def repo_call(I, fv, args, kwargs, st, k):
        if fv.name == "class_of":
            return k(VStr(), st)
        return None
    cx.repo_call_hook = repo_call


def make_tlo_self(cx, length_invariant=True):
    trait = z3.Const("trait", Val)
    owner_alive = z3.Bool("owner_alive")
    owner = z3.Const("owner", Val)

    def object_apply(I, args, kwargs, st, k):
        # the weak reference: the owner while it is alive, else None
        return I.cx.branch(st, owner_alive, lambda a: k(VElem(owner), a), lambda b: k(NONE, b))
    fields = {"trait": VElem(trait), "object": VFunc("opaque", apply=object_apply, name="object_ref"),
              "name": VStr(z3.String("name")), "name_items": VStr(z3.String("name_items"))}
    st, self_ref, s0, V = TL.make_list_self(cx, "TraitListObject", fields)
    n = z3.Length(s0)
    # representation invariant (C04) on entry: the length is within the trait's bounds, 0 <= minlen <= maxlen
    st = st.assume(owner != cx.const("None").t)
    st = st.assume(trait != cx.const("None").t, 0 <= MINLEN(trait), MINLEN(trait) <= MAXLEN(trait))
    if length_invariant:
        st = st.assume(MINLEN(trait) <= n, n <= MAXLEN(trait))
    return st, self_ref, s0, V, trait


class TLOMutator(Contract):
    path = PATH
    properties = ("C04", "C19")
    inline = tuple(("TraitList", m) for m in TL_METHODS) + ((None, "_removed_items"),)
    assumptions = ("A-PY", "A-BUILTIN:list", "A-EQ", "A-CB:validator", "A-CB:notifier-does-not-mutate")
    base = None            # the TraitList contract class whose argument description is reused

    @property
    def overloads(self):
        # the non-integer multiplier overload of TraitList.__imul__ is not taken over: TraitListObject.__imul__ first computes
        # len(self) * value for its length check, an arithmetic on arbitrary objects outside the subset (stated, not claimed)
        return tuple(o for o in self.base.overloads if o != "non-index-multiplier")

    def configure(self, cx, I, ov):
        install_owner_hooks(cx)

    def setup(self, cx, I, ov):
        st, self_ref, s0, V, trait = make_tlo_self(cx)
        b = self.base()
        st, args, kwargs, info = b.args(cx, ov, st)
        info.update(s0=s0, V=V, self_ref=self_ref, trait=trait)
        info.setdefault("witness", {}).update(items=s0, minlen=MINLEN(trait), maxlen=MAXLEN(trait))
        return st, [self_ref] + args, kwargs, info

    def post(self, cx, I, ov, info, kind, payload, st):
        s0, trait = info["s0"], info["trait"]
        s1 = st.heap[info["self_ref"].oid].payload
        evs = st.ghost["events"]
        n1 = z3.Length(s1)
        notifier_exc = kind == "raise" and isinstance(payload.origin, tuple) and payload.origin[0] == "notifier"
        if kind == "return" or notifier_exc:
            return [("post:length-within-bounds", z3.And(MINLEN(trait) <= n1, n1 <= MAXLEN(trait)))]
        out = [("raise:contents-unchanged", s1 == s0), ("raise:no-event", z3.BoolVal(len(evs) == 0))]
        return out

    def covers(self, cx, ov, info):
        out = [("returns-normally", lambda k, p, s: k == "return")]
        if not (self.fname == "__setitem__" and ov == "int"):      # replacing one item cannot change the length
            out.append(("rejects-a-length-violation", lambda k, p, s: k == "raise" and p.cname == "TraitError"))
        return out


def _mk(name, base, cov=True):
    cls = type("TLO_" + name.strip("_"), (TLOMutator,), dict(qualname="TraitListObject." + name, base=base))
    if not cov:
        cls.covers = lambda self, cx, ov, info: [("returns-normally", lambda k, p, s: k == "return")]
    register(cls)
    return cls


_mk("__delitem__", TL.TLDelItem)
_mk("__iadd__", TL.TLIAdd)
_mk("__imul__", TL.TLIMul)
_mk("__setitem__", TL.TLSetItem)
_mk("append", TL.TLAppend)
_mk("clear", TL.TLClear)
_mk("extend", TL.TLExtend)
_mk("insert", TL.TLInsert)
_mk("pop", TL.TLPop)
_mk("remove", TL.TLRemove)


@register
class TLOValidateLength(Contract):
    path = PATH
    qualname = "TraitListObject._validate_length"
    properties = ("C04",)
    overloads = ("trait-set", "trait-none", "trait-attribute-missing")

    def configure(self, cx, I, ov):
        install_owner_hooks(cx)

    def setup(self, cx, I, ov):
        # NO assumption on the current length: __init__ asks before the list is populated (current length 0, possibly below
        # minlen), __setstate__ restores arbitrary contents -- the answer may depend on the NEW length and the bounds only
        st, self_ref, s0, V, trait = make_tlo_self(cx, length_invariant=False)
        h = st.heap[self_ref.oid]
        if ov == "trait-none":
            st = st.put(self_ref.oid, h.with_field("trait", NONE))
        elif ov == "trait-attribute-missing":
            st = st.put(self_ref.oid, h.without_field("trait"))
        n = z3.Int("new_length")
        return st, [self_ref, VInt(n)], {}, dict(n=n, trait=trait, self_ref=self_ref, witness=dict(new_length=n, current_length=z3.Length(s0)),
                                                  concretise=lambda m: dict(harness="containers", family="list_length"))

    def post(self, cx, I, ov, info, kind, payload, st):
        n, trait = info["n"], info["trait"]
        inb = z3.And(MINLEN(trait) <= n, n <= MAXLEN(trait))
        if ov != "trait-set":
            return [("post:no-trait-no-check", z3.BoolVal(kind == "return"))]
        if kind == "return":
            return [("post:accepts-only-lengths-within-bounds", inb)]
        return [("raise:TraitError-exactly-when-out-of-bounds", z3.And(z3.BoolVal(payload.cname == "TraitError"), z3.Not(inb)))]

    def covers(self, cx, ov, info):
        if ov != "trait-set":
            return []
        return [("accepts", lambda k, p, s: k == "return"), ("rejects", lambda k, p, s: k == "raise")]

    def summary(self, I, self_ref, args, kwargs, st, k):
        (n,) = args
        h = st.heap[self_ref.oid]
        t = h.fields.get("trait")
        if t is None or isinstance(t, VNone):
            return k(NONE, st)
        if not isinstance(t, VElem) or not isinstance(n, VInt):
            raise Unsupported("_validate_length summary")
        none = I.cx.const("None").t
        inb = z3.Or(t.t == none, z3.And(MINLEN(t.t) <= n.t, n.t <= MAXLEN(t.t)))
        return I.cx.branch(st, inb, lambda a: k(NONE, a), lambda b: raise_(b, "TraitError", origin=("length",)))


@register
class TLOItemValidator(Contract):
    """TraitListObject._item_validator: identity when the owner is gone or the item trait has no validator;
    otherwise exactly the item trait's validate(owner, name, value); a TraitError propagates as that TraitError."""
    path = PATH
    qualname = "TraitListObject._item_validator"
    properties = ("C04", "C19")

    def configure(self, cx, I, ov):
        install_owner_hooks(cx)
        info = {}
        self._i = info
        V = Validator(cx, "item_trait")
        info["V"] = V
        has_validate = z3.Bool("item_trait_has_validate")
        info["has_validate"] = has_validate

        def validate_apply(I2, args, kwargs, st, k):
            if len(args) != 3:
                return raise_(st, "TypeError")
            info["call_args"] = args
            return V.as_value().apply(I2, [args[2]], {}, st, k)

        def item_trait(I2, obj, st, k):
            return k(VElem(z3.Const("item_trait", Val)), st)

        def validate_attr(I2, obj, st, k):
            return I2.cx.branch(st, has_validate,
                                lambda a: k(VFunc("opaque", apply=validate_apply, name="validate"), a),
                                lambda b: k(NONE, b))
        cx.elem_attrs["item_trait"] = item_trait
        cx.elem_attrs["validate"] = validate_attr
        cx.elem_attrs["exc.set_prefix"] = lambda I2, exc, st, k: k(
            VFunc("opaque", apply=lambda I3, a, kw, s, kk: kk(NONE, s), name="set_prefix"), st)

    def setup(self, cx, I, ov):
        st, self_ref, s0, V0, trait = make_tlo_self(cx)
        x = z3.Const("value", Val)
        return st, [self_ref, VElem(x)], {}, dict(x=x, self_ref=self_ref, witness=dict(value=x))

    def post(self, cx, I, ov, info, kind, payload, st):
        V, hv, x = self._i["V"], self._i["has_validate"], info["x"]
        alive = z3.Bool("owner_alive")
        active = z3.And(alive, hv)
        # C04 constrains the case "owner alive and the item trait validates"; with a dead owner the classes differ
        # (the list skips validation, the set still validates against the trait) and either is acceptable
        if kind == "return":
            r = as_val(cx, payload, st)
            return [("post:unvalidated-only-without-owner-or-validator",
                     z3.Implies(z3.Not(active), z3.Or(r == x, z3.And(hv, V.ok(x), r == V.val(x))))),
                    ("post:result-of-the-item-trait", z3.Implies(active, z3.And(V.ok(x), r == V.val(x))))]
        return [("raise:exactly-the-item-trait-rejection", z3.And(hv, z3.Not(V.ok(x)), payload.sym == V.exc(x))
                 if payload.sym is not None else z3.BoolVal(False))]

    def covers(self, cx, ov, info):
        return [("returns", lambda k, p, s: k == "return"), ("rejects", lambda k, p, s: k == "raise")]


# ---------------------------------------------------------------------------------------------
# the item validators of TraitDictObject / TraitSetObject (same contract as _item_validator)
# ---------------------------------------------------------------------------------------------

def _make_obj_self(cx, cls, kind, payload_name, sort, validators):
    trait = z3.Const("trait", Val)
    owner_alive = z3.Bool("owner_alive")
    owner = z3.Const("owner", Val)

    def object_apply(I, args, kwargs, st, k):
        return I.cx.branch(st, owner_alive, lambda a: k(VElem(owner), a), lambda b: k(NONE, b))
    st = St().assume(owner != cx.const("None").t, trait != cx.const("None").t)
    nref = VRef(cx.new_oid())
    st = st.put(nref.oid, HObj("list", z3.Const("notifiers", SeqV)))
    self_ref = VRef(cx.new_oid())
    fields = {"trait": VElem(trait), "object": VFunc("opaque", apply=object_apply, name="object_ref"),
              "name": VStr(z3.String("name")), "name_items": VStr(z3.String("name_items")), "notifiers": nref}
    st = st.put(self_ref.oid, HObj(kind, z3.Const(payload_name, sort), cls, fields))
    return st, self_ref


class _OwnerValidator(TLOItemValidator):
    sub_trait = "item_trait"
    cls = None
    kind = None

    def configure(self, cx, I, ov):
        super().configure(cx, I, ov)
        if self.sub_trait != "item_trait":
            cx.elem_attrs[self.sub_trait] = cx.elem_attrs["item_trait"]

    def setup(self, cx, I, ov):
        st, self_ref = _make_obj_self(cx, self.cls, self.kind, "contents", MapV if self.kind == "dict" else SetV, None)
        x = z3.Const("value", Val)
        return st, [self_ref, VElem(x)], {}, dict(x=x, self_ref=self_ref, witness=dict(value=x))


@register
class TDOKeyValidator(_OwnerValidator):
    path = "traits/trait_dict_object.py"
    qualname = "TraitDictObject._key_validator"
    sub_trait = "key_trait"
    cls, kind = "TraitDictObject", "dict"


@register
class TDOValueValidator(_OwnerValidator):
    path = "traits/trait_dict_object.py"
    qualname = "TraitDictObject._value_validator"
    sub_trait = "value_trait"
    cls, kind = "TraitDictObject", "dict"


@register
class TSOValidator(_OwnerValidator):
    path = "traits/trait_set_object.py"
    qualname = "TraitSetObject._validator"
    cls, kind = "TraitSetObject", "set"


# ---------------------------------------------------------------------------------------------
# TraitListObject.__init__: whatever is handed in -- any iterable, including another trait list --
# is validated item by item for the new owner, and the length is checked (C04 'after whole-value
# assignment'; List.validate constructs the object this way).
# ---------------------------------------------------------------------------------------------

def _item_validator_summary(self, I, self_ref, args, kwargs, st, k):
    """call-site summary of TraitListObject._item_validator (its contract above): the item trait's validate when the
    owner is alive and the item trait validates, else the identity (or, with a dead owner, possibly still the
    item trait's validate -- TraitSetObject does that)."""
    V = self._i["V"] if getattr(self, "_i", None) else None
    if V is None:
        V = Validator(I.cx, "item_trait")
        self._i = dict(V=V, has_validate=z3.Bool("item_trait_has_validate"))
    hv, alive = self._i["has_validate"], z3.Bool("owner_alive")
    (x,) = args
    xv = as_val(I.cx, x, st)
    active = z3.And(hv, alive)
    out = I.cx.branch(st, z3.Or(z3.Not(active), V.ok(xv)),
                      lambda a: k(VElem(z3.If(active, V.val(xv), xv)), a), lambda b: [])
    e = V.exc(xv)
    out += I.cx.branch(st, z3.And(active, z3.Not(V.ok(xv))),
                       lambda a: [("raise", VExc(sym=e, origin=("validator", V.name, xv)), a.assume(*I.cx.exc_axioms(e)))],
                       lambda b: [])
    return out


TLOItemValidator.summary = _item_validator_summary


@register
class TLOInit(Contract):
    path = PATH
    qualname = "TraitListObject.__init__"
    properties = ("C04", "C19")
    inline = (("TraitList", "__init__"),)
    assumptions = ("A-PY", "A-BUILTIN:list", "A-CB:validator", "A-CB:iterables-are-finite-and-may-carry-any-attribute")

    def configure(self, cx, I, ov):
        install_owner_hooks(cx)
        cx.elem_attrs["has_items"] = lambda I2, obj, st, k: k(VBool(z3.Bool("trait_has_items")), st)
        owner_alive = z3.Bool("owner_alive")

        def weakref_hook(I2, args, st, k):
            (o,) = args
            return k(VFunc("opaque", name="object_ref", apply=lambda I3, a, kw, s, kk: I3.cx.branch(
                s, owner_alive, lambda s1: kk(o, s1), lambda s2: kk(NONE, s2))), st)
        cx.weakref_hook = weakref_hook
        c = BY_ID_get("traits/trait_list_object.py:TraitListObject._item_validator")
        c._i = None

    def setup(self, cx, I, ov):
        trait, owner = z3.Const("trait", Val), z3.Const("owner", Val)
        st = St().assume(trait != cx.const("None").t, owner != cx.const("None").t,
                         0 <= MINLEN(trait), MINLEN(trait) <= MAXLEN(trait))
        self_ref = VRef(cx.new_oid())
        # object as left by TraitList.__new__
        nref = VRef(cx.new_oid())
        st = st.put(nref.oid, HObj("list", EMPTY_SEQ, None, None, {"pyitems": ()}))
        st = st.put(self_ref.oid, HObj("list", EMPTY_SEQ, "TraitListObject",
                                       {"item_validator": Validator(cx, "everything").as_value(), "notifiers": nref}))
        value, S, st = TL.opaque_iterable(cx, st, "value")
        st = st.gset("events", ())
        return st, [self_ref, VElem(trait), VElem(owner), VStr(z3.String("name")), value], {}, dict(
            self_ref=self_ref, trait=trait, S=S, witness=dict(value=S, minlen=MINLEN(trait), maxlen=MAXLEN(trait)))

    def post(self, cx, I, ov, info, kind, payload, st):
        S, trait = info["S"], info["trait"]
        c = BY_ID_get("traits/trait_list_object.py:TraitListObject._item_validator")
        if not c._i:
            c._i = dict(V=Validator(cx, "item_trait"), has_validate=z3.Bool("item_trait_has_validate"))
        V, hv = c._i["V"], c._i["has_validate"]
        active = z3.And(hv, z3.Bool("owner_alive"))
        n = z3.Length(S)
        inb = z3.And(MINLEN(trait) <= n, n <= MAXLEN(trait))
        j = z3.Int("j!init")
        s1 = st.heap[info["self_ref"].oid].payload
        if kind == "return":
            h = st.heap[info["self_ref"].oid]
            return [
                ("post:length-within-bounds", inb),
                ("post:every-item-validated-for-the-new-owner", z3.And(z3.Length(s1) == n, z3.ForAll([j], z3.Implies(
                    z3.And(0 <= j, j < n), z3.If(active, z3.And(V.ok(S[j]), s1[j] == V.val(S[j])), s1[j] == S[j]))))),
                ("post:bound-to-owner-and-trait", z3.BoolVal(
                    isinstance(h.fields.get("trait"), VElem) and h.fields["trait"].t.eq(trait)
                    and isinstance(h.fields.get("item_validator"), VFunc) and h.fields["item_validator"].kind == "bound"
                    and h.fields["item_validator"].name == "_item_validator")),
            ]
        if payload.cname == "TraitError":
            return [("raise:TraitError-only-for-a-length-violation", z3.Not(inb))]
        if payload.sym is not None:
            return [("raise:only-a-rejected-item", z3.And(active, z3.Exists([j], z3.And(
                0 <= j, j < n, z3.Not(V.ok(S[j])), payload.sym == V.exc(S[j])))))]
        return [("exc-free", z3.BoolVal(False), dict(exception="%s %r" % (payload.cname, payload.origin)))]

    def covers(self, cx, ov, info):
        return [("constructs", lambda k, p, s: k == "return"),
                ("rejects-length", lambda k, p, s: k == "raise" and p.cname == "TraitError")]


def BY_ID_get(cid):
    from vc.unit import BY_ID
    return BY_ID[cid]
