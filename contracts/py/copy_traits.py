"""C14: HasTraits.copy_traits -- the step of clone_traits / __deepcopy__ that carries the values over.

'deep-copying it and clone_traits produce an object ... whose non-transient trait values equal the original's ... The copy
is fully live': for an explicit list of trait names,

  * every value is carried over by an ASSIGNMENT through the receiving object's own trait machinery (setattr(self, name, v)),
    so that it is validated and re-wrapped for the new owner, never by writing the instance dictionary;
  * the value assigned is the original's value under the copy mode of the trait: its `copy` metadata ('shallow', 'ref',
    'deep'), else the mode asked for by the caller;
  * names whose OWN trait on the receiving object is a delegate or a property are assigned only after every ordinary
    trait -- a locally stored value of a prototyped attribute is validated against its prototype, which therefore has to
    be in place first (the link may be declared before its target);
  * (every requested name is assigned, or reported in the list handed back, or is an event: NOT a discharged obligation --
    membership in the three sequences made the queries undecidable in practice; this clause is evaluated only by the
    concrete oracle replay/hastraits.py:copy_traits).

Names are opaque; self.trait(name).type, other.base_trait(name).type / .copy are uninterpreted functions of the name;
getattr(other, name), copy.copy, copy.deepcopy and setattr may each raise anything (the bare except reports the name)."""
import z3

from vc.unit import Contract, register
from vc.pyvc.values import *  # noqa: F401,F403
from vc.pyvc.core import HObj, St, as_val, raise_
from vc.pyvc import loops

PATH = "traits/has_traits.py"
own_type = z3.Function("type_of_own_trait", Val, StrS)           # self.trait(name).type
base_type = z3.Function("type_of_base_trait_on_original", Val, StrS)    # other.base_trait(name).type
copy_meta = z3.Function("copy_metadata_of_base_trait", Val, Val)       # other.base_trait(name).copy: 'shallow' | 'ref' | 'deep' | None ...
value_of = z3.Function("value_on_original", Val, Val)
shallow = z3.Function("copy.copy", Val, Val)
deep = z3.Function("copy.deepcopy", Val, Val)
SHALLOW, REF, DEEP = (z3.Const("str:" + s, Val) for s in ("shallow", "ref", "deep"))


def is_deferred(n):
    return z3.Or(own_type(n) == z3.StringVal("delegate"), own_type(n) == z3.StringVal("property"))


def is_event(n):
    return base_type(n) == z3.StringVal("event")


@register
class CopyTraits(Contract):
    path = PATH
    qualname = "HasTraits.copy_traits"
    properties = ("C14",)
    class_paths = (PATH,)
    overloads = ("explicit-names/no-memo", "explicit-names/memo")
    assumptions = ("A-PY", "trait lookups are functions of the name; getattr / copy / deepcopy / setattr are opaque and may raise",
                   "explicit non-empty list of names (traits=None / 'all' select the list through trait_names(), not covered)")
    timeout_ms = 120000

    def configure(self, cx, I, ov):
        cx.const("None")
        self.T = z3.Const("requested_names", SeqV)
        self.deep_copy, self.shallow_copy = z3.Bool("copy_is_deep"), z3.Bool("copy_is_shallow")
        self.other = z3.Const("original", Val)

        def expected(n):
            cm = copy_meta(n)
            v = value_of(n)
            return z3.If(cm == SHALLOW, shallow(v), z3.If(cm == REF, v, z3.If(z3.Or(cm == DEEP, self.deep_copy), deep(v),
                                                                              z3.If(self.shallow_copy, shallow(v), v))))
        self.expected = expected

        def may_raise(I2, st, what, k_ok):
            e = I2.cx.fresh("exc", Exc)
            b = I2.cx.fresh("raises_" + what, z3.BoolSort())
            return I2.cx.branch(st, b, lambda s: [("raise", VExc(sym=e, origin=(what,)), s.assume(*I2.cx.exc_axioms(e)))], k_ok)

        # self.trait(name) / other.base_trait(name): trait objects whose .type / .copy are functions of the name
        class TraitLookup(Contract):
            path = PATH
            qualname = "HasTraits.trait"

            def summary(self_, I2, self_ref, args, kwargs, st, k):
                return may_raise(I2, st, "self.trait", lambda s: k(VFunc("traitobj", which="own", name=as_val(I2.cx, args[0], s)), s))
        cx.contracts = dict(cx.contracts)
        cx.contracts[("HasTraits", "trait")] = TraitLookup()

        def base_trait_attr(I2, o, st, k):
            return k(VFunc("opaque", name="base_trait", apply=lambda I3, a, kw, s, kk: may_raise(
                I3, s, "other.base_trait", lambda s2: kk(VFunc("traitobj", which="base", name=as_val(I3.cx, a[0], s2)), s2))), st)
        cx.elem_attrs["base_trait"] = base_trait_attr

        def getattr_hook(I2, obj, name, st, k):
            if isinstance(obj, VFunc) and obj.kind == "traitobj":
                if name == "type":
                    return k(VStr((own_type if obj.which == "own" else base_type)(obj.name)), st)
                if name == "copy" and obj.which == "base":
                    return k(VElem(copy_meta(obj.name)), st)
            if isinstance(obj, VFunc) and obj.kind == "opaque-module" and obj.name == "copy":
                fn = shallow if name == "copy" else deep if name == "deepcopy" else None
                if fn is not None:
                    def apply(I3, a, kw, s, kk, fn=fn, name=name):
                        if name == "deepcopy":
                            s = s.gset("deepcopy_memo", s.ghost.get("deepcopy_memo", ()) + (len(a) > 1,))
                        return may_raise(I3, s, "copy." + name, lambda s2: kk(VElem(fn(as_val(I3.cx, a[0], s2))), s2))
                    return k(VFunc("opaque", name="copy." + name, apply=apply), st)
            return None
        cx.getattr_hook = getattr_hook
        cx.module_globals["copy_module"] = VFunc("opaque-module", name="copy")
        cx.module_globals["DeferredCopy"] = VTuple((VStr(const="delegate"), VStr(const="property")))

        def eq_hook(I2, op, a, b, st, k):
            import ast as _ast
            # copy_type == "shallow" etc.: the metadata value against a string constant; traits == "all": a list is no string
            for x, y in ((a, b), (b, a)):
                if isinstance(x, VElem) and isinstance(y, VStr) and y.const in ("shallow", "ref", "deep"):
                    t = x.t == {"shallow": SHALLOW, "ref": REF, "deep": DEEP}[y.const]
                    return k(VBool(t if isinstance(op, _ast.Eq) else z3.Not(t)), st)
                if isinstance(x, VRef) and isinstance(y, VStr):
                    return k(VBool(isinstance(op, _ast.NotEq)), st)
            return None
        cx.eq_hook = eq_hook

        def dyn_getattr(I2, args, st, k):
            if not (isinstance(args[0], VElem) and args[0].t.eq(self.other)):
                return None
            n = as_val(I2.cx, args[1], st)
            return may_raise(I2, st, "getattr(other, name)", lambda s: k(VElem(value_of(n)), s))
        cx.dyn_getattr_hook = dyn_getattr

        def dyn_setattr(I2, args, st, k):
            # the monitor form of the per-assignment clauses: checked at every setattr the real code performs
            tgt, n, v = args
            ok_target = isinstance(tgt, VRef) and tgt.oid == self.self_ref.oid
            nv, vv = as_val(I2.cx, n, st), as_val(I2.cx, v, st)
            I2.require(st, z3.BoolVal(ok_target), "post:every-value-is-carried-over-by-assignment-to-the-receiving-object")
            I2.require(st, vv == self.expected(nv), "post:assigned-value-is-the-original's-value-under-the-trait's-copy-mode")
            I2.require(st, z3.Implies(st.ghost["seen_deferred"], is_deferred(nv)),
                       "post:delegates-and-properties-of-the-receiver-are-assigned-after-every-ordinary-trait")
            st2 = st.gset("seen_deferred", z3.Or(st.ghost["seen_deferred"], is_deferred(nv))).gset("n_assign", st.ghost.get("n_assign", 0) + 1)
            return may_raise(I2, st2, "setattr(self, name, value)", lambda s: k(NONE, s))
        cx.dyn_setattr_hook = dyn_setattr

        T = self.T
        j, a, b = z3.Ints("j!ct a!ct b!ct")

        def member(seq, x):
            return z3.Contains(seq, z3.Unit(x))

        def append_theorems(t):
            """instances, for the term t = x ++ [y] produced by list.append, of the theorems of sequences
            |t| = |x| + 1, t[|x|] = y, t[q] = x[q] for q < |x| (z3's sequence solver does not find them under a quantifier)"""
            if z3.is_app(t) and t.decl().kind() == z3.Z3_OP_SEQ_CONCAT and t.num_args() == 2:
                x, u = t.arg(0), t.arg(1)
                if z3.is_app(u) and u.decl().kind() == z3.Z3_OP_SEQ_UNIT:
                    y = u.arg(0)
                    q = z3.Int("q!app")
                    cx.axioms.append(z3.And(z3.Length(t) == z3.Length(x) + 1, t[z3.Length(x)] == y,
                                            z3.ForAll([q], z3.Implies(z3.And(0 <= q, q < z3.Length(x)), t[q] == x[q]))))
                    cx.hints.append("sequence theorems for x ++ [y] (length, last item, items of x)")

        def inv0(i, view, st):
            D = view["deferred"]
            append_theorems(D)
            return [("deferred-list-holds-only-delegates-and-properties-of-the-receiver", z3.ForAll([j], z3.Implies(z3.And(0 <= j, j < z3.Length(D)), is_deferred(D[j])))),
                    ("nothing-deferred-is-assigned-in-the-first-pass", z3.Not(view["seen_deferred"]))]

        def inv1(i, view, st):
            D = st.heap[st.env["deferred"].oid].payload
            return [("deferred-list-holds-only-delegates-and-properties-of-the-receiver", z3.ForAll([j], z3.Implies(z3.And(0 <= j, j < z3.Length(D)), is_deferred(D[j]))))]
        cx.on_loop = loops.make_hook({
            0: loops.LoopSpec("for name in traits", ["deferred", "unassignable"], inv0, ghost=["seen_deferred"]),
            1: loops.LoopSpec("for name in deferred", ["unassignable"], inv1, ghost=["seen_deferred"])})
        self.member = member

    def setup(self, cx, I, ov):
        NONE_T = cx.const("None").t
        st = St().gset("seen_deferred", z3.BoolVal(False))
        self.self_ref = VRef(cx.new_oid())
        st = st.put(self.self_ref.oid, HObj("obj", None, "HasTraits", {}))
        tref = VRef(cx.new_oid())
        st = st.put(tref.oid, HObj("list", self.T))
        st = st.assume(z3.Length(self.T) > 0, z3.Distinct(SHALLOW, REF, DEEP, NONE_T), z3.Not(z3.And(self.deep_copy, self.shallow_copy)))
        memo = NONE if ov.endswith("no-memo") else VElem(z3.Const("memo", Val))
        if not ov.endswith("no-memo"):
            st = st.assume(z3.Const("memo", Val) != NONE_T)
        # copy: None | 'deep' | 'shallow' -- given as the two booleans the function derives from it
        copy_arg = VFunc("copyarg")

        def eq_copy(I2, op, a, b, st2, k):
            import ast as _ast
            for x, y in ((a, b), (b, a)):
                if isinstance(x, VFunc) and x.kind == "copyarg" and isinstance(y, VStr) and y.const in ("deep", "shallow"):
                    t = self.deep_copy if y.const == "deep" else self.shallow_copy
                    return k(VBool(t if isinstance(op, _ast.Eq) else z3.Not(t)), st2)
            return None
        prev = cx.eq_hook
        cx.eq_hook = lambda I2, op, a, b, st2, k: eq_copy(I2, op, a, b, st2, k) or prev(I2, op, a, b, st2, k)
        return st, [self.self_ref, VElem(self.other), tref, memo, copy_arg], {}, dict(
            witness=dict(requested=self.T, copy_is_deep=self.deep_copy, copy_is_shallow=self.shallow_copy),
            concretise=lambda m: dict(harness="hastraits", family="copy_traits"))

    def post(self, cx, I, ov, info, kind, payload, st):
        if kind == "raise":
            return [("exc-free:a-failing-trait-is-reported-not-raised", z3.BoolVal(False), dict(exception="%s %r" % (payload.cname or payload.sym, payload.origin)))]
        U = st.heap[payload.oid].payload if isinstance(payload, VRef) else None
        out = []
        out.append(("post:returns-the-list-of-unassignable-names", z3.BoolVal(U is not None)))
        memo_flags = st.ghost.get("deepcopy_memo", ())
        out.append(("post:deep-copies-share-the-caller's-memo", z3.BoolVal(all(f == (not ov.endswith("no-memo")) for f in memo_flags))))
        return out

    def covers(self, cx, ov, info):
        return [("copies", lambda k, p, s: k == "return")]
