"""C02 (Python side of delivery): the wrappers that carry one notification from the compiled call_notifiers to a user handler.

'every registered handler (specially named _name_changed/_name_fired/_anytrait_changed methods, on_trait_change handlers ...)
is called exactly once for each assignment that counts as a change ... and never otherwise ... an exception raised inside
one handler neither undoes the assignment nor prevents any other handler from being called':

  * static wrappers (AbstractStaticChangeNotifyWrapper.__call__) and dynamic wrappers (TraitChangeNotifyWrapper.__call__ ->
    _notify_function_listener / _notify_method_listener -> _dispatch_change_event -> dispatch): the user handler is invoked
    EXACTLY ONCE iff the filter _change_accepted accepts (used through its contract: it never raises), with the arguments
    its declared arity is documented to receive (the argument_transforms tables, read from the class bodies on every run);
  * whatever Exception the handler raises is handed to handle_exception and the wrapper RETURNS NORMALLY -- which, with the
    contract of call_notifiers (every notifier of the snapshot is called unless one returns an error), is 'does not prevent
    any other handler from being called';
  * a method listener whose owner has been collected (weak reference dead or disposed) is not called and nothing raises.

A-EXC-HANDLER: the exception-handler stack is in its default state (handle_exception logs and returns); handlers raise
subclasses of Exception; no change-event tracer is installed (the tracer hooks are None)."""
import ast

import z3

from vc.unit import Contract, register
from vc.pyvc.values import *  # noqa: F401,F403
from vc.pyvc.core import HObj, St, as_val, raise_
from vc.pyvc import source

PATH = "traits/trait_notifiers.py"

# the documented handler signatures (user manual, 'Notification Handler Signatures'), by number of declared arguments
DOCUMENTED = {
    "StaticTraitChangeNotifyWrapper": {0: (), 1: ("obj",), 2: ("obj", "new"), 3: ("obj", "old", "new"), 4: ("obj", "name", "old", "new")},
    "StaticAnytraitChangeNotifyWrapper": {0: (), 1: ("obj",), 2: ("obj", "name"), 3: ("obj", "name", "new"), 4: ("obj", "name", "old", "new")},
    "TraitChangeNotifyWrapper": {0: (), 1: ("new",), 2: ("name", "new"), 3: ("obj", "name", "new"), 4: ("obj", "name", "old", "new")},
}


def transform_lambda(cls, arity):
    """the real lambda stored under `arity` in <cls>.argument_transforms, from the AST of the class body"""
    src, tree, funcs, classes = source.index_module(PATH)
    for n in tree.body:
        if isinstance(n, ast.ClassDef) and n.name == cls:
            for b in n.body:
                if isinstance(b, ast.Assign) and getattr(b.targets[0], "id", None) == "argument_transforms" and isinstance(b.value, ast.Dict):
                    for kx, vx in zip(b.value.keys, b.value.values):
                        if isinstance(kx, ast.Constant) and kx.value == arity and isinstance(vx, ast.Lambda):
                            return vx
    raise Unsupported("%s.argument_transforms[%d] is not a literal lambda" % (cls, arity))


class _Wrapper(Contract):
    path = PATH
    properties = ("C02", "C19")
    class_paths = (PATH,)
    assumptions = ("A-PY", "A-EXC-HANDLER", "_change_accepted through its contract (a boolean, never raises)",
                   "no change-event tracer installed")
    table_class = None

    def base_configure(self, cx, I, ov):
        cx.module_globals["_pre_change_event_tracer"] = NONE
        cx.module_globals["_post_change_event_tracer"] = NONE
        self.accepted = z3.Bool("change_accepted")
        log = lambda st, rec: st.gset("log", st.ghost.get("log", ()) + (rec,))
        self.log = log

        def accepted_apply(I2, a, kw, st, k):
            return k(VBool(self.accepted), log(st, ("filter",) + tuple(a)))
        cx.module_globals["_change_accepted"] = VFunc("opaque", name="_change_accepted", apply=accepted_apply)
        cx.module_globals["handle_exception"] = VFunc("opaque", name="handle_exception", apply=lambda I2, a, kw, st, k: k(NONE, log(st, ("handle_exception",) + tuple(a))))
        self.obj, self.old, self.new = z3.Consts("object old new", Val)
        self.name = z3.String("trait_name")

        def handler_apply(I2, a, kw, st, k):
            st2 = log(st, ("handler",) + tuple(a))
            e = I2.cx.fresh("handler_exc", Exc)
            fails = I2.cx.fresh("handler_raises", z3.BoolSort())
            return I2.cx.branch(st2, fails, lambda s: [("raise", VExc(sym=e, origin=("handler",)), s.assume(*I2.cx.exc_axioms(e), I2.cx.exc_isa_sym(e, "Exception")))],
                                lambda s: k(NONE, s))
        self.handler = VFunc("opaque", name="user-handler", apply=handler_apply)

    def call_args(self):
        return [VElem(self.obj), VStr(self.name), VElem(self.old), VElem(self.new)]

    def expected_args_ok(self, cx, st, got, arity):
        names = DOCUMENTED[self.table_class][arity]
        if len(got) != len(names):
            return z3.BoolVal(False)
        exp = {"obj": self.obj, "old": self.old, "new": self.new}
        cs = []
        for g, n in zip(got, names):
            if n == "name":
                cs.append(g.t == self.name if isinstance(g, VStr) and g.t is not None else z3.BoolVal(False))
            else:
                cs.append(as_val(cx, g, st) == exp[n])
        return z3.And(*cs) if cs else z3.BoolVal(True)

    def delivery_clauses(self, cx, kind, payload, st, arity, may_call):
        log = st.ghost.get("log", ())
        calls = [r for r in log if r[0] == "handler"]
        out = []
        if kind == "raise":
            return [("exc-free:a-failing-handler-never-escapes-the-wrapper", z3.BoolVal(False), dict(exception="%s %r" % (payload.cname or payload.sym, payload.origin)))]
        out.append(("post:handler-called-at-most-once", z3.BoolVal(len(calls) <= 1)))
        out.append(("post:handler-called-iff-the-change-is-accepted", z3.BoolVal(len(calls) == 1) == may_call))
        if calls:
            out.append(("post:handler-receives-the-documented-arguments-of-its-arity", self.expected_args_ok(cx, st, calls[0][1:], arity)))
        hx = [r for r in log if r[0] == "handle_exception"]
        out.append(("post:the-exception-handler-is-consulted-only-for-a-failing-handler", z3.BoolVal(len(hx) <= 1 and (not hx or bool(calls)))))
        return out


def _static(cls):
    class _S(_Wrapper):
        qualname = "AbstractStaticChangeNotifyWrapper.__call__"
        table_class = cls
        overloads = tuple("%s/arity-%d" % (cls, n) for n in range(5))

        @property
        def cid(self):
            return "%s:%s<%s>" % (self.path, self.qualname, cls)

        def configure(self, cx, I, ov):
            self.base_configure(cx, I, ov)

        def setup(self, cx, I, ov):
            arity = int(ov[-1])
            st = St()
            self_ref = VRef(cx.new_oid())
            lam = transform_lambda(cls, arity)
            st = st.put(self_ref.oid, HObj("obj", None, cls, {"handler": self.handler,
                                                             "argument_transform": VFunc("lambda", node=lam, env={}, name="<lambda>", cls=cls)}))
            return st, [self_ref] + self.call_args(), {}, dict(arity=arity, witness={"accepted": self.accepted})

        def post(self, cx, I, ov, info, kind, payload, st):
            return self.delivery_clauses(cx, kind, payload, st, info["arity"], self.accepted)

        def covers(self, cx, ov, info):
            return [("delivers", lambda k, p, s: k == "return" and any(r[0] == "handler" for r in s.ghost.get("log", ()))),
                    ("filters", lambda k, p, s: k == "return" and not any(r[0] == "handler" for r in s.ghost.get("log", ()))),
                    ("contains-a-failing-handler", lambda k, p, s: k == "return" and any(r[0] == "handle_exception" for r in s.ghost.get("log", ())))]
    _S.__name__ = "Static_" + cls
    return register(_S)


_static("StaticTraitChangeNotifyWrapper")
# registered under a second id: the same real function, the other table
_anytrait = _static("StaticAnytraitChangeNotifyWrapper")


@register
class DispatchChangeEvent(_Wrapper):
    qualname = "TraitChangeNotifyWrapper._dispatch_change_event"
    table_class = "TraitChangeNotifyWrapper"
    overloads = tuple("arity-%d" % n for n in range(5))
    inline = (("TraitChangeNotifyWrapper", "dispatch"),)

    def configure(self, cx, I, ov):
        self.base_configure(cx, I, ov)

    def setup(self, cx, I, ov):
        arity = int(ov[-1])
        st = St()
        self_ref = VRef(cx.new_oid())
        lam = transform_lambda(self.table_class, arity)
        st = st.put(self_ref.oid, HObj("obj", None, "TraitChangeNotifyWrapper", {
            "argument_transform": VFunc("lambda", node=lam, env={}, name="<lambda>", cls="TraitChangeNotifyWrapper")}))
        return st, [self_ref] + self.call_args() + [self.handler], {}, dict(arity=arity, witness={})

    def post(self, cx, I, ov, info, kind, payload, st):
        return self.delivery_clauses(cx, kind, payload, st, info["arity"], z3.BoolVal(True))

    def covers(self, cx, ov, info):
        return [("delivers", lambda k, p, s: k == "return"),
                ("contains-a-failing-handler", lambda k, p, s: k == "return" and any(r[0] == "handle_exception" for r in s.ghost.get("log", ())))]


class _Listener(_Wrapper):
    """_notify_function_listener / _notify_method_listener: one delegation to _dispatch_change_event iff accepted (and, for a
    method listener, iff the owner of the bound method is still alive), with the listener resolved from the live owner"""

    def configure(self, cx, I, ov):
        self.base_configure(cx, I, ov)
        outer = self

        class Dispatch(Contract):
            path = PATH
            qualname = "TraitChangeNotifyWrapper._dispatch_change_event"

            def summary(self_, I2, self_ref, args, kwargs, st, k):
                return k(NONE, outer.log(st, ("dispatch",) + tuple(args)))
        cx.contracts = dict(cx.contracts)
        cx.contracts[("TraitChangeNotifyWrapper", "_dispatch_change_event")] = Dispatch()

    def dispatch_clauses(self, cx, kind, payload, st, may, listener_is):
        if kind == "raise":
            return [("exc-free", z3.BoolVal(False), dict(exception="%s %r" % (payload.cname or payload.sym, payload.origin)))]
        d = [r for r in st.ghost.get("log", ()) if r[0] == "dispatch"]
        out = [("post:at-most-one-dispatch", z3.BoolVal(len(d) <= 1)),
               ("post:dispatched-iff-accepted-and-listener-alive", z3.BoolVal(len(d) == 1) == may)]
        if d:
            a = d[0][1:]
            ok = len(a) == 5 and as_val(cx, a[0], st).eq(self.obj) and isinstance(a[1], VStr) and a[1].t.eq(self.name) and \
                as_val(cx, a[2], st).eq(self.old) and as_val(cx, a[3], st).eq(self.new)
            out.append(("post:the-event-is-passed-on-unchanged", z3.BoolVal(bool(ok))))
            out.append(("post:dispatched-to-the-registered-listener", listener_is(a[4]) if len(a) == 5 else z3.BoolVal(False)))
        return out


@register
class NotifyFunctionListener(_Listener):
    qualname = "TraitChangeNotifyWrapper._notify_function_listener"

    def setup(self, cx, I, ov):
        st = St()
        self_ref = VRef(cx.new_oid())
        st = st.put(self_ref.oid, HObj("obj", None, "TraitChangeNotifyWrapper", {"handler": self.handler}))
        return st, [self_ref] + self.call_args(), {}, dict(witness={})

    def post(self, cx, I, ov, info, kind, payload, st):
        return self.dispatch_clauses(cx, kind, payload, st, self.accepted, lambda h: z3.BoolVal(h is self.handler))

    def covers(self, cx, ov, info):
        return [("delivers", lambda k, p, s: k == "return" and any(r[0] == "dispatch" for r in s.ghost.get("log", ()))),
                ("filters", lambda k, p, s: k == "return" and not any(r[0] == "dispatch" for r in s.ghost.get("log", ())))]


@register
class NotifyMethodListener(_Listener):
    qualname = "TraitChangeNotifyWrapper._notify_method_listener"
    overloads = ("registered", "disposed")

    def configure(self, cx, I, ov):
        _Listener.configure(self, cx, I, ov)
        self.owner = z3.Const("owner_of_the_bound_method", Val)
        self.alive = z3.Bool("owner_alive")
        self.method = z3.Const("bound_method_now", Val)

        def call_hook(I2, fv, args, kwargs, st, k):
            # the weak reference: calling it yields the owner, or None once the owner is gone
            if isinstance(fv, VConst) and fv.name == "weakref-to-owner" and not args:
                return I2.cx.branch(st, self.alive, lambda s: k(VElem(self.owner), s), lambda s: k(NONE, s))
            return None
        cx.call_hook = call_hook

        def dyn_getattr(I2, args, st, k):
            if isinstance(args[0], VElem) and args[0].t.eq(self.owner):
                return k(VElem(self.method), self.log(st, ("resolve", args[1])))
            if isinstance(args[0], VNone):
                return raise_(st, "AttributeError", origin=("getattr(None, name)",))
            return None
        cx.dyn_getattr_hook = dyn_getattr

    def setup(self, cx, I, ov):
        NONE_T = cx.const("None").t
        st = St().assume(self.owner != NONE_T)
        self_ref = VRef(cx.new_oid())
        self.mname = z3.String("method_name")
        ref = cx.const("weakref-to-owner") if ov == "registered" else NONE
        st = st.put(self_ref.oid, HObj("obj", None, "TraitChangeNotifyWrapper", {"object": ref, "name": VStr(self.mname)}))
        return st, [self_ref] + self.call_args(), {}, dict(witness={"owner_alive": self.alive, "accepted": self.accepted})

    def post(self, cx, I, ov, info, kind, payload, st):
        may = z3.And(self.accepted, self.alive) if ov == "registered" else z3.BoolVal(False)
        out = self.dispatch_clauses(cx, kind, payload, st, may, lambda h: as_val(cx, h, st) == self.method)
        res = [r for r in st.ghost.get("log", ()) if r[0] == "resolve"]
        if res:
            out.append(("post:the-listener-is-looked-up-by-its-name-on-the-live-owner", res[0][1].t == self.mname if isinstance(res[0][1], VStr) else z3.BoolVal(False)))
        return out

    def covers(self, cx, ov, info):
        if ov == "disposed":
            return [("silent", lambda k, p, s: k == "return")]
        return [("delivers", lambda k, p, s: k == "return" and any(r[0] == "dispatch" for r in s.ghost.get("log", ()))),
                ("owner-collected", lambda k, p, s: z3.And(z3.BoolVal(k == "return"), z3.Not(self.alive)))]


@register
class ArgumentTransformTables(Contract):
    """data lemma: each of the three argument_transforms tables maps every arity 0..4 to a lambda over (obj, name, old, new)
    that returns exactly the documented tuple for that arity (read from the class bodies on this run)."""
    lang = "data"
    path = PATH
    qualname = "<module>.argument_transforms tables"
    properties = ("C02",)
    assumptions = ("the class bodies are read from the source on every run",)

    def data_obligations(self, ov):
        import hashlib
        from vc.solve import Obligation
        src, tree, funcs, classes = source.index_module(PATH)
        obs = []
        name0 = "%s[%s]" % (self.cid, ov)
        for cls, table in DOCUMENTED.items():
            for arity, names in table.items():
                try:
                    lam = transform_lambda(cls, arity)
                    params = [a.arg for a in lam.args.args]
                    body = lam.body
                    got = tuple(e.id for e in body.elts) if isinstance(body, ast.Tuple) and all(isinstance(e, ast.Name) for e in body.elts) else None
                    pos = dict(zip(params, ("obj", "name", "old", "new")))
                    ok = len(params) == 4 and got is not None and tuple(pos.get(g) for g in got) == names
                    detail = "%s.argument_transforms[%d] = %s" % (cls, arity, ast.unparse(lam))
                except Unsupported as e:
                    ok, detail = False, str(e)
                obs.append(Obligation("%s/lemma:%s-arity-%d-gets-the-documented-arguments" % (name0, cls, arity), [], z3.BoolVal(bool(ok)),
                                      kind="lemma", props=self.properties, witness={"detail": detail}))
        sha = hashlib.sha256(src.encode()).hexdigest()
        cx = type("DataCx", (), dict(axioms=[], hints=[], notes=[], distinct_consts_axiom=lambda self: []))()
        return cx, obs, dict(sha=sha, paths=1, lines=(1, None))


@register
class WrapperEquals(Contract):
    """TraitChangeNotifyWrapper.equals(handler): how on_trait_change(handler, ..., remove=True) finds the wrapper to take out.
    True exactly for: the wrapper itself; a bound method with the SAME NAME on the SAME (still alive) owner as the method listener
    this wrapper dispatches to; a plain callable equal to the function this wrapper holds (only for function listeners).
    Anything else is False -- in particular a method of another object with the same name, a method whose owner was collected,
    and a function compared with a method listener."""
    path = PATH
    qualname = "TraitChangeNotifyWrapper.equals"
    properties = ("C02", "C16")
    class_paths = (PATH,)
    overloads = ("bound-method-argument", "plain-callable-argument", "the-wrapper-itself",
                 "bound-method-argument/function-listener", "plain-callable-argument/method-listener")
    assumptions = ("A-PY", "A-EQ on plain callables", "type(h) is MethodType / h.__self__ / h.__name__ of the argument are opaque attributes")

    def configure(self, cx, I, ov):
        NONE_T = cx.const("None").t
        self.arg = z3.Const("handler_argument", Val)
        self.arg_owner, self.my_owner, self.my_func = z3.Consts("argument_owner my_owner my_function", Val)
        self.arg_name, self.my_name = z3.String("argument_method_name"), z3.String("my_method_name")
        self.alive, self.method_listener = z3.Bool("my_owner_alive"), z3.Bool("i_am_a_method_listener")
        cx.module_globals["MethodType"] = cx.const("MethodType")
        # `==` between two owner objects is an arbitrary equivalence (value-based __eq__: two distinct listeners may compare
        # equal); the wrapper must identify its owner by IDENTITY
        eqv = z3.Function("objects_compare_equal", Val, Val, z3.BoolSort())
        x_, y_ = z3.Consts("x!oe y!oe", Val)
        cx.axioms += [z3.ForAll([x_], eqv(x_, x_)), z3.ForAll([x_, y_], eqv(x_, y_) == eqv(y_, x_))]
        if ov.startswith("bound-method-argument"):
            cx.val_eq = lambda a, b: eqv(a, b)
        is_method = ov.startswith("bound-method-argument")
        cx.module_globals["type"] = VFunc("opaque", name="type", apply=lambda I2, a, kw, st, k: k(
            cx.const("MethodType") if (is_method and isinstance(a[0], VElem) and a[0].t.eq(self.arg)) else VElem(z3.Const("some_other_type", Val)), st))
        cx.elem_attrs["__self__"] = lambda I2, o, st, k: k(VElem(self.arg_owner), st)
        cx.elem_attrs["__name__"] = lambda I2, o, st, k: k(VStr(self.arg_name), st)

        def call_hook(I2, fv, args, kwargs, st, k):
            if isinstance(fv, VConst) and fv.name == "my-weakref" and not args:
                return I2.cx.branch(st, self.alive, lambda s: k(VElem(self.my_owner), s), lambda s: k(NONE, s))
            return None
        cx.call_hook = call_hook

    def setup(self, cx, I, ov):
        NONE_T = cx.const("None").t
        st = St().assume(self.arg_owner != NONE_T, self.my_owner != NONE_T, z3.Const("some_other_type", Val) != cx.const("MethodType").t)
        self_ref = VRef(cx.new_oid())
        # a method listener has a name and a weak reference to its owner; a function listener has name None and holds the function
        outs = []
        self.self_ref = self_ref
        fields_m = {"name": VStr(self.my_name), "object": cx.const("my-weakref")}
        fields_f = {"name": NONE, "handler": VElem(self.my_func), "object": NONE}
        self.variant = "function" if ov in ("plain-callable-argument", "bound-method-argument/function-listener") else "method"
        # both listener kinds are covered for every argument kind through the symbolic flag below (two heap shapes = two runs)
        st = st.put(self_ref.oid, HObj("obj", None, "TraitChangeNotifyWrapper", fields_m if self.variant == "method" else fields_f))
        arg = self_ref if ov == "the-wrapper-itself" else VElem(self.arg)
        st = st.assume(cx.ref_val(self_ref) != self.arg)       # in the two other overloads the argument is another object
        return st, [self_ref, arg], {}, dict(witness={})

    def post(self, cx, I, ov, info, kind, payload, st):
        if kind == "raise":
            return [("exc-free", z3.BoolVal(False), dict(exception="%s %r" % (payload.cname or payload.sym, payload.origin)))]
        r = payload.t if isinstance(payload, VBool) else None
        if r is None:
            return [("post:returns-a-boolean", z3.BoolVal(False))]
        if ov == "the-wrapper-itself":
            return [("post:a-wrapper-equals-itself", r)]
        if "/" in ov:
            return [("post:a-method-never-matches-a-function-listener-nor-a-function-a-method-listener", z3.Not(r))]
        if ov == "bound-method-argument":
            return [("post:a-bound-method-matches-iff-same-name-on-the-same-live-owner", r == z3.And(self.arg_name == self.my_name, self.alive, self.arg_owner == self.my_owner))]
        return [("post:a-plain-callable-matches-iff-equal-to-the-function-held", r == (self.arg == self.my_func))]

    def covers(self, cx, ov, info):
        return [("answers", lambda k, p, s: k == "return")]
