"""C08 -- which objects an observer walks into (iter_objects) and which observables it hooks (iter_observables).

Generators are executed to exhaustion with everything yielded recorded in ghost state (`yield v` -> ("item", v),
`yield from it` -> ("from", it), the iterable of a `yield from` is not unfolded)."""
import z3

from vc.unit import Contract, register
from vc.pyvc.values import *  # noqa: F401,F403
from vc.pyvc.core import HObj, St, as_val

TPATH = "traits/observation/_trait_added_observer.py"


class _Restricted(Contract):
    path = TPATH
    properties = ("C08", "C09")
    class_paths = (TPATH,)
    assumptions = ("A-PY", "generator bodies run to exhaustion; the helper iter_objects(object, name) is an opaque function of (object, name)")
    undecided_probe = dict(harness="observe", family="trait_added_filtered")

    def configure(self, cx, I, ov):
        self.name = z3.String("trait_name")
        self.wrapped = z3.Const("wrapped_observer", Val)
        helper = z3.Function("helper_iter_objects", Val, z3.StringSort(), Val)
        self.helper = helper

        def iter_objects(I2, a, kw, st, k):
            o, n = a
            return k(VElem(helper(as_val(cx, o, st), n.t)), st.gset("helper_calls", st.ghost.get("helper_calls", 0) + 1))
        cx.module_globals["iter_objects"] = VFunc("opaque", name="iter_objects", apply=iter_objects)
        ctrait = z3.Function("instance_trait_of", Val, z3.StringSort(), Val)
        self.ctrait = ctrait

        def _trait(I2, o, st, k):
            def apply(I3, a, kw, s, kk):
                n, mode = a
                s = s.gset("trait_calls", tuple(s.ghost.get("trait_calls", ())) + ((n, mode),))
                return kk(VElem(ctrait(o.t, n.t)), s)
            return k(VFunc("opaque", name="_trait", apply=apply), st)
        cx.elem_attrs["_trait"] = _trait

        def wrapped_attr(nm):
            def h(I2, o, st, k):
                return k(VFunc("opaque", name="wrapped." + nm, apply=lambda I3, a, kw, s, kk: kk(
                    VElem(z3.Const("wrapped_result", Val)), s.gset("wrapped_calls", tuple(s.ghost.get("wrapped_calls", ())) + (nm,)))), st)
            return h
        for nm in ("iter_objects", "iter_observables"):
            cx.elem_attrs[nm] = wrapped_attr(nm)

    def setup(self, cx, I, ov):
        st = St()
        self_ref = VRef(cx.new_oid())
        st = st.put(self_ref.oid, HObj("obj", None, "_RestrictedNamedTraitObserver", {"name": VStr(self.name), "_wrapped_observer": VElem(self.wrapped)}))
        obj = z3.Const("object", Val)
        return st, [self_ref, VElem(obj)], {}, dict(obj=obj, witness={}, concretise=lambda m: dict(harness="observe", family="trait_added_filtered"))

    def covers(self, cx, ov, info):
        return [("exhausted", lambda k, p, s: k == "return")]


@register
class RestrictedIterObjects(_Restricted):
    """_RestrictedNamedTraitObserver.iter_objects: the observer that hooks ONE newly added trait walks into the value of that
    trait only -- never into what the wrapped (filtered) observer would walk into, i.e. the values of all matching traits,
    which are hooked already: walking into them again attaches the child graph a second time, and a later reassignment
    removes it once only, leaving a detached object observed."""
    qualname = "_RestrictedNamedTraitObserver.iter_objects"

    def post(self, cx, I, ov, info, kind, payload, st):
        if kind == "raise":
            return [("exc-free", z3.BoolVal(False))]
        y = st.ghost.get("yielded", ())
        ok = len(y) == 1 and y[0][0] == "from" and isinstance(y[0][1], VElem)
        return [("post:yields-exactly-the-helper's-values-for-the-one-named-trait",
                 z3.And(z3.BoolVal(ok), y[0][1].t == self.helper(info["obj"], self.name)) if ok else z3.BoolVal(False)),
                ("post:the-wrapped-observer-is-not-asked", z3.BoolVal(not st.ghost.get("wrapped_calls", ())))]


@register
class RestrictedIterObservables(_Restricted):
    """_RestrictedNamedTraitObserver.iter_observables: exactly one observable, the INSTANCE trait (mode 2) of the one name."""
    qualname = "_RestrictedNamedTraitObserver.iter_observables"

    def post(self, cx, I, ov, info, kind, payload, st):
        if kind == "raise":
            return [("exc-free", z3.BoolVal(False))]
        y = st.ghost.get("yielded", ())
        tc = st.ghost.get("trait_calls", ())
        ok = len(y) == 1 and y[0][0] == "item" and isinstance(y[0][1], VElem) and len(tc) == 1
        if not ok:
            return [("post:yields-exactly-the-instance-trait-of-the-one-named-trait", z3.BoolVal(False))]
        n, mode = tc[0]
        return [("post:yields-exactly-the-instance-trait-of-the-one-named-trait",
                 z3.And(y[0][1].t == self.ctrait(info["obj"], self.name), n.t == self.name, mode.t == 2 if isinstance(mode, VInt) else z3.BoolVal(False))),
                ("post:the-wrapped-observer-is-not-asked", z3.BoolVal(not st.ghost.get("wrapped_calls", ())))]
