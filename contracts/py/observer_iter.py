"""C08 -- which objects an observer walks into (iter_objects) and which observables it hooks (iter_observables).

Generators are executed to exhaustion with everything yielded recorded in ghost state (`yield v` -> ("item", v),
`yield from it` -> ("from", it), the iterable of a `yield from` is not unfolded)."""
import z3

from vc.unit import Contract, register
from vc.pyvc.values import *  # noqa: F401,F403
from vc.pyvc.core import HObj, St, as_val

TPATH = "traits/observation/_trait_added_observer.py"


class _Restricted(Contract):
    path = TPATH
    properties = ("C08", "C09")
    class_paths = (TPATH,)
    assumptions = ("A-PY", "generator bodies run to exhaustion; the helper iter_objects(object, name) is an opaque function of (object, name)")
    undecided_probe = dict(harness="observe", family="trait_added_filtered")

    def configure(self, cx, I, ov):
        self.name = z3.String("trait_name")
        self.wrapped = z3.Const("wrapped_observer", Val)
        helper = z3.Function("helper_iter_objects", Val, z3.StringSort(), Val)
        self.helper = helper

        def iter_objects(I2, a, kw, st, k):
            o, n = a
            return k(VElem(helper(as_val(cx, o, st), n.t)), st.gset("helper_calls", st.ghost.get("helper_calls", 0) + 1))
        cx.module_globals["iter_objects"] = VFunc("opaque", name="iter_objects", apply=iter_objects)
        ctrait = z3.Function("instance_trait_of", Val, z3.StringSort(), Val)
        self.ctrait = ctrait

        def _trait(I2, o, st, k):
            def apply(I3, a, kw, s, kk):
                n, mode = a
                s = s.gset("trait_calls", tuple(s.ghost.get("trait_calls", ())) + ((n, mode),))
                return kk(VElem(ctrait(o.t, n.t)), s)
            return k(VFunc("opaque", name="_trait", apply=apply), st)
        cx.elem_attrs["_trait"] = _trait

        def wrapped_attr(nm):
            def h(I2, o, st, k):
                return k(VFunc("opaque", name="wrapped." + nm, apply=lambda I3, a, kw, s, kk: kk(
                    VElem(z3.Const("wrapped_result", Val)), s.gset("wrapped_calls", tuple(s.ghost.get("wrapped_calls", ())) + (nm,)))), st)
            return h
        for nm in ("iter_objects", "iter_observables"):
            cx.elem_attrs[nm] = wrapped_attr(nm)

    def setup(self, cx, I, ov):
        st = St()
        self_ref = VRef(cx.new_oid())
        st = st.put(self_ref.oid, HObj("obj", None, "_RestrictedNamedTraitObserver", {"name": VStr(self.name), "_wrapped_observer": VElem(self.wrapped)}))
        obj = z3.Const("object", Val)
        return st, [self_ref, VElem(obj)], {}, dict(obj=obj, witness={}, concretise=lambda m: dict(harness="observe", family="trait_added_filtered"))

    def covers(self, cx, ov, info):
        return [("exhausted", lambda k, p, s: k == "return")]


@register
class RestrictedIterObjects(_Restricted):
    """_RestrictedNamedTraitObserver.iter_objects: the observer that hooks ONE newly added trait walks into the value of that
    trait only -- never into what the wrapped (filtered) observer would walk into, i.e. the values of all matching traits,
    which are hooked already: walking into them again attaches the child graph a second time, and a later reassignment
    removes it once only, leaving a detached object observed."""
    qualname = "_RestrictedNamedTraitObserver.iter_objects"

    def post(self, cx, I, ov, info, kind, payload, st):
        if kind == "raise":
            return [("exc-free", z3.BoolVal(False))]
        y = st.ghost.get("yielded", ())
        ok = len(y) == 1 and y[0][0] == "from" and isinstance(y[0][1], VElem)
        return [("post:yields-exactly-the-helper's-values-for-the-one-named-trait",
                 z3.And(z3.BoolVal(ok), y[0][1].t == self.helper(info["obj"], self.name)) if ok else z3.BoolVal(False)),
                ("post:the-wrapped-observer-is-not-asked", z3.BoolVal(not st.ghost.get("wrapped_calls", ())))]


@register
class RestrictedIterObservables(_Restricted):
    """_RestrictedNamedTraitObserver.iter_observables: exactly one observable, the INSTANCE trait (mode 2) of the one name."""
    qualname = "_RestrictedNamedTraitObserver.iter_observables"

    def post(self, cx, I, ov, info, kind, payload, st):
        if kind == "raise":
            return [("exc-free", z3.BoolVal(False))]
        y = st.ghost.get("yielded", ())
        tc = st.ghost.get("trait_calls", ())
        ok = len(y) == 1 and y[0][0] == "item" and isinstance(y[0][1], VElem) and len(tc) == 1
        if not ok:
            return [("post:yields-exactly-the-instance-trait-of-the-one-named-trait", z3.BoolVal(False))]
        n, mode = tc[0]
        return [("post:yields-exactly-the-instance-trait-of-the-one-named-trait",
                 z3.And(y[0][1].t == self.ctrait(info["obj"], self.name), n.t == self.name, mode.t == 2 if isinstance(mode, VInt) else z3.BoolVal(False))),
                ("post:the-wrapped-observer-is-not-asked", z3.BoolVal(not st.ghost.get("wrapped_calls", ())))]


# ------------------------------------------------------------------------------------------------------------------
NPATH = "traits/observation/_named_trait_observer.py"


class _Named(Contract):
    path = NPATH
    properties = ("C08", "C09")
    class_paths = (NPATH,)
    overloads = ("default",)
    assumptions = ("A-PY", "generator bodies run to exhaustion", "object_has_named_trait(object, name) is an opaque predicate (its body: isinstance CHasTraits and _trait(name, 0) is not None)")

    def configure(self, cx, I, ov):
        self.name = z3.String("trait_name")
        self.optional, self.has = z3.Bool("optional"), z3.Bool("object_has_the_named_trait")
        helper = z3.Function("helper_iter_objects", Val, z3.StringSort(), Val)
        self.helper = helper
        self.ctrait = z3.Function("instance_trait_of", Val, z3.StringSort(), Val)

        def has_named(I2, a, kw, st, k):
            o, n = a
            ok = isinstance(o, VElem) and isinstance(n, VStr)
            st = st.gset("asked", tuple(st.ghost.get("asked", ())) + ((o, n),))
            return k(VBool(self.has), st)
        cx.module_globals["object_has_named_trait"] = VFunc("opaque", name="object_has_named_trait", apply=has_named)

        def iter_objects(I2, a, kw, st, k):
            o, n = a
            return k(VElem(helper(as_val(cx, o, st), n.t)), st)
        cx.module_globals["iter_objects"] = VFunc("opaque", name="iter_objects", apply=iter_objects)

        def _trait(I2, o, st, k):
            def apply(I3, a, kw, s, kk):
                n, mode = a
                s = s.gset("trait_calls", tuple(s.ghost.get("trait_calls", ())) + ((n, mode),))
                return kk(VElem(self.ctrait(o.t, n.t)), s)
            return k(VFunc("opaque", name="_trait", apply=apply), st)
        cx.elem_attrs["_trait"] = _trait

    def setup(self, cx, I, ov):
        st = St()
        self_ref = VRef(cx.new_oid())
        st = st.put(self_ref.oid, HObj("obj", None, "NamedTraitObserver", {"name": VStr(self.name), "optional": VBool(self.optional), "notify": VBool(z3.Bool("notify"))}))
        obj = z3.Const("object", Val)
        return st, [self_ref, VElem(obj)], {}, dict(obj=obj, witness={"optional": self.optional, "has trait": self.has})

    def common(self, cx, info, kind, payload, st, what):
        """the part shared by both generators: a missing trait is an error unless the observer is optional, in which case
        nothing is yielded"""
        y = st.ghost.get("yielded", ())
        asked = st.ghost.get("asked", ())
        out = [("post:the-question-is-about-this-object-and-this-name", z3.BoolVal(len(asked) == 1 and isinstance(asked[0][0], VElem)) if len(asked) != 1 else
                z3.And(asked[0][0].t == info["obj"], asked[0][1].t == self.name))]
        if kind == "raise":
            out.append(("raise:only-ValueError-for-a-missing-trait-of-a-non-optional-observer",
                        z3.And(z3.BoolVal(payload.cname == "ValueError"), z3.Not(self.has), z3.Not(self.optional))))
            out.append(("raise:nothing-yielded-before", z3.BoolVal(len(y) == 0)))
            return out, None
        out.append(("post:completes-iff-the-trait-exists-or-the-observer-is-optional", z3.Or(self.has, self.optional)))
        out.append(("post:%s-exactly-when-the-trait-exists" % what, z3.BoolVal(len(y) == 1) == self.has if len(y) <= 1 else z3.BoolVal(False)))
        return out, y

    def covers(self, cx, ov, info):
        return [("exhausted", lambda k, p, s: k == "return"), ("missing", lambda k, p, s: k == "raise")]


@register
class NamedIterObservables(_Named):
    """NamedTraitObserver.iter_observables: the instance trait (mode 2) of the one name, once; ValueError for a missing trait
    unless optional (then nothing)."""
    qualname = "NamedTraitObserver.iter_observables"

    def post(self, cx, I, ov, info, kind, payload, st):
        out, y = self.common(cx, info, kind, payload, st, "one-observable")
        if y:
            tc = st.ghost.get("trait_calls", ())
            ok = y[0][0] == "item" and isinstance(y[0][1], VElem) and len(tc) == 1 and isinstance(tc[0][1], VInt)
            out.append(("post:the-observable-is-the-INSTANCE-trait-of-the-name", z3.And(y[0][1].t == self.ctrait(info["obj"], self.name), tc[0][0].t == self.name, tc[0][1].t == 2) if ok else z3.BoolVal(False)))
        return out


@register
class NamedIterObjects(_Named):
    """NamedTraitObserver.iter_objects: what the helper gives for (object, name) -- the value stored in the instance dictionary,
    unless it is one of the unobservable filled values -- and nothing else."""
    qualname = "NamedTraitObserver.iter_objects"

    def post(self, cx, I, ov, info, kind, payload, st):
        out, y = self.common(cx, info, kind, payload, st, "the-helper's-values")
        if y:
            ok = y[0][0] == "from" and isinstance(y[0][1], VElem)
            out.append(("post:yields-the-helper's-values-for-this-object-and-name", y[0][1].t == self.helper(info["obj"], self.name) if ok else z3.BoolVal(False)))
        return out


# ------------------------------------------------------------------------------------------------------------------
HPATH = "traits/observation/_has_traits_helpers.py"


@register
class HelperIterObjects(Contract):
    """iter_objects(object, name): yields the value stored under `name` in the instance dictionary -- WITHOUT evaluating a
    default (a plain dictionary lookup) -- unless it is absent or one of the unobservable values (Undefined, Uninitialized,
    None); then nothing."""
    path = HPATH
    qualname = "iter_objects"
    properties = ("C08", "C10")
    overloads = ("default",)
    assumptions = ("A-PY", "object.__dict__.get(name, default) is the dictionary lookup: the stored value or the default",
                   "UNOBSERVABLE_VALUES is read from the module on this run")

    def configure(self, cx, I, ov):
        import ast as _ast
        from vc.pyvc import source
        src, tree, funcs, classes = source.index_module(HPATH)
        vals = None
        for n in tree.body:
            if isinstance(n, _ast.Assign) and isinstance(n.targets[0], _ast.Name) and n.targets[0].id == "UNOBSERVABLE_VALUES":
                vals = [_ast.unparse(e) for e in n.value.elts]
        self.unobservable = vals or []
        consts = {"Undefined": cx.const("Undefined"), "Uninitialized": cx.const("Uninitialized"), "None": cx.const("None")}
        cx.module_globals["Undefined"] = consts["Undefined"]
        cx.module_globals["Uninitialized"] = consts["Uninitialized"]
        cx.module_globals["UNOBSERVABLE_VALUES"] = VTuple([consts.get(v, VElem(z3.Const("unknown_" + v, Val))) for v in self.unobservable])
        self.stored, self.present = z3.Const("stored_value", Val), z3.Bool("present_in_the_instance_dictionary")
        self.name = z3.String("trait_name")

        def dict_attr(I2, o, st, k):
            def get(I3, a, kw, s, kk):
                n, d = a
                s = s.gset("lookups", tuple(s.ghost.get("lookups", ())) + (n,))
                return I3.cx.branch(s, self.present, lambda s1: kk(VElem(self.stored), s1), lambda s2: kk(d, s2))
            return k(VFunc("objdict-get-holder", name="__dict__", apply=None, get=VFunc("opaque", name="get", apply=get)), st)
        cx.elem_attrs["__dict__"] = dict_attr

        def getattr_hook(I2, obj, name, st, k):
            if isinstance(obj, VFunc) and obj.kind == "objdict-get-holder" and name == "get":
                return k(obj.meta["get"] if hasattr(obj, "meta") else obj.get, st)
            return None
        cx.getattr_hook = getattr_hook

    def setup(self, cx, I, ov):
        obj = z3.Const("object", Val)
        return St(), [VElem(obj), VStr(self.name)], {}, dict(obj=obj, witness={"present": self.present})

    def post(self, cx, I, ov, info, kind, payload, st):
        if kind == "raise":
            return [("exc-free", z3.BoolVal(False), dict(exception="%s %r" % (payload.cname or payload.sym, payload.origin)))]
        y = st.ghost.get("yielded", ())
        lk = st.ghost.get("lookups", ())
        skip = z3.Or(z3.Not(self.present), *[self.stored == cx.const(v).t for v in ("Undefined", "Uninitialized", "None")])
        out = [("lemma:the-unobservable-values-are-Undefined-Uninitialized-None", z3.BoolVal(sorted(self.unobservable) == ["None", "Undefined", "Uninitialized"])),
               ("post:one-plain-dictionary-lookup-of-the-name-(no-default-is-evaluated)", z3.BoolVal(len(lk) == 1 and isinstance(lk[0], VStr)) if len(lk) != 1 else lk[0].t == self.name),
               ("post:yields-nothing-exactly-for-an-absent-or-unobservable-value", z3.BoolVal(len(y) == 0) == skip if len(y) <= 1 else z3.BoolVal(False))]
        if len(y) == 1:
            out.append(("post:yields-the-stored-value-itself", as_val(cx, y[0][1], st) == self.stored if y[0][0] == "item" else z3.BoolVal(False)))
        return out

    def covers(self, cx, ov, info):
        return [("exhausted", lambda k, p, s: k == "return")]
