"""C15: the observe mini-language.  Deductive part: the translator (traits/observation/parsing.py) maps every parse
tree to an expression with the documented meaning, by structural induction -- each handler is proved to yield
den(tree, notify) given that the recursive calls do (the recursive call is used through the contract of _handle_tree).

den(tree, n): the documented meaning, as an element of an abstract path algebra P with
  single(kind, name, notify, optional), compose(p, q) (series), union(p, q) (parallel):
    trait NAME          -> single(trait, NAME, n, False)
    anytrait            -> single(anytrait, '', n, False)
    metadata NAME       -> single(metadata, NAME, n, False)
    items               -> trait 'items' | dict items | list items | set items, all optional, all with notify n
    series(l, c, r)     -> compose(den(l, c is '.'), den(r, n))      notify on an element iff last or followed by '.'
    parallel(l, r)      -> union(den(l, n), den(r, n))
The expression constructors (expression.trait / anytrait / metadata / *_items / then / |) are used through their
contracts paths(trait(name, notify, optional)) = single(...), paths(a.then(b)) = compose(paths a, paths b),
paths(a | b) = union(paths a, paths b) (assumed here; they are the subject of the expression.py contracts).

Bounded stand-in (labelled bounded, never counted as proved): the generated LALR tables of _generated_parser.py are
compared with an independent Earley recogniser built from _dsl_grammar.lark on all token strings up to a length bound."""
import itertools
import json
import os
import subprocess
import sys
import time

import z3

from vc.unit import Contract, register
from vc.pyvc.values import *  # noqa: F401,F403
from vc.pyvc.core import HObj, St, as_val, raise_

PATH = "traits/observation/parsing.py"
P = z3.DeclareSort("PathSet")
KIND = {k: i for i, k in enumerate(["trait", "anytrait", "metadata", "dict_items", "list_items", "set_items"])}
single = z3.Function("single", z3.IntSort(), z3.StringSort(), z3.BoolSort(), z3.BoolSort(), P)
compose = z3.Function("compose", P, P, P)
union = z3.Function("union", P, P, P)
paths = z3.Function("paths", Val, P)
den = z3.Function("den", Val, z3.BoolSort(), P)


def install_expression_algebra(cx):
    """opaque expression objects with their `paths` abstraction, and the expression_module constructors"""
    def mk(kind, name_from_arg):
        def apply(I, args, kwargs, st, k):
            notify = kwargs.get("notify", VBool(True))
            optional = kwargs.get("optional", VBool(False))
            name = args[0].t if name_from_arg and args and isinstance(args[0], VStr) and args[0].t is not None else z3.StringVal("")
            if name_from_arg and not (args and isinstance(args[0], VStr) and args[0].t is not None):
                raise Unsupported("expression constructor with a non-string name")
            e = I.cx.fresh("expr", Val)
            return k(VElem(e), st.assume(paths(e) == single(KIND[kind], name, notify.t, optional.t)))
        return VFunc("opaque", name=kind, apply=apply)
    ctors = {"trait": mk("trait", True), "anytrait": mk("anytrait", False), "metadata": mk("metadata", True),
             "dict_items": mk("dict_items", False), "list_items": mk("list_items", False), "set_items": mk("set_items", False)}

    orig_module_attr = cx_module_attr = None

    def module_attr(mod, name, _orig=[None]):
        if mod.endswith("expression") and name in ctors:
            return ctors[name]
        return _orig[0](mod, name)
    cx.expression_ctors = (ctors, module_attr)

    def then_attr(I, obj, st, k):
        def apply(I2, a, kw, s, kk):
            e = I2.cx.fresh("expr", Val)
            return kk(VElem(e), s.assume(paths(e) == compose(paths(obj.t), paths(as_val(I2.cx, a[0], s)))))
        return k(VFunc("opaque", name="then", apply=apply), st)
    cx.elem_attrs["then"] = then_attr
    orig_binop = None

    def call_hook(I, fv, args, kwargs, st, k):
        return None
    cx.call_hook = call_hook


def bitor_hook(I, op, a, b, st, k):
    import ast
    if isinstance(op, ast.BitOr) and isinstance(a, VElem) and isinstance(b, VElem):
        e = I.cx.fresh("expr", Val)
        return k(VElem(e), st.assume(paths(e) == union(paths(a.t), paths(b.t))))
    return None


class _Handler(Contract):
    path = PATH
    properties = ("C15",)
    assumptions = ("A-PY", "contracts of the expression constructors / then / | (path algebra)", "recursive _handle_tree by contract")
    arity = 0

    def configure(self, cx, I, ov):
        install_expression_algebra(cx)
        ctors, module_attr = cx.expression_ctors
        orig_ma = I.bi.module_attr
        I.bi.module_attr = lambda mod, name: ctors[name] if (mod.endswith("expression") and name in ctors) else orig_ma(mod, name)
        orig = I.bi.binop

        def binop(op, a, b, st, k):
            r = bitor_hook(I, op, a, b, st, k)
            return r if r is not None else orig(op, a, b, st, k)
        I.bi.binop = binop
        # module-level alias `import traits.observation.expression as expression_module`
        cx.module_globals["expression_module"] = VModule("traits.observation.expression")
        cx.elem_attrs["data"] = lambda I2, o, st, k: k(VStr(z3.Function("tree_data", Val, z3.StringSort())(o.t)), st)
        cx.elem_attrs["value"] = lambda I2, o, st, k: k(VStr(z3.Function("token_value", Val, z3.StringSort())(o.t)), st)

        class HandleTree(Contract):
            path = PATH
            qualname = "_handle_tree"

            def summary(self, I2, self_ref, args, kwargs, st, k):
                tree, notify = args[0], (args[1] if len(args) > 1 else kwargs["notify"])
                e = I2.cx.fresh("expr", Val)
                return k(VElem(e), st.assume(paths(e) == den(as_val(I2.cx, tree, st), notify.t)))
        cx.contracts = dict(cx.contracts)
        cx.contracts[(None, "_handle_tree")] = HandleTree()

    def setup(self, cx, I, ov):
        st = St()
        kids = [VElem(z3.Const("child%d" % i, Val)) for i in range(self.arity)]
        trees = VRef(cx.new_oid())
        seq = z3.Concat(*[z3.Unit(c.t) for c in kids]) if len(kids) > 1 else (z3.Unit(kids[0].t) if kids else EMPTY_SEQ)
        st = st.put(trees.oid, HObj("list", seq, None, None, {"pyitems": tuple(kids)}))
        n = z3.Bool("notify")
        return st, [trees, VBool(n)], {}, dict(kids=[c.t for c in kids], n=n, witness=dict(notify=n))

    def meaning(self, info):
        raise NotImplementedError

    def post(self, cx, I, ov, info, kind, payload, st):
        if kind == "raise":
            return [("exc-free", z3.BoolVal(False), dict(exception="%s %r" % (payload.cname or payload.sym, payload.origin)))]
        if not isinstance(payload, VElem):
            return [("post:returns-an-expression", z3.BoolVal(False))]
        return [("post:denotes-the-documented-meaning", paths(payload.t) == self.meaning(info))]

    def covers(self, cx, ov, info):
        return [("translates", lambda k, p, s: k == "return")]


tdata = z3.Function("tree_data", Val, z3.StringSort())
tval = z3.Function("token_value", Val, z3.StringSort())


@register
class HandleSeries(_Handler):
    qualname = "_handle_series"
    arity = 3

    def meaning(self, info):
        l, c, r = info["kids"]
        return compose(den(l, tdata(c) == z3.StringVal("notify")), den(r, info["n"]))


@register
class HandleParallel(_Handler):
    qualname = "_handle_parallel"
    arity = 2

    def meaning(self, info):
        l, r = info["kids"]
        return union(den(l, info["n"]), den(r, info["n"]))


@register
class HandleTrait(_Handler):
    qualname = "_handle_trait"
    arity = 1

    def meaning(self, info):
        return single(KIND["trait"], tval(info["kids"][0]), info["n"], z3.BoolVal(False))


@register
class HandleMetadata(_Handler):
    qualname = "_handle_metadata"
    arity = 1

    def meaning(self, info):
        return single(KIND["metadata"], tval(info["kids"][0]), info["n"], z3.BoolVal(False))


@register
class HandleAnytrait(_Handler):
    qualname = "_handle_anytrait"
    arity = 0

    def meaning(self, info):
        return single(KIND["anytrait"], z3.StringVal(""), info["n"], z3.BoolVal(False))


@register
class HandleItems(_Handler):
    qualname = "_handle_items"
    arity = 0

    def meaning(self, info):
        n, T = info["n"], z3.BoolVal(True)
        e = z3.StringVal("")
        return union(union(union(single(KIND["trait"], z3.StringVal("items"), n, T), single(KIND["dict_items"], e, n, T)),
                           single(KIND["list_items"], e, n, T)), single(KIND["set_items"], e, n, T))

    def bounded_check(self, tier, seed):
        return parser_conformance(tier)


# ---------------------------------------------------------------------------------------------
# bounded stand-in: generated LALR parser vs Earley on the grammar text
# ---------------------------------------------------------------------------------------------

def parser_conformance(tier):
    """All strings over the token alphabet {NAME, items, +, *, ., :, ,, [, ]} (one NAME spelling per position, plus a
    whitespace variant) up to a length bound are fed to the shipped stand-alone LALR parser and to lark's Earley parser
    built from _dsl_grammar.lark at run time; accept/reject and the tree must agree."""
    bound = 4 if tier == "quick" else 6
    t0 = time.time()
    helper = os.path.join(os.path.dirname(os.path.dirname(os.path.dirname(os.path.abspath(__file__)))), "bounded", "dsl_parser.py")
    repo = os.environ.get("VERIF_REPO", "/repo")
    scratch = None
    if repo != "/repo":
        # an overlay tree (seeded changes, mutants) may be partial: the helper needs a complete package
        from vc import replayer
        scratch = repo = replayer.scratch_tree()
    try:
        p = subprocess.run([sys.executable, helper, repo, str(bound)], capture_output=True, text=True)
    finally:
        if scratch:
            import shutil
            shutil.rmtree(scratch, ignore_errors=True)
    try:
        res = json.loads(p.stdout.strip().splitlines()[-1])
    except Exception:
        res = dict(error=(p.stderr or p.stdout)[-1000:], cases=0, violations=[])
    out = dict(what="generated LALR parser and the real parse()/compile_str() pipeline vs an Earley recogniser on _dsl_grammar.lark: accept/reject (ValueError), tree equality, and compiled graphs vs the documented meaning built from the oracle tree",
               label="bounded", bound="all token strings of length <= %d over 9 token kinds, each also with a whitespace variant" % bound,
               cases=res.get("cases", 0), accepted=res.get("accepted"), secs=round(time.time() - t0, 1), violations=[],
               known=res.get("known", []))
    if res.get("error"):
        out["error"] = res["error"]
    if res.get("violations"):
        root = os.path.dirname(os.path.dirname(os.path.dirname(os.path.abspath(__file__))))
        os.makedirs(os.path.join(root, "replays", "C15"), exist_ok=True)
        path = os.path.join(root, "replays", "C15", "parser_conformance.json")
        json.dump(dict(property="C15", obligation="bounded:parser-conformance", replay=dict(reproduced=True, violated=res["violations"][:20])),
                  open(path, "w"), indent=1)
        out["violations"] = [path]
    return out


def grammar_rules():
    """rule names of _dsl_grammar.lark that can label a tree handed to _handle_tree (connectors excluded)"""
    import re
    from vc.pyvc import source
    txt = open(os.path.join(source.REPO if os.path.exists(os.path.join(source.REPO, "traits/observation/_dsl_grammar.lark")) else "/repo",
                            "traits/observation/_dsl_grammar.lark")).read()
    rules = re.findall(r"^\??([a-z_]+)\s*:", txt, flags=re.M)
    return [r for r in rules if r not in ("notify", "quiet", "start", "element")]


EXPECTED_HANDLER = {"series": "_handle_series", "series_terminal": "_handle_series", "parallel": "_handle_parallel",
                    "parallel_terminal": "_handle_parallel", "trait": "_handle_trait", "metadata": "_handle_metadata",
                    "items": "_handle_items", "anytrait": "_handle_anytrait"}


@register
class HandleTreeDispatch(Contract):
    """_handle_tree(tree, notify): every rule name of the grammar is dispatched to the handler of that construct, with the
    tree's children and the notify flag unchanged; an unknown label is an error (KeyError), never a silent default."""
    path = PATH
    qualname = "_handle_tree"
    properties = ("C15",)
    assumptions = ("A-PY", "rule names read from _dsl_grammar.lark at run time")

    def configure(self, cx, I, ov):
        cx.elem_attrs["data"] = lambda I2, o, st, k: k(VStr(tdata(o.t)), st)
        cx.elem_attrs["children"] = lambda I2, o, st, k: k(VElem(z3.Function("tree_children", Val, Val)(o.t)), st)

        def repo_call(I2, fv, args, kwargs, st, k):
            if fv.name.startswith("_handle_"):
                e = I2.cx.fresh("expr", Val)
                return k(VElem(e), st.gset("dispatch", st.ghost.get("dispatch", ()) + ((fv.name, tuple(args), e),)))
            return None
        cx.repo_call_hook = repo_call

    @property
    def overloads(self):
        return tuple(grammar_rules()) + ("unknown-label",)

    def setup(self, cx, I, ov):
        tree = z3.Const("tree", Val)
        n = z3.Bool("notify")
        st = St()
        if ov == "unknown-label":
            st = st.assume(*[tdata(tree) != z3.StringVal(r) for r in EXPECTED_HANDLER])
        else:
            st = st.assume(tdata(tree) == z3.StringVal(ov))
        return st, [VElem(tree), VBool(n)], {}, dict(tree=tree, n=n, witness={})

    def post(self, cx, I, ov, info, kind, payload, st):
        d = st.ghost.get("dispatch", ())
        if ov == "unknown-label":
            return [("raise:unknown-label-is-an-error", z3.BoolVal(kind == "raise" and not d))]
        if kind == "raise":
            return [("exc-free", z3.BoolVal(False), dict(exception="%s %r" % (payload.cname or payload.sym, payload.origin)))]
        ok = len(d) == 1 and d[0][0] == EXPECTED_HANDLER.get(ov)
        out = [("post:dispatched-to-the-handler-of-the-construct", z3.BoolVal(ok), dict(dispatched=str([x[0] for x in d])))]
        if ok:
            name, args, e = d[0]
            children = z3.Function("tree_children", Val, Val)(info["tree"])
            out.append(("post:children-and-notify-passed-unchanged", z3.And(
                as_val(cx, args[0], st) == children, args[1].t == info["n"] if isinstance(args[1], VBool) else z3.BoolVal(False))))
            out.append(("post:returns-the-handler-result", as_val(cx, payload, st) == e if isinstance(payload, VElem) else z3.BoolVal(False)))
        return out


@register
class Parse(Contract):
    """parse(text): the text is handed to the grammar's parser exactly as given (so the language accepted is the
    grammar's, whitespace rules included); a parser error becomes ValueError and nothing else does; the tree is
    translated with notify=True (the last element notifies)."""
    path = PATH
    qualname = "parse"
    properties = ("C15",)
    assumptions = ("A-PY", "_LARK_PARSER.parse(text) returns the parse tree of text or raises a LarkError (generated parser: bounded stand-in)",
                   "@lru_cache is transparent for a function of the text only")

    def configure(self, cx, I, ov):
        text = z3.String("text")
        self.text = text
        tree = z3.Const("tree", Val)

        def parser_parse(I2, args, kwargs, st, k):
            st2 = st.gset("parsed", st.ghost.get("parsed", ()) + (tuple(args),))
            return k(VElem(tree), st2) + [("raise", VExc(cname="LarkError", origin=("parser",)), st2)]
        parser = HObj("obj", None, "opaque_parser", {"parse": VFunc("opaque", name="parse", apply=parser_parse)})
        pref = VRef(cx.new_oid())
        self._parser = (pref, parser)
        cx.module_globals["_LARK_PARSER"] = pref
        EXC_PARENT.setdefault("LarkError", "Exception")

        def getattr_hook(I2, obj, name, st, k):
            if isinstance(obj, VModule) and obj.name.endswith("_generated_parser") and name == "LarkError":
                return k(VExcClass("LarkError"), st)
            return None
        cx.getattr_hook = getattr_hook
        orig_ma = I.bi.module_attr
        I.bi.module_attr = lambda mod, name: VExcClass("LarkError") if name == "LarkError" else orig_ma(mod, name)
        cx.module_globals["_generated_parser"] = VModule("traits.observation._generated_parser")

        class HandleTree(Contract):
            path = PATH
            qualname = "_handle_tree"

            def summary(self, I2, self_ref, args, kwargs, st, k):
                e = I2.cx.fresh("expr", Val)
                notify = args[1] if len(args) > 1 else kwargs.get("notify")
                return k(VElem(e), st.gset("translated", st.ghost.get("translated", ()) + ((args[0], notify, e),)))
        cx.contracts = dict(cx.contracts)
        cx.contracts[(None, "_handle_tree")] = HandleTree()

    def setup(self, cx, I, ov):
        pref, parser = self._parser
        st = St().put(pref.oid, parser)
        return st, [VStr(self.text)], {}, dict(witness=dict(text=self.text))

    def post(self, cx, I, ov, info, kind, payload, st):
        parsed = st.ghost.get("parsed", ())
        out = [("post:parser-called-once-with-the-text-as-given", z3.BoolVal(len(parsed) == 1 and len(parsed[0]) == 1 and isinstance(parsed[0][0], VStr)
                                                                          and parsed[0][0].t is not None) if True else None)]
        if len(parsed) == 1 and len(parsed[0]) == 1 and isinstance(parsed[0][0], VStr) and parsed[0][0].t is not None:
            out.append(("post:text-reaches-the-parser-unchanged", parsed[0][0].t == self.text))
        tr = st.ghost.get("translated", ())
        if kind == "raise":
            out.append(("raise:ValueError-exactly-for-a-parser-error", z3.BoolVal(payload.cname == "ValueError" and not tr)))
        else:
            ok = len(tr) == 1 and isinstance(tr[0][1], VBool)
            out.append(("post:tree-translated-once-with-notify-true", z3.And(z3.BoolVal(ok), tr[0][1].t if ok else z3.BoolVal(False))))
            if ok:
                out.append(("post:returns-the-translation-of-the-parse-tree", z3.And(
                    as_val(cx, tr[0][0], st) == z3.Const("tree", Val), as_val(cx, payload, st) == tr[0][2])))
        return out

    def covers(self, cx, ov, info):
        return [("parses", lambda k, p, s: k == "return"), ("rejects", lambda k, p, s: k == "raise")]


@register
class CompileStr(Contract):
    """compile_str(text): 'Every string generated by the documented grammar ... denotes exactly the observation pattern given by
    the documented semantics ... equivalent spellings (extra brackets, whitespace) yield equal patterns': the graphs of a text are
    ALWAYS compile_expr(parse(text)) -- the text goes through the parser (whose contract handles whitespace and rejects every
    other string with ValueError); there is no second route from text to graphs."""
    path = PATH
    qualname = "compile_str"
    properties = ("C15",)
    assumptions = ("A-PY", "parse / compile_expr through their contracts (here: uninterpreted functions that may raise)")

    def configure(self, cx, I, ov):
        lg = lambda st, rec: st.gset("log", st.ghost.get("log", ()) + (rec,))
        self.parsed = z3.Function("parse", Val, Val)
        self.compiled = z3.Function("compile_expr", Val, Val)

        def mk(name, fn):
            def apply(I2, a, kw, st, k):
                x = as_val(I2.cx, a[0], st)
                st2 = lg(st, (name, x))
                e = I2.cx.fresh("exc", Exc)
                fails = I2.cx.fresh(name + "_raises", z3.BoolSort())
                return I2.cx.branch(st2, fails, lambda s: [("raise", VExc(sym=e, origin=(name,)), s.assume(*I2.cx.exc_axioms(e)))], lambda s: k(VElem(fn(x)), s))
            return VFunc("opaque", name=name, apply=apply)
        cx.module_globals["parse"] = mk("parse", self.parsed)
        cx.module_globals["compile_expr"] = mk("compile_expr", self.compiled)
        compile_fn = cx.module_globals["compile_expr"]
        cx.module_globals["expression_module"] = VFunc("opaque-module", name="expression_module")

        def getattr_hook(I2, obj, name, st, k):
            if isinstance(obj, VFunc) and obj.kind == "opaque-module" and name == "compile_expr":
                return k(compile_fn, st)
            return None
        cx.getattr_hook = getattr_hook

    def setup(self, cx, I, ov):
        self.text = z3.String("text")
        return St(), [VStr(self.text)], {}, dict(witness={"text": self.text})

    def post(self, cx, I, ov, info, kind, payload, st):
        log = st.ghost.get("log", ())
        t = cx.box_str(self.text)
        parses = [r for r in log if r[0] == "parse"]
        out = [("post:the-text-always-goes-through-the-parser-once" if kind == "return" else "raise:the-text-always-goes-through-the-parser-once",
                z3.And(z3.BoolVal(len(parses) == 1), parses[0][1] == t if parses else z3.BoolVal(False)))]
        if kind == "raise":
            out.append(("raise:only-the-parser-or-the-compiler-raises", z3.BoolVal(bool(payload.origin) and payload.origin[0] in ("parse", "compile_expr"))))
            return out
        out.append(("post:the-graphs-are-compile_expr(parse(text))", as_val(cx, payload, st) == self.compiled(self.parsed(t))))
        return out

    def covers(self, cx, ov, info):
        return [("compiles", lambda k, p, s: k == "return"), ("rejects", lambda k, p, s: k == "raise")]
