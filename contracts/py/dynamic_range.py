"""C01: BaseRange._validate -- the validator of a *dynamic* range (bounds named by other traits, evaluated per assignment).

'assigning the value either raises TraitError ... or stores the documented conversion of the value, which satisfies the
trait's declared criteria (type, range and bound exclusivity ...)': the value returned (and therefore stored by
setattr_validate_property / _set) is the conversion of the argument to the range's type, and it is *that converted value*
which lies inside the bounds with the declared exclusivity; every other outcome is the TraitError of self.error(object,
name, value).  Numbers are opaque objects: the orderings are uninterpreted relations lt/le/gt/ge over (bound, value) and
the conversion an uninterpreted function conv(type, value), each of which may also raise -- so the proof holds for every
numeric type, and nothing links 'raw value in range' to 'converted value in range'."""
import ast

import z3

from vc.unit import Contract, register
from vc.pyvc.values import *  # noqa: F401,F403
from vc.pyvc.core import HObj, St, as_val, raise_

PATH = "traits/trait_types.py"
REL = {ast.Lt: z3.Function("num_lt", Val, Val, z3.BoolSort()), ast.LtE: z3.Function("num_le", Val, Val, z3.BoolSort()),
       ast.Gt: z3.Function("num_gt", Val, Val, z3.BoolSort()), ast.GtE: z3.Function("num_ge", Val, Val, z3.BoolSort())}
conv = z3.Function("convert", Val, Val, Val)          # vtype(value)
type_of = z3.Function("type_of", Val, Val)
is_range_type = z3.Function("isinstance_RangeTypes", Val, z3.BoolSort())


class ErrorSummary(Contract):
    """BaseTraitHandler.error(object, name, value): always raises TraitError describing (object, name, value)."""
    path = "traits/base_trait_handler.py"
    qualname = "BaseTraitHandler.error"

    def summary(self, I, self_ref, args, kwargs, st, k):
        return raise_(st, "TraitError", origin=("self.error",) + tuple(args))


@register
class DynamicRangeValidate(Contract):
    path = PATH
    qualname = "BaseRange._validate"
    properties = ("C01",)
    class_paths = (PATH, "traits/trait_type.py", "traits/base_trait_handler.py")
    inline = (("BaseRange", "_typed_value"),)
    assumptions = ("A-PY", "eval(self._low) / eval(self._high) are opaque: each returns an object (possibly None) or raises",
                   "ordering and conversion of numbers are uninterpreted (any numeric type; each may raise)",
                   "BaseTraitHandler.error always raises TraitError (summary)")

    def configure(self, cx, I, ov):
        NONE_T = cx.const("None").t
        self.low, self.high = z3.Const("low_now", Val), z3.Const("high_now", Val)
        self.vtype = z3.Const("static_vtype", Val)
        self.exl, self.exh = z3.Bool("exclude_low"), z3.Bool("exclude_high")
        self.value = z3.Const("value", Val)

        def may_raise(I2, st, what, k_ok):
            e = I2.cx.fresh("exc", Exc)
            b = I2.cx.fresh("raises_" + what, z3.BoolSort())
            return I2.cx.branch(st, b, lambda s: [("raise", VExc(sym=e, origin=(what,)), s.assume(*I2.cx.exc_axioms(e)))], k_ok)

        def eval_apply(I2, a, kw, st, k):
            (code,) = a
            if not isinstance(code, VConst) or code.name not in ("code:low", "code:high"):
                raise Unsupported("eval of %r" % (code,))
            t = self.low if code.name == "code:low" else self.high
            return may_raise(I2, st, "eval-bound", lambda s: k(VElem(t), s))
        cx.module_globals["eval"] = VFunc("opaque", name="eval", apply=eval_apply)
        cx.module_globals["type"] = VFunc("opaque", name="type", apply=lambda I2, a, kw, st, k: k(VElem(type_of(as_val(I2.cx, a[0], st))), st))
        cx.module_globals["RangeTypes"] = VFunc("class", name="RangeTypes")

        def compare_hook(I2, op, a, b, st, k):
            if type(op) in REL and isinstance(a, (VElem, VConst)) and isinstance(b, (VElem, VConst)):
                return may_raise(I2, st, "compare", lambda s: k(VBool(REL[type(op)](a.t, b.t)), s))
            return None
        cx.compare_hook = compare_hook

        def call_hook(I2, fv, args, kwargs, st, k):
            if isinstance(fv, (VElem, VConst)) and len(args) == 1 and not kwargs:
                r = conv(fv.t, as_val(I2.cx, args[0], st))
                return may_raise(I2, st, "convert", lambda s: k(VElem(r), s))
            return None
        cx.call_hook = call_hook
        cx.contracts = dict(cx.contracts)
        cx.contracts[("BaseTraitHandler", "error")] = ErrorSummary()

    def setup(self, cx, I, ov):
        st = St()
        self_ref = VRef(cx.new_oid())
        obj = z3.Const("object", Val)
        name = z3.String("name")
        st = st.put(self_ref.oid, HObj("obj", None, "BaseRange", {
            "_low": cx.const("code:low"), "_high": cx.const("code:high"), "_vtype": VElem(self.vtype),
            "_exclude_low": VBool(self.exl), "_exclude_high": VBool(self.exh)}))
        return st, [self_ref, VElem(obj), VStr(name), VElem(self.value)], {}, dict(
            self_ref=self_ref, obj=obj, name=name,
            witness=dict(exclude_low=self.exl, exclude_high=self.exh, name=name),
            concretise=lambda m: dict(harness="cvalidators", family="dynamic_range",
                                      exclude_low=z3.is_true(m.eval(self.exl, model_completion=True)),
                                      exclude_high=z3.is_true(m.eval(self.exh, model_completion=True))))

    def post(self, cx, I, ov, info, kind, payload, st):
        NONE_T = cx.const("None").t
        lo, hi, v = self.low, self.high, self.value
        if kind == "raise":
            ok = payload.cname == "TraitError" and payload.origin and payload.origin[0] == "self.error"
            out = [("post:rejection-is-the-TraitError-of-self.error", z3.BoolVal(bool(ok)), dict(exception="%s %r" % (payload.cname or payload.sym, payload.origin)))]
            if ok:
                _tag, o, n, val = payload.origin
                out.append(("post:error-names-the-attribute-and-the-offending-value", z3.And(
                    as_val(cx, o, st) == info["obj"], n.t == info["name"], as_val(cx, val, st) == v)))
            return out
        r = as_val(cx, payload, st)
        vt = z3.If(self.vtype != NONE_T, self.vtype, z3.If(lo != NONE_T, type_of(lo), type_of(hi)))
        unbounded = z3.And(lo == NONE_T, hi == NONE_T)
        in_low = z3.Or(lo == NONE_T, z3.If(self.exl, REL[ast.Lt](lo, r), REL[ast.LtE](lo, r)))
        in_high = z3.Or(hi == NONE_T, z3.If(self.exh, REL[ast.Gt](hi, r), REL[ast.GtE](hi, r)))
        return [
            ("post:strings-are-never-accepted", z3.Not(z3.Function("isinstance_str", Val, z3.BoolSort())(v))),
            ("post:unbounded-range-returns-a-number-unchanged", z3.Implies(unbounded, z3.And(r == v, is_range_type(v)))),
            ("post:result-is-the-conversion-to-the-range-type", z3.Implies(z3.Not(unbounded), r == conv(vt, v))),
            ("post:converted-result-respects-the-low-bound-and-its-exclusivity", z3.Implies(z3.Not(unbounded), in_low)),
            ("post:converted-result-respects-the-high-bound-and-its-exclusivity", z3.Implies(z3.Not(unbounded), in_high)),
        ]

    def covers(self, cx, ov, info):
        return [("accepts", lambda k, p, s: k == "return"), ("rejects", lambda k, p, s: k == "raise")]
