"""Contracts for traits/trait_dict_object.py (C06, C04, C19).

Reference ("TraitDict refines dict"): validate keys and values (a rejected key or value propagates its
exception and nothing changes), then the builtin dict operation of the A-BUILTIN model on the validated
keys/values; `setdefault` tests containment of the *raw* key first (pinned by the suite, DESIGN 6 C06).
Event laws: the statement's reconstruction clauses, pointwise over all keys.
"""
import z3

from vc.unit import Contract, register
from vc.pyvc.values import *  # noqa: F401,F403
from vc.pyvc.core import HObj, St, as_val, raise_
from vc.pyvc.builtins_model import ite
from vc.pyvc import loops
from spec.containers import Validator, exc_same
from contracts.py.trait_list import validated_seq, first_failing, foreach_call_loop

PATH = "traits/trait_dict_object.py"


class DEv:
    def __init__(self, removed, added, changed, at):
        self.removed, self.added, self.changed, self.at = removed, added, changed, at


def dict_event_laws(before, ev):
    """C06: 'added keys were absent before and now hold the given values, changed keys were present and held
    the given old values, removed keys held the given values and are gone' + exact reconstruction of the
    previous contents + 'no event with all three parts empty'."""
    k = z3.Const("k!law", Val)
    R, A, C, after = ev.removed, ev.added, ev.changed, ev.at
    none = Opt.none
    return [
        ("post:added-were-absent-and-now-hold", z3.ForAll([k], z3.Implies(A[k] != none, z3.And(before[k] == none, after[k] == A[k])))),
        ("post:changed-were-present-with-old-value", z3.ForAll([k], z3.Implies(C[k] != none, z3.And(before[k] == C[k], after[k] != none)))),
        ("post:removed-held-and-are-gone", z3.ForAll([k], z3.Implies(R[k] != none, z3.And(before[k] == R[k], after[k] == none)))),
        ("post:previous-contents-reconstructible", z3.ForAll([k], before[k] == ite(
            R[k] != none, R[k], ite(C[k] != none, C[k], ite(A[k] != none, none, after[k]))))),
        ("post:event-not-empty", z3.Not(z3.And(R == EMPTY_MAP, A == EMPTY_MAP, C == EMPTY_MAP))),
    ]


def mapeq(a, b):
    k = z3.Const("k!eq", Val)
    return z3.ForAll([k], a[k] == b[k])


def make_dict_self(cx, cls="TraitDict"):
    M = z3.Const("contents", MapV)
    KV, VV = Validator(cx, "key"), Validator(cx, "value")
    st = St()
    nref = VRef(cx.new_oid())
    st = st.put(nref.oid, HObj("list", z3.Const("notifiers", SeqV)))
    self_ref = VRef(cx.new_oid())
    st = st.put(self_ref.oid, HObj("dict", M, cls, {"key_validator": KV.as_value(), "value_validator": VV.as_value(),
                                                    "notifiers": nref}))
    return st.gset("events", ()), self_ref, M, KV, VV


@register
class TDNotify(Contract):
    path = PATH
    qualname = "TraitDict.notify"
    properties = ("C06", "C02")
    assumptions = ("A-CB:notifier",)

    def configure(self, cx, I, ov):
        cx.on_loop = foreach_call_loop

    def setup(self, cx, I, ov):
        st, self_ref, M, KV, VV = make_dict_self(cx)
        refs = []
        for nm in ("removed", "added", "changed"):
            r = VRef(cx.new_oid())
            st = st.put(r.oid, HObj("dict", z3.Const(nm, MapV)))
            refs.append(r)
        st = st.gset("calls", ())
        return st, [self_ref] + refs, {}, dict(self_ref=self_ref, refs=refs, notifiers=z3.Const("notifiers", SeqV))

    def post(self, cx, I, ov, info, kind, payload, st):
        calls = st.ghost["calls"]
        if not (len(calls) == 1 and calls[0][0] == "foreach"):
            return [("post:each-notifier-once-in-order", z3.BoolVal(False))]
        _, seq, args, kwargs, upto = calls[0]
        good = (len(args) == 4 and not kwargs and isinstance(args[0], VRef) and args[0].oid == info["self_ref"].oid
                and all(isinstance(a, VRef) and a.oid == r.oid for a, r in zip(args[1:], info["refs"])))
        out = [("post:each-notifier-once-in-order", z3.And(seq == info["notifiers"], z3.BoolVal(good)))]
        if kind == "return":
            out.append(("post:all-notifiers-called", upto == z3.Length(seq)))
        else:
            out.append(("raise:only-from-a-notifier", z3.BoolVal(isinstance(payload.origin, tuple) and payload.origin[0] == "notifier")))
        return out

    def summary(self, I, self_ref, args, kwargs, st, k):
        cx = I.cx
        names = ["removed", "added", "changed"]
        vals = dict(zip(names, args))
        vals.update(kwargs)
        if set(vals) != set(names):
            return raise_(st, "TypeError")
        pl = []
        for nm in names:
            v = vals[nm]
            if not (isinstance(v, VRef) and st.heap[v.oid].kind == "dict"):
                raise Unsupported("notify with a non-dict %s" % nm)
            pl.append(st.heap[v.oid].payload)
        ev = DEv(pl[0], pl[1], pl[2], st.heap[self_ref.oid].payload)
        st2 = st.gset("events", st.ghost.get("events", ()) + (ev,))
        out = k(NONE, st2)
        nseq = st.heap[st.heap[self_ref.oid].fields["notifiers"].oid].payload
        e = cx.fresh("notifier_exc", Exc)
        out.append(("raise", VExc(sym=e, origin=("notifier",)), st2.assume(z3.Length(nseq) > 0, *cx.exc_axioms(e))))
        return out


class DictMutator(Contract):
    # the concrete oracle asked when the function leaves the verifier's subset (rewritten loop, new construct): random
    # operations against the builtin model on validated items, every clause of the statement evaluated on the real code
    undecided_probe = dict(harness="containers", family="dict_probe", trials=4000)
    path = PATH
    properties = ("C06", "C04", "C19")
    cls = "TraitDict"
    assumptions = ("A-PY", "A-BUILTIN:dict", "A-EQ", "A-CB:validator", "A-CB:notifier-does-not-mutate")

    def args(self, cx, ov, st):
        raise NotImplementedError

    def setup(self, cx, I, ov):
        st, self_ref, M, KV, VV = make_dict_self(cx, self.cls)
        st, args, kwargs, info = self.args(cx, ov, st, I)
        info.update(M=M, KV=KV, VV=VV, self_ref=self_ref)
        info.setdefault("witness", {})["contents"] = M
        info["concretise"] = lambda m: self.concretise(m, ov, info)
        return st, [self_ref] + args, kwargs, info

    def concrete_args(self, U, ov, info):
        out = {}
        if "k" in info:
            out["key"] = U.val(info["k"])
        if "v" in info and ov != "novalue":
            out["value"] = U.val(info["v"])
        if info.get("d") is not None:
            out["default"] = U.val(info["d"])
        if "ks" in info:
            ks, vs = U.seq(info["ks"]), U.seq(info["vs"])
            out["pairs"] = list(zip(ks, vs))
            out["mapping"] = ov == "mapping"
        return out

    def concretise(self, m, ov, info):
        from vc.concretise import Universe
        U = Universe(m)
        args = self.concrete_args(U, ov, info)
        # the model of `contents` may be an infinite map: restrict it to the elements the case mentions
        M = info["M"]
        for _ in range(3):
            for (i, v) in list(U.ids.values()):
                e = U.ev(M[v])
                if str(e) != "none":
                    U.val(Opt.get(M[v]))
                if U.bool(info["KV"].ok(v)):
                    U.val(info["KV"].val(v))
                if U.bool(info["VV"].ok(v)):
                    U.val(info["VV"].val(v))
        contents = {}
        for (i, v) in list(U.ids.values()):
            e = U.ev(M[v])
            if str(e) != "none":
                contents[i] = U.val(Opt.get(M[v]))
        return dict(harness="containers", family="dict", cls=self.cls, op=self.fname, ov=ov,
                    contents=sorted(contents.items()), args=args,
                    key_validator=U.validator_table(info["KV"]), value_validator=U.validator_table(info["VV"]))

    def reference(self, cx, I, ov, info):
        """-> (validator failures [(cond, exc)], builtin outcomes [(kind, payload, guard, map_after, st)])"""
        raise NotImplementedError

    def run_builtin(self, I, info, name, args, kwargs=None, base=None):
        B = I.bi
        st = St(heap={1: HObj("dict", info["M"] if base is None else base)})
        res = []
        for (kind, payload, st2) in B.call_method("dict", name, VRef(1), args, kwargs or {}, st, lambda v, s2: [("return", v, s2)]):
            g = z3.And(*st2.pc) if st2.pc else z3.BoolVal(True)
            res.append((kind, payload, g, st2.heap[1].payload, st2))
        return res

    def post(self, cx, I, ov, info, kind, payload, st):
        return self.tag(self._post(cx, I, ov, info, kind, payload, st))

    def _post(self, cx, I, ov, info, kind, payload, st):
        M0 = info["M"]
        M1 = st.heap[info["self_ref"].oid].payload
        evs = st.ghost["events"]
        vfails, ref = self.reference(cx, I, ov, info)
        out = []
        notifier_exc = kind == "raise" and isinstance(payload.origin, tuple) and payload.origin[0] == "notifier"
        if kind == "return" or notifier_exc:
            for (cond, _e) in vfails:
                out.append(("post:every-key-and-value-validated", z3.Not(cond)))
            for (rk, rp, g, m_after, rst) in ref:
                if rk == "raise":
                    out.append(("post:dict-raises-here", z3.Not(g)))
                else:
                    out.append(("post:contents-as-dict", z3.Implies(g, mapeq(M1, m_after))))
                    if kind == "return":
                        out.append(("post:result-as-dict", z3.Implies(g, self.same_result(cx, info, payload, st, rp, rst))))
            if len(evs) > 1:
                out.append(("post:at-most-one-event", z3.BoolVal(False)))
            elif len(evs) == 0:
                out.append(("post:event-when-contents-change", mapeq(M1, M0)))
            else:
                out.append(("post:event-after-mutation", mapeq(evs[0].at, M1)))
                out += dict_event_laws(M0, evs[0])
        else:
            alts = []
            for (cond, e) in vfails:
                alts.append(z3.And(cond, payload.sym == e) if payload.sym is not None else z3.BoolVal(False))
            for (rk, rp, g, m_after, rst) in ref:
                if rk == "raise":
                    alts.append(z3.And(g, exc_same(payload, rp)))
            out.append(("raise:same-exception-as-dict-or-validator", z3.Or(*alts) if alts else z3.BoolVal(False)))
            out.append(("raise:contents-unchanged", mapeq(M1, M0)))
            out.append(("raise:no-event", z3.BoolVal(len(evs) == 0)))
        return out

    def tag(self, clauses):
        """C05-C07 own every clause; C04 the 'only validated items enter' clauses; C19 (and C04) the failure-atomicity ones"""
        out = []
        own = tuple(p for p in self.properties if p in ("C05", "C06", "C07"))
        for cl in clauses:
            name = cl[0]
            if name.startswith("raise:"):
                props = own + ("C04", "C19")
            elif "validated" in name:
                props = own + ("C04",)
            else:
                props = own
            out.append((cl[0], cl[1], cl[2] if len(cl) > 2 else {}, props))
        return out

    def same_result(self, cx, info, payload, st, rp, rst):
        if isinstance(payload, VNone) and isinstance(rp, VNone):
            return z3.BoolVal(True)
        if isinstance(payload, VRef) and isinstance(rp, VRef):
            return z3.BoolVal(payload.oid == info["self_ref"].oid and rp.oid == 1)
        if isinstance(payload, VTuple) and isinstance(rp, VTuple) and len(payload.items) == len(rp.items):
            return z3.And(*[as_val(cx, a, st) == as_val(cx, b, rst) for a, b in zip(payload.items, rp.items)])
        try:
            return as_val(cx, payload, st) == as_val(cx, rp, rst)
        except Unsupported:
            return z3.BoolVal(False)

    def covers(self, cx, ov, info):
        return [("returns-normally", lambda k, p, s: k == "return")]


def _vf(V, x):
    return [(z3.Not(V.ok(x)), V.exc(x))]


@register
class TDSetItem(DictMutator):
    """d[k] = v stores the validated value ITSELF: `==` between stored values is, for this unit, an arbitrary equivalence
    relation (two distinct objects may compare equal), so 'an equal value is already there' is no licence to skip the store --
    the dict on validated items would hold the new object, and the two differ as soon as either object is mutated."""
    qualname = "TraitDict.__setitem__"

    def configure(self, cx, I, ov):
        DictMutator.configure(self, cx, I, ov)
        eqv = z3.Function("values_compare_equal", Val, Val, z3.BoolSort())
        x, y, z = z3.Consts("x!ve y!ve z!ve", Val)
        cx.axioms += [z3.ForAll([x], eqv(x, x)), z3.ForAll([x, y], eqv(x, y) == eqv(y, x)),
                      z3.ForAll([x, y, z], z3.Implies(z3.And(eqv(x, y), eqv(y, z)), eqv(x, z)))]
        cx.val_eq = lambda a, b: eqv(a, b)

    undecided_probe = dict(harness="containers", family="dict_probe", trials=4000)

    def args(self, cx, ov, st, I):
        k, v = z3.Const("key", Val), z3.Const("value", Val)
        return st, [VElem(k), VElem(v)], {}, dict(k=k, v=v, witness=dict(key=k, value=v))

    def reference(self, cx, I, ov, info):
        KV, VV = info["KV"], info["VV"]
        return _vf(KV, info["k"]) + _vf(VV, info["v"]), self.run_builtin(
            I, info, "__setitem__", [VElem(KV.val(info["k"])), VElem(VV.val(info["v"]))])


@register
class TDDelItem(DictMutator):
    qualname = "TraitDict.__delitem__"

    def args(self, cx, ov, st, I):
        k = z3.Const("key", Val)
        return st, [VElem(k)], {}, dict(k=k, witness=dict(key=k))

    def reference(self, cx, I, ov, info):
        return [], self.run_builtin(I, info, "__delitem__", [VElem(info["k"])])


@register
class TDClear(DictMutator):
    qualname = "TraitDict.clear"

    def args(self, cx, ov, st, I):
        return st, [], {}, {}

    def reference(self, cx, I, ov, info):
        return [], self.run_builtin(I, info, "clear", [])


@register
class TDPop(DictMutator):
    qualname = "TraitDict.pop"
    overloads = ("nodefault", "default")

    def configure(self, cx, I, ov):
        cx.const("Undefined")

    def args(self, cx, ov, st, I):
        k = z3.Const("key", Val)
        if ov == "nodefault":
            return st, [VElem(k)], {}, dict(k=k, d=None, witness=dict(key=k))
        d = z3.Const("default", Val)
        # a caller-supplied default is any object other than the Undefined sentinel
        st = st.assume(d != cx.const("Undefined").t)
        return st, [VElem(k), VElem(d)], {}, dict(k=k, d=d, witness=dict(key=k, default=d))

    def reference(self, cx, I, ov, info):
        args = [VElem(info["k"])] + ([VElem(info["d"])] if info["d"] is not None else [])
        return [], self.run_builtin(I, info, "pop", args)


@register
class TDPopItem(DictMutator):
    qualname = "TraitDict.popitem"

    def args(self, cx, ov, st, I):
        return st, [], {}, {}

    def reference(self, cx, I, ov, info):
        return [], self.run_builtin(I, info, "popitem", [])


@register
class TDSetDefault(DictMutator):
    qualname = "TraitDict.setdefault"
    overloads = ("value", "novalue")

    def args(self, cx, ov, st, I):
        k = z3.Const("key", Val)
        if ov == "novalue":
            return st, [VElem(k)], {}, dict(k=k, v=cx.const("None").t, witness=dict(key=k))
        v = z3.Const("value", Val)
        return st, [VElem(k), VElem(v)], {}, dict(k=k, v=v, witness=dict(key=k, value=v))

    def reference(self, cx, I, ov, info):
        """documented reading: `key in d` on the raw key; if absent, d[validated key] = validated value."""
        KV, VV, M, k, v = info["KV"], info["VV"], info["M"], info["k"], info["v"]
        present = M[k] != Opt.none
        vf = [(z3.And(z3.Not(present), c), e) for (c, e) in _vf(KV, k) + _vf(VV, v)]
        T = z3.BoolVal(True)
        st = St()
        ref = [("return", VElem(Opt.get(M[k])), present, M, st),
               ("return", VElem(VV.val(v)), z3.Not(present), z3.Store(M, KV.val(k), Opt.some(VV.val(v))), st)]
        return vf, ref


class _Update(DictMutator):
    overloads = ("mapping", "pairs")
    refop = "update"

    def configure(self, cx, I, ov):
        def inv(i, view, st):
            info = self._info
            M, F = info["M"], I.bi.dict_fold(EMPTY_MAP, info["vks"], info["vvs"], i)
            y = z3.Const("y!inv", Val)
            j = z3.Int("j!inv")
            KV, VV = info["KV"], info["VV"]
            return [
                ("validated-prefix", view["validated_dict"] == F),
                ("added-are-new-keys", view["added"] == mk_lambda(y, ite(M[y] == Opt.none, F[y], Opt.none))),
                ("changed-are-old-values", view["changed"] == mk_lambda(y, ite(z3.And(M[y] != Opt.none, F[y] != Opt.none), M[y], Opt.none))),
                ("prefix-accepted", z3.ForAll([j], z3.Implies(z3.And(0 <= j, j < i), z3.And(
                    KV.ok(info["ks"][j]), VV.ok(info["vs"][j]))))),
            ]
        cx.on_loop = loops.make_hook({0: loops.LoopSpec("for (key, value) in items",
                                                       ["validated_dict", "added", "changed"], inv)})

    def args(self, cx, ov, st, I):
        B = I.bi
        if ov == "mapping":
            O = z3.Const("other", MapV)
            r = VRef(cx.new_oid())
            st = st.put(r.oid, HObj("dict", O))
            ks, vs = B.dict_order(O)
            arg = r
            w = dict(other=O)
        else:
            ks, vs = z3.Const("other_keys", SeqV), z3.Const("other_values", SeqV)
            st = st.assume(z3.Length(ks) == z3.Length(vs))
            arg = VFunc("pairs", ks=ks, vs=vs, is_mapping=False)
            w = dict(other_keys=ks, other_values=vs)
        info = dict(ks=ks, vs=vs, witness=w)
        self._info = info
        return st, [arg], {}, info

    def setup(self, cx, I, ov):
        r = super().setup(cx, I, ov)
        info = r[3]
        info["vks"] = validated_seq(cx, info["KV"], info["ks"])
        info["vvs"] = validated_seq(cx, info["VV"], info["vs"])
        return r

    def reference(self, cx, I, ov, info):
        B = I.bi
        KV, VV, ks, vs, M = info["KV"], info["VV"], info["ks"], info["vs"], info["M"]
        n = z3.Length(ks)
        j = z3.Int("j!ref")
        allok = z3.ForAll([j], z3.Implies(z3.And(0 <= j, j < n), z3.And(KV.ok(ks[j]), VV.ok(vs[j]))))
        # some pair is rejected: the exception is the one of the first rejected key or value in iteration order
        kf = cx.fresh_int("kfirst")
        cx.axioms.append(z3.Or(
            z3.And(kf == -1, allok),
            z3.And(0 <= kf, kf < n, z3.Not(z3.And(KV.ok(ks[kf]), VV.ok(vs[kf]))),
                   z3.ForAll([j], z3.Implies(z3.And(0 <= j, j < kf), z3.And(KV.ok(ks[j]), VV.ok(vs[j])))))))
        kk = ite(kf >= 0, kf, z3.IntVal(0))
        vf = [(z3.And(kf >= 0, z3.Not(KV.ok(ks[kk]))), KV.exc(ks[kk])),
              (z3.And(kf >= 0, KV.ok(ks[kk]), z3.Not(VV.ok(vs[kk]))), VV.exc(vs[kk]))]
        after = B.dict_fold(M, info["vks"], info["vvs"], n)
        # lemma dict-fold-overlay (proved by induction in lemmas/dict_fold.py), instantiated at i = n
        cx.axioms.append(after == B.overlay(M, B.dict_fold(EMPTY_MAP, info["vks"], info["vvs"], n)))
        cx.hints.append("lemma dict-fold-overlay instantiated at the sequence length (proved in lemmas.dict_fold)")
        st = St()
        res = VRef(1) if self.refop == "__ior__" else NONE
        return vf, [("return", res, z3.BoolVal(True), after, st)]


@register
class TDUpdate(_Update):
    qualname = "TraitDict.update"


@register
class TDIOr(_Update):
    qualname = "TraitDict.__ior__"
    refop = "__ior__"
