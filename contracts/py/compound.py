"""C03(e): TraitCompound.set_validate builds the compiled compound descriptor in declaration order.

'A compound trait ... yields the result of the first accepting alternative': the compiled validator tries the entries
of fast_validate[1] in order and the Python validate() tries self.validates in order, so both must list the fast
alternatives in the order the handlers were declared (a nested compound's entries in place), with the slow alternatives
behind one trailing (slow, self) entry.  Specified with fold functions over the handler sequence and proved by loop
invariant for any number of handlers."""
import z3

from vc.unit import Contract, register
from vc.pyvc.values import *  # noqa: F401,F403
from vc.pyvc.core import HObj, St, as_val, raise_
from vc.pyvc import loops

PATH = "traits/trait_handlers.py"
is_fast = z3.Function("has_fast_validate", Val, z3.BoolSort())
fv = z3.Function("fast_validate_of", Val, Val)
fv_kind = z3.Function("descriptor_kind", Val, Val)
fv_parts = z3.Function("compound_entries", Val, SeqV)
validate_of = z3.Function("validate_of", Val, Val)
has_post = z3.Function("has_post_setattr", Val, z3.BoolSort())
post_of = z3.Function("post_setattr_of", Val, Val)
mapped = z3.Function("is_mapped", Val, z3.BoolSort())
FOLD = {n: z3.Function("fold_" + n, SeqV, z3.IntSort(), SeqV) for n in ("fast", "validates", "slow", "post", "mapped")}


def contribution(cx, name, h):
    COMPLEX = cx.const("ValidateTrait.complex").t
    if name == "fast":
        return z3.If(is_fast(h), z3.If(fv_kind(fv(h)) == COMPLEX, fv_parts(fv(h)), z3.Unit(fv(h))), EMPTY_SEQ)
    if name == "validates":
        return z3.If(is_fast(h), z3.Unit(validate_of(h)), EMPTY_SEQ)
    if name == "slow":
        return z3.If(is_fast(h), EMPTY_SEQ, z3.Unit(validate_of(h)))
    if name == "post":
        return z3.If(has_post(h), z3.Unit(post_of(h)), EMPTY_SEQ)
    return z3.If(mapped(h), z3.Unit(h), EMPTY_SEQ)


def fold(cx, name, H, i):
    """declaration-order concatenation of the contributions of handlers H[0..i)"""
    t = FOLD[name](H, i)
    cx.axioms.append(z3.And(z3.Implies(i == 0, t == EMPTY_SEQ),
                            z3.Implies(z3.And(i >= 1, i <= z3.Length(H)),
                                       t == z3.Concat(FOLD[name](H, i - 1), contribution(cx, name, H[i - 1])))))
    return t


@register
class SetValidate(Contract):
    path = PATH
    qualname = "TraitCompound.set_validate"
    properties = ("C03",)
    class_paths = (PATH,)
    assumptions = ("A-PY", "A-BUILTIN:list", "handlers are opaque objects with (optional) fast_validate / post_setattr attributes")

    def configure(self, cx, I, ov):
        for n in ("ValidateTrait.complex", "ValidateTrait.slow", "None"):
            cx.const(n)

        def fast_attr(I2, o, st, k):
            return I2.cx.branch(st, is_fast(o.t), lambda s: k(VElem(fv(o.t)), s.assume(fv(o.t) != I2.cx.const("None").t)),
                                lambda s: raise_(s, "AttributeError", origin=("missing-attribute", "handler", "fast_validate")))
        cx.elem_attrs["fast_validate"] = fast_attr

        def post_attr(I2, o, st, k):
            return I2.cx.branch(st, has_post(o.t), lambda s: k(VElem(post_of(o.t)), s.assume(post_of(o.t) != I2.cx.const("None").t)),
                                lambda s: raise_(s, "AttributeError", origin=("missing-attribute", "handler", "post_setattr")))
        cx.elem_attrs["post_setattr"] = post_attr
        cx.elem_attrs["validate"] = lambda I2, o, st, k: k(VElem(validate_of(o.t)), st)
        cx.elem_attrs["is_mapped"] = lambda I2, o, st, k: k(VBool(mapped(o.t)), st)

        def getattr_hook(I2, obj, name, st, k):
            if isinstance(obj, VFunc) and obj.kind == "repo" and obj.name == "ValidateTrait" and name in ("complex", "slow"):
                return k(I2.cx.const("ValidateTrait." + name), st)
            return None
        cx.getattr_hook = getattr_hook

        def getitem_hook(I2, obj, key, st, k):
            if isinstance(obj, VElem) and isinstance(key, VInt) and z3.is_int_value(z3.simplify(key.t)):
                i = z3.simplify(key.t).as_long()
                if i == 0:
                    return k(VElem(fv_kind(obj.t)), st)
                if i == 1:
                    r = VRef(I2.cx.new_oid())
                    return k(r, st.put(r.oid, HObj("tuple", fv_parts(obj.t))))
            return None
        cx.getitem_hook = getitem_hook
        H = z3.Const("handlers", SeqV)
        self.H = H
        lists = {"fast_validates": "fast", "validates": "validates", "slow_validates": "slow", "post_setattrs": "post", "mapped_handlers": "mapped"}

        def inv(i, view, st):
            out = []
            for var, nm in lists.items():
                out.append(("%s-in-declaration-order" % var, view[var] == fold(cx, nm, H, i)))
            j = z3.Int("j!sv")
            out.append(("is_mapped-flag", view["self.is_mapped"] == z3.Exists([j], z3.And(0 <= j, j < i, mapped(H[j])))))
            out.append(("reversable-flag", view["self.reversable"] == z3.ForAll([j], z3.Implies(z3.And(0 <= j, j < i), mapped(H[j])))))
            return out
        cx.on_loop = loops.make_hook({0: loops.LoopSpec("for handler in self.handlers", list(lists), inv,
                                                       scalars=["self.is_mapped", "self.reversable"])})

    def setup(self, cx, I, ov):
        st = St()
        href = VRef(cx.new_oid())
        st = st.put(href.oid, HObj("tuple", self.H))
        self_ref = VRef(cx.new_oid())
        st = st.put(self_ref.oid, HObj("obj", None, "TraitCompound", {"handlers": href}))
        def conc(m):
            # which kind of disagreement the model shows: a slow alternative before a fast one, or a reordered descriptor
            n = m.eval(z3.Length(self.H), model_completion=True).as_long()
            flags = [z3.is_true(m.eval(is_fast(self.H[q]), model_completion=True)) for q in range(min(n, 6))]
            slow_first = any((not flags[a]) and flags[b] for a in range(len(flags)) for b in range(a + 1, len(flags)))
            return dict(harness="cvalidators", family="compound_slow_first" if slow_first else "compound_order", fast_flags=flags)
        return st, [self_ref], {}, dict(self_ref=self_ref, witness=dict(handlers=self.H), concretise=conc)

    def post(self, cx, I, ov, info, kind, payload, st):
        if kind == "raise":
            return [("exc-free", z3.BoolVal(False), dict(exception="%s %r" % (payload.cname or payload.sym, payload.origin)))]
        H = self.H
        n = z3.Length(H)
        f = st.heap[info["self_ref"].oid].fields
        F, V, S = fold(cx, "fast", H, n), fold(cx, "validates", H, n), fold(cx, "slow", H, n)
        out = []
        sv = f.get("validates")
        out.append(("post:python-validates-in-declaration-order", st.heap[sv.oid].payload == V if isinstance(sv, VRef) else z3.BoolVal(False)))
        ss = f.get("slow_validates")
        out.append(("post:slow-validates-in-declaration-order", st.heap[ss.oid].payload == S if isinstance(ss, VRef) else z3.BoolVal(False)))
        fvv = f.get("fast_validate")
        has = z3.Length(F) > 0
        if fvv is None:
            out.append(("post:no-descriptor-only-without-fast-alternatives", z3.Not(has)))
        elif isinstance(fvv, VTuple) and len(fvv.items) == 2 and isinstance(fvv.items[1], VRef):
            entries = st.heap[fvv.items[1].oid].payload
            slow_entry = cx.box_tuple([cx.const("ValidateTrait.slow").t, cx.ref_val(info["self_ref"])])
            want = z3.If(z3.Length(S) > 0, z3.Concat(F, z3.Unit(slow_entry)), F)
            out.append(("post:descriptor-only-with-fast-alternatives", has))
            out.append(("post:compound-kind", as_val(cx, fvv.items[0], st) == cx.const("ValidateTrait.complex").t))
            out.append(("post:fast-entries-in-declaration-order-then-one-slow-entry", entries == want))
        else:
            out.append(("post:descriptor-shape", z3.BoolVal(False)))
        # the statement itself: the FIRST accepting alternative in declaration order wins.  The compiled compound tries
        # every fast entry before the single trailing slow entry, so this needs: no slow alternative declared before a fast one.
        i, j = z3.Ints("i!ord j!ord")
        out.append(("post:trial-order-is-declaration-order", z3.ForAll([i, j], z3.Implies(
            z3.And(0 <= i, i < j, j < n), z3.Not(z3.And(z3.Not(is_fast(H[i])), is_fast(H[j]))))),
            dict(note="fails when a slow (Python-validated) alternative is declared before a fast one"), ("C03",)))
        return out

    def covers(self, cx, ov, info):
        return [("builds-a-descriptor", lambda k, p, s: k == "return" and s.heap[info["self_ref"].oid].fields.get("fast_validate") is not None),
                ("no-fast-alternative", lambda k, p, s: k == "return" and s.heap[info["self_ref"].oid].fields.get("fast_validate") is None)]
