"""C15: how an ObserverExpression is turned into ObserverGraphs -- the three _create_graphs of traits/observation/expression.py.

The translator contracts (contracts/py/dsl.py) give a text its meaning in a path algebra and ASSUME the laws of the
expression constructors.  These are those laws, proved on the real code.  With graphs(e, B) the list of graphs expression e
yields above the branches B:

    single observer o :   graphs = [ Graph(node=o, children=B) ]                  one graph, the branches directly below o
    series  (a then b):   graphs = graphs(a, graphs(b, B))                        b's graphs become the branches of a
    parallel (a | b)  :   graphs = graphs(a, B) ++ graphs(b, B)                   both sides over the SAME branches, left first

so 'notification enabled on an element iff it is last or followed by .' and 'the same set of observed paths' are decided by the
observers the translator builds, not by the composition; the composition neither drops nor duplicates a path."""
import z3

from vc.unit import Contract, register
from vc.pyvc.values import *  # noqa: F401,F403
from vc.pyvc.core import HObj, St, as_val, raise_

PATH = "traits/observation/expression.py"
GRAPHS = z3.Function("graphs_of", Val, SeqV, SeqV)          # sub-expression, branches -> list of graphs
GRAPH = z3.Function("ObserverGraph", Val, SeqV, Val)         # node, children -> graph


class _Create(Contract):
    path = PATH
    properties = ("C15",)
    class_paths = (PATH,)
    assumptions = ("A-PY", "sub-expressions through this very contract (structural induction); ObserverGraph(node, children) is a constructor")
    fields = ()

    def configure(self, cx, I, ov):
        def sub_create(I2, o, st, k):
            def apply(I3, a, kw, s, kk):
                b = kw.get("branches", a[0] if a else None)
                seq = I3.bi.seq_of(b, s)
                if seq is None:
                    raise Unsupported("branches %r" % (b,))
                r = VRef(I3.cx.new_oid())
                return kk(r, s.put(r.oid, HObj("list", GRAPHS(o.t, seq))).gset("subcalls", s.ghost.get("subcalls", ()) + ((o.t, seq),)))
            return k(VFunc("opaque", name="_create_graphs", apply=apply), st)
        cx.elem_attrs["_create_graphs"] = sub_create

        def construct(I2, a, kw, st, k):
            node, children = kw.get("node"), kw.get("children")
            seq = I2.bi.seq_of(children, st)
            if seq is None or a:
                raise Unsupported("ObserverGraph(%r, %r)" % (a, kw))
            return k(VElem(GRAPH(as_val(I2.cx, node, st), seq)), st)
        cx.module_globals["ObserverGraph"] = VFunc("opaque", name="ObserverGraph", apply=construct)

    def setup(self, cx, I, ov):
        st = St()
        self.B = z3.Const("branches", SeqV)
        bref, self_ref = VRef(cx.new_oid()), VRef(cx.new_oid())
        st = st.put(bref.oid, HObj("list", self.B))
        self.parts = {f: z3.Const(f.strip("_") + "_part", Val) for f in self.fields}
        st = st.put(self_ref.oid, HObj("obj", None, self.qualname.split(".")[0], {f: VElem(t) for f, t in self.parts.items()}))
        return st, [self_ref], {"branches": bref}, dict(witness={})

    def expected(self):
        raise NotImplementedError

    def post(self, cx, I, ov, info, kind, payload, st):
        if kind == "raise":
            return [("exc-free", z3.BoolVal(False), dict(exception="%s %r" % (payload.cname or payload.sym, payload.origin)))]
        seq = I.bi.seq_of(payload, st)
        if seq is None:
            return [("post:returns-a-list-of-graphs", z3.BoolVal(False))]
        return [("post:" + self.law, seq == self.expected())]

    def covers(self, cx, ov, info):
        return [("creates", lambda k, p, s: k == "return")]


@register
class SingleCreate(_Create):
    qualname = "SingleObserverExpression._create_graphs"
    fields = ("_observer",)
    law = "one-graph-with-the-observer-as-node-and-the-branches-as-its-children"

    def expected(self):
        return z3.Unit(GRAPH(self.parts["_observer"], self.B))


@register
class SeriesCreate(_Create):
    qualname = "SeriesObserverExpression._create_graphs"
    fields = ("_first", "_second")
    law = "the-graphs-of-the-second-part-become-the-branches-of-the-first"

    def expected(self):
        return GRAPHS(self.parts["_first"], GRAPHS(self.parts["_second"], self.B))


@register
class ParallelCreate(_Create):
    qualname = "ParallelObserverExpression._create_graphs"
    fields = ("_left", "_right")
    law = "both-sides-over-the-same-branches-left-first"

    def expected(self):
        return z3.Concat(GRAPHS(self.parts["_left"], self.B), GRAPHS(self.parts["_right"], self.B))
