"""C03: BaseInstance.resolve_class -- re-installation of the compiled validator once a class given by name is resolved.

'Every trait type that validates through the compiled fast path accepts exactly the values its own Python-level validate
method accepts ... A compound trait accepts a value iff at least one alternative accepts it': the compiled validator of a
trait is driven by the descriptor installed with trait.set_validate(...).  Whatever resolve_class installs on a trait must
therefore be the descriptor OF THAT TRAIT'S OWN HANDLER, as it is after the resolution:

  * the Instance is the trait's handler itself: its own (re-initialised) fast_validate goes onto the trait;
  * the trait's handler is a compound (it has set_validate): the compound recomputes its table -- after the Instance has
    re-initialised its own entry -- and the COMPOUND's table goes onto the trait (not the single alternative's: the other
    alternatives would be rejected by the compiled path while the Python validate still accepts them);
  * the trait is a List whose item trait has the Instance as handler: the Instance's descriptor goes onto the ITEM trait;
  * anything else: nothing is installed.
A handler without a fast descriptor (None) installs nothing."""
import z3

from vc.unit import Contract, register
from vc.pyvc.values import *  # noqa: F401,F403
from vc.pyvc.core import HObj, St, as_val, raise_

PATH = "traits/trait_types.py"


@register
class ResolveClass(Contract):
    path = PATH
    qualname = "BaseInstance.resolve_class"
    properties = ("C03",)
    class_paths = (PATH, "traits/trait_type.py", "traits/base_trait_handler.py")
    overloads = ("own-trait", "compound", "list-item", "unrelated-outer-trait")
    assumptions = ("A-PY", "BaseClass.resolve_class / init_fast_validate / the compound's set_validate are used as summaries: each "
                   "may change the fast_validate of the handler it belongs to (a fresh value) and nothing else")

    def configure(self, cx, I, ov):
        NONE_T = cx.const("None").t
        self.trait, self.item_trait, self.outer = z3.Consts("base_trait item_trait outer_handler", Val)
        self.fv_self0, self.fv_self1 = z3.Consts("instance_descriptor_before instance_descriptor_after_init", Val)
        self.fv_outer0, self.fv_outer1 = z3.Consts("compound_table_stale compound_table_recomputed", Val)
        log = lambda st, rec: st.gset("log", st.ghost.get("log", ()) + (rec,))

        class SuperResolve(Contract):
            path = PATH
            qualname = "BaseClass.resolve_class"

            def summary(self_, I2, self_ref, args, kwargs, st, k):
                return k(NONE, log(st, ("super.resolve_class",)))

        class InitFast(Contract):
            path = PATH
            qualname = "BaseInstance.init_fast_validate"

            def summary(self_, I2, self_ref, args, kwargs, st, k):
                h = st.heap[self_ref.oid]
                return k(NONE, log(st.put(self_ref.oid, h.with_field("fast_validate", VElem(self.fv_self1))), ("init_fast_validate",)))
        cx.contracts = dict(cx.contracts)
        cx.contracts[("BaseClass", "resolve_class")] = SuperResolve()
        cx.contracts[("BaseInstance", "init_fast_validate")] = InitFast()

        def base_trait_attr(I2, o, st, k):
            return k(VFunc("opaque", name="base_trait", apply=lambda I3, a, kw, s, kk: kk(VElem(self.trait), s)), st)
        cx.elem_attrs["base_trait"] = base_trait_attr

        def handler_attr(I2, o, st, k):
            if o.t.eq(self.trait):
                return k(self.self_ref if ov == "own-trait" else VElem(self.outer), st)
            if o.t.eq(self.item_trait):
                return k(self.self_ref if ov == "list-item" else VElem(z3.Const("some_other_handler", Val)), st)
            raise Unsupported("handler of %r" % (o,))
        cx.elem_attrs["handler"] = handler_attr

        def set_validate_attr(I2, o, st, k):
            if o.t.eq(self.outer):
                if ov != "compound":
                    return raise_(st, "AttributeError", origin=("missing-attribute", "handler", "set_validate"))

                def recompute(I3, a, kw, s, kk):
                    return kk(NONE, log(s.gset("outer_recomputed", True), ("compound.set_validate",)))
                return k(VFunc("opaque", name="compound.set_validate", apply=recompute), st)
            if o.t.eq(self.trait) or o.t.eq(self.item_trait):
                def install(I3, a, kw, s, kk):
                    return kk(NONE, s.gset("installs", s.ghost.get("installs", ()) + ((o.t, as_val(I3.cx, a[0], s), s.ghost.get("outer_recomputed", False),
                                                                                      any(r[0] == "init_fast_validate" for r in s.ghost.get("log", ()))),)))
                return k(VFunc("opaque", name="trait.set_validate", apply=install), st)
            raise Unsupported("set_validate of %r" % (o,))
        cx.elem_attrs["set_validate"] = set_validate_attr

        def item_trait_attr(I2, o, st, k):
            if o.t.eq(self.outer):
                if ov in ("list-item", "unrelated-outer-trait"):
                    return k(VElem(self.item_trait), st)
                return raise_(st, "AttributeError", origin=("missing-attribute", "handler", "item_trait"))
            raise Unsupported("item_trait of %r" % (o,))
        cx.elem_attrs["item_trait"] = item_trait_attr

        def fast_validate_attr(I2, o, st, k):
            if o.t.eq(self.outer):
                return k(VElem(self.fv_outer1 if st.ghost.get("outer_recomputed") else self.fv_outer0), st)
            raise Unsupported("fast_validate of %r" % (o,))
        cx.elem_attrs["fast_validate"] = fast_validate_attr

    def setup(self, cx, I, ov):
        NONE_T = cx.const("None").t
        st = St()
        self.self_ref = VRef(cx.new_oid())
        st = st.put(self.self_ref.oid, HObj("obj", None, "BaseInstance", {"fast_validate": VElem(self.fv_self0)}))
        st = st.assume(z3.Distinct(self.trait, self.item_trait), z3.Distinct(self.fv_self0, self.fv_self1, self.fv_outer0, self.fv_outer1),
                       self.outer != NONE_T, self.item_trait != NONE_T,
                       # the outer handler (compound / List) and the unrelated handler are other objects than this Instance
                       cx.ref_val(self.self_ref) != self.outer, cx.ref_val(self.self_ref) != z3.Const("some_other_handler", Val))
        return st, [self.self_ref, VElem(z3.Const("object", Val)), VStr(z3.String("name")), VElem(z3.Const("value", Val))], {}, dict(
            witness={}, concretise=lambda m: dict(harness="pyvalidators", family="resolve_class"))

    def post(self, cx, I, ov, info, kind, payload, st):
        NONE_T = cx.const("None").t
        if kind == "raise":
            return [("exc-free", z3.BoolVal(False), dict(exception="%s %r" % (payload.cname or payload.sym, payload.origin)))]
        ins = st.ghost.get("installs", ())
        log = [r[0] for r in st.ghost.get("log", ())]
        # the descriptor of a trait's own handler, as it is after the resolution
        own = {"own-trait": (self.trait, self.fv_self1), "compound": (self.trait, self.fv_outer1), "list-item": (self.item_trait, self.fv_self1)}
        out = [("post:the-class-is-resolved-and-the-instance's-own-descriptor-rebuilt-first", z3.BoolVal(log[:2] == ["super.resolve_class", "init_fast_validate"]))]
        if ov == "unrelated-outer-trait":
            out.append(("post:nothing-installed-on-a-trait-the-instance-does-not-validate", z3.BoolVal(len(ins) == 0)))
            return out
        tgt, desc = own[ov]
        has_desc = desc != NONE_T
        out.append(("post:at-most-one-installation", z3.BoolVal(len(ins) <= 1)))
        if ins:
            t, d, recomputed, inited = ins[0]
            out.append(("post:installed-on-the-trait-that-validates-with-this-handler", z3.BoolVal(t.eq(tgt))))
            out.append(("post:descriptor-installed-is-the-one-of-that-trait's-own-handler-after-the-resolution", d == desc))
            out.append(("post:a-handler-without-fast-descriptor-installs-nothing", has_desc))
            if ov == "compound":
                out.append(("post:the-compound-table-is-recomputed-after-the-instance-entry-and-before-the-installation", z3.BoolVal(bool(recomputed and inited))))
        else:
            out.append(("post:a-fast-descriptor-is-installed", z3.Not(has_desc)))
        return out

    def covers(self, cx, ov, info):
        if ov == "unrelated-outer-trait":
            return [("returns", lambda k, p, s: k == "return")]
        return [("installs", lambda k, p, s: k == "return" and len(s.ghost.get("installs", ())) == 1)]
