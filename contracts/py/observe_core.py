"""Contracts for the observer registration walk (C09, C19): traits/observation/_observe.py, observe.py.

Failure atomicity ('a registration or removal that raises leaves no part of the handler attached anywhere in the
graph') is stated over two ghost multisets of *pending effects*:
  own   : attachments made directly by this walker (every one must be recorded in self._processed),
  sub   : completed recursive walks of child / extra graphs (every one must be recorded for undo),
and proved structurally: each step records what it does; on any exception __call__ compensates everything recorded;
so on an exceptional exit both multisets are empty.  The recursion is modular: a recursive call is used through this
very contract (normal: its effect is pending; exception: it left nothing).

A-UNDO: compensating a walk that has just completed (the opposite walk over the same object and graph) and removing /
re-adding a notifier just added / removed do not themselves raise."""
import z3

from vc.unit import Contract, register, BY_ID
from vc.pyvc.values import *  # noqa: F401,F403
from vc.pyvc.core import HObj, St, as_val, raise_
from vc.pyvc import loops

PATH = "traits/observation/_observe.py"
BAG = z3.ArraySort(Val, z3.IntSort())
bag = z3.Function("bag", SeqV, BAG)
ZERO = z3.K(Val, z3.IntVal(0))
# pairs are the engine's 2-tuples (the code stores `(notifier, observable)` / `(object, graph)` tuples in its records)
mkpair = z3.Function("mk_tuple2", Val, Val, Val)
p1, p2 = z3.Function("tuple2_item0", Val, Val), z3.Function("tuple2_item1", Val, Val)


def bag_plus(a, b):
    x = z3.Const("x!bag", Val)
    return mk_lambda(x, a[x] + b[x])


def bag_inc(a, x, d=1):
    return z3.Store(a, x, a[x] + d)


def bag_axioms(cx, s):
    """instances of the defining equations of bag() for sequence s: empty, and split at the last element"""
    n = z3.Length(s)
    last = s[n - 1]
    cx.axioms.append(z3.And(
        bag(EMPTY_SEQ) == ZERO,
        z3.Implies(n == 0, bag(s) == ZERO),
        z3.Implies(n > 0, bag(s) == bag_inc(bag(z3.Extract(s, 0, n - 1)), last)),
        mkpair(p1(last), p2(last)) == last))


def concat_axiom(cx, a, b):
    cx.axioms.append(bag(z3.Concat(a, b)) == bag_plus(bag(a), bag(b)))
    cx.axioms.append(z3.Implies(z3.Length(b) == 0, z3.Concat(a, b) == a))


def make_walker(cx, with_walked):
    """a fresh _AddOrRemoveNotifier as left by __init__"""
    st = St()
    proc = VRef(cx.new_oid())
    st = st.put(proc.oid, HObj("list", EMPTY_SEQ))
    fields = {"object": VElem(z3.Const("object", Val)), "graph": VElem(z3.Const("graph", Val)),
              "handler": VElem(z3.Const("handler", Val)), "target": VElem(z3.Const("target", Val)),
              "dispatcher": VElem(z3.Const("dispatcher", Val)), "remove": VBool(z3.Bool("remove")), "_processed": proc}
    if with_walked:
        w = VRef(cx.new_oid())
        st = st.put(w.oid, HObj("list", EMPTY_SEQ))
        fields["_walked"] = w
    self_ref = VRef(cx.new_oid())
    st = st.put(self_ref.oid, HObj("obj", None, "_AddOrRemoveNotifier", fields))
    st = st.gset("own", ZERO).gset("sub", ZERO)
    return st, self_ref


def class_has_walked():
    """does _AddOrRemoveNotifier.__init__ create the `_walked` record?  (read from the source: the walker state is
    whatever __init__ assigns)"""
    import ast
    from vc.pyvc import source
    fn = source.get_function(PATH, "_AddOrRemoveNotifier.__init__")[0]
    return any(isinstance(n, ast.Attribute) and n.attr == "_walked" for n in ast.walk(fn))


def seq_of_field(st, self_ref, name):
    r = st.heap[self_ref.oid].fields.get(name)
    return st.heap[r.oid].payload if isinstance(r, VRef) else None


def append_to_field(st, self_ref, name, q):
    r = st.heap[self_ref.oid].fields.get(name)
    h = st.heap[r.oid]
    return st.put(r.oid, HObj(h.kind, z3.Concat(h.payload, q), h.cls, h.fields, {}))


def recursive_walk_summary(I, args, kwargs, st, k):
    """add_or_remove_notifiers(object=, graph=, ..., remove=): by the contract of _AddOrRemoveNotifier.__call__ --
    normal: the walk's effect is pending (one more token for (object, graph) in `sub`, or one less when it is the
    compensating walk of a recorded one); exception: nothing is left behind."""
    cx = I.cx
    tok = mkpair(as_val(cx, kwargs["object"], st), as_val(cx, kwargs["graph"], st))
    self_remove = st.ghost.get("self_remove")
    rem = kwargs["remove"]
    compensating = z3.BoolVal(False)
    if self_remove is not None and isinstance(rem, VBool):
        compensating = rem.t != self_remove
    sub = st.ghost["sub"]
    new_sub = z3.If(compensating, bag_inc(sub, tok, -1), bag_inc(sub, tok, 1))
    out = k(NONE, st.gset("sub", new_sub).gset("walks", st.ghost.get("walks", ()) + ((tok, compensating),)))
    e = cx.fresh("walk_exc", Exc)
    # A-UNDO: a compensating walk does not raise
    stE = st.assume(z3.Not(compensating), *cx.exc_axioms(e), cx.exc_isa_sym(e, "Exception"))
    if cx.feasible(stE):
        out.append(("raise", VExc(sym=e, origin=("walk",)), stE))
    return out


def install_walk_hooks(cx, self_remove):
    def repo_call(I, fv, args, kwargs, st, k):
        if fv.name == "add_or_remove_notifiers":
            return recursive_walk_summary(I, args, kwargs, st.gset("self_remove", self_remove), k)
        return None
    cx.repo_call_hook = repo_call

    def unpack_hook(cx2, v, n, st):
        if isinstance(v, VElem) and n == 2:
            return [VElem(p1(v.t)), VElem(p2(v.t))]
        return None
    cx.unpack_hook = unpack_hook

    def notifier_method(mode):
        def h(I, obj, st, k):
            def apply(I2, a, kw, s, kk):
                tok = mkpair(obj.t, as_val(I2.cx, a[0], s))
                # undoing a recorded attachment: one pending own effect less (A-UNDO: does not raise)
                return kk(NONE, s.gset("own", bag_inc(s.ghost["own"], tok, -1)).gset(
                    "undo_calls", s.ghost.get("undo_calls", ()) + ((mode, tok),)))
            return k(VFunc("opaque", name=mode, apply=apply), st)
        return h
    cx.elem_attrs["add_to"] = notifier_method("add_to")
    cx.elem_attrs["remove_from"] = notifier_method("remove_from")


class StepSummary(Contract):
    path = PATH
    properties = ()
    own_step = True

    def summary(self, I, self_ref, args, kwargs, st, k):
        cx = I.cx
        q = cx.fresh("recorded", SeqV)
        out = []
        for failing in (False, True):
            if self.own_step:
                concat_axiom(cx, seq_of_field(st, self_ref, "_processed"), q)
                st2 = append_to_field(st, self_ref, "_processed", q).gset("own", bag_plus(st.ghost["own"], bag(q)))
            else:
                st2 = st.gset("sub", bag_plus(st.ghost["sub"], bag(q)))
                if st.heap[self_ref.oid].fields.get("_walked") is not None:
                    concat_axiom(cx, seq_of_field(st, self_ref, "_walked"), q)
                    st2 = append_to_field(st2, self_ref, "_walked", q)
            st2 = st2.gset("steps", st.ghost.get("steps", ()) + ((self.fname, failing),))
            if not failing:
                out += k(NONE, st2)
            else:
                e = cx.fresh("step_exc", Exc)
                out.append(("raise", VExc(sym=e, origin=("step", self.fname)), st2.assume(*cx.exc_axioms(e), cx.exc_isa_sym(e, "Exception"))))
        return out


def _mk_step(name, own):
    return type("Step_" + name, (StepSummary,), dict(qualname="_AddOrRemoveNotifier." + name, own_step=own))()


@register
class WalkerCall(Contract):
    """_AddOrRemoveNotifier.__call__: normal return -- every step ran once; exception -- nothing is left pending."""
    path = PATH
    qualname = "_AddOrRemoveNotifier.__call__"
    properties = ("C09", "C19")
    extra_properties = ("C12", "C08")
    undecided_probe = dict(harness="observe", family="maintainer_failure")
    assumptions = ("A-PY", "A-UNDO", "the four steps are used through their contracts (each records what it does)")

    def configure(self, cx, I, ov):
        self.has_walked = class_has_walked()
        cx.contracts = dict(cx.contracts)
        for nm, own in (("_add_or_remove_notifiers", True), ("_add_or_remove_maintainers", True),
                        ("_add_or_remove_children_notifiers", False), ("_add_or_remove_extra_graphs", False)):
            cx.contracts[("_AddOrRemoveNotifier", nm)] = _mk_step(nm, own)
        install_walk_hooks(cx, z3.Bool("remove"))

        def inv_factory(which):
            def inv(_i, view, st):
                out = []
                for nm, key in (("self._processed", "own"), ("self._walked", "sub")):
                    if nm.split(".")[1] not in which:
                        continue
                    if nm in view:
                        bag_axioms(cx, view[nm])
                        out.append(("pending-%s-effects-are-exactly-the-recorded-ones" % key, st.ghost[key] == bag(view[nm])))
                return out
            return inv
        specs = {}
        import ast
        from vc.pyvc import source
        fn = source.get_function(PATH, self.qualname)[0]
        whiles = sorted([n for n in ast.walk(fn) if isinstance(n, (ast.For, ast.While))], key=lambda n: (n.lineno, n.col_offset))
        for i, n in enumerate(whiles):
            if isinstance(n, ast.While):
                txt = ast.unparse(n.test)
                # each undo loop consumes one record and the pending effects it stands for
                if "_walked" in txt:
                    mods, gh = ["self._walked"], ["sub"]
                else:
                    mods, gh = ["self._processed"], ["own"]
                specs[i] = loops.LoopSpec("while " + txt, mods, inv_factory(txt), ghost=gh)
        cx.on_loop = loops.make_hook(specs)

    def setup(self, cx, I, ov):
        st, self_ref = make_walker(cx, self.has_walked)
        conc = lambda m: dict(harness="observe", family="atomic")
        return st, [self_ref], {}, dict(self_ref=self_ref, witness=dict(remove=z3.Bool("remove")), concretise=conc)

    def post(self, cx, I, ov, info, kind, payload, st):
        steps = st.ghost.get("steps", ())
        if kind == "return":
            names = sorted(n for (n, _f) in steps)
            return [("post:every-step-ran-exactly-once", z3.BoolVal(names == sorted([
                "_add_or_remove_notifiers", "_add_or_remove_maintainers", "_add_or_remove_children_notifiers",
                "_add_or_remove_extra_graphs"]))),
                ("post:undo-records-cleared", z3.And(*[seq_of_field(st, info["self_ref"], f) == EMPTY_SEQ for f in
                                                       (["_processed"] + (["_walked"] if self.has_walked else []))])),
                # C12 / C08: on every observable the change handler's notifier precedes the maintainer (both the C and the
                # Python notifier loops stop at the first notifier that raises): a maintainer that fails while re-hooking the
                # nested part must not hide the change from the handler -- a cached property would stay stale, unannounced
                ("post:when-adding-the-own-notifiers-are-attached-before-the-maintainers", z3.Or(z3.Bool("remove"), z3.BoolVal(
                    [n for (n, _f) in steps].index("_add_or_remove_notifiers") < [n for (n, _f) in steps].index("_add_or_remove_maintainers")
                    if "_add_or_remove_notifiers" in [n for (n, _f) in steps] and "_add_or_remove_maintainers" in [n for (n, _f) in steps] else False)),
                 dict(steps=str([n for (n, _f) in steps])), ("C12", "C08", "C09"))]
        x = z3.Const("x!left", Val)
        w = dict(steps=str(steps))
        return [("raise:no-own-notifier-left-attached", z3.ForAll([x], st.ghost["own"][x] == 0), w),
                ("raise:no-completed-sub-walk-left-attached", z3.ForAll([x], st.ghost["sub"][x] == 0), w)]

    def covers(self, cx, ov, info):
        return [("completes", lambda k, p, s: k == "return"), ("fails", lambda k, p, s: k == "raise")]


class _SubStep(Contract):
    """children / extra-graph steps: every recursive walk that completed is recorded in self._walked, in order."""
    path = PATH
    properties = ("C09", "C19")
    assumptions = ("A-PY", "recursive walks through the contract of __call__", "iter_objects / iter_extra_graphs / children: "
                   "finite iterables that may raise at any point")

    def configure(self, cx, I, ov):
        self.has_walked = class_has_walked()
        install_walk_hooks(cx, z3.Bool("remove"))
        it_exc = cx.fresh("iteration_exc", Exc)

        def seq_attr(name):
            def h(I2, obj, st, k):
                r = VRef(cx.new_oid())
                return k(r, st.put(r.oid, HObj("list", z3.Const(name, SeqV))))
            return h
        cx.elem_attrs["children"] = seq_attr("children")
        cx.elem_attrs["node"] = lambda I2, obj, st, k: k(VElem(z3.Const("node", Val)), st)

        def iterator_method(name):
            def h(I2, obj, st, k):
                def apply(I3, a, kw, s, kk):
                    r = VRef(cx.new_oid())
                    # any finite sequence of items (the generator raising midway = a shorter sequence, then the exception)
                    out = kk(r, s.put(r.oid, HObj("list", cx.fresh(name, SeqV))))
                    return out
                return k(VFunc("opaque", name=name, apply=apply), st)
            return h
        cx.elem_attrs["iter_objects"] = iterator_method("iter_objects")
        cx.elem_attrs["iter_extra_graphs"] = iterator_method("iter_extra_graphs")

        def inv(_i, view, st):
            out = []
            if "self._walked" in view:
                w = view["self._walked"]
                bag_axioms(cx, w)
                out.append(("completed-walks-are-exactly-the-recorded-ones", st.ghost["sub"] == bag(w)))
            else:
                out.append(("completed-walks-are-recorded-for-undo", st.ghost["sub"] == ZERO))
            return out
        import ast
        from vc.pyvc import source
        fn = source.get_function(PATH, self.qualname)[0]
        fors = sorted([n for n in ast.walk(fn) if isinstance(n, (ast.For, ast.While))], key=lambda n: (n.lineno, n.col_offset))
        mods = ["self._walked"] if self.has_walked else []
        cx.on_loop = loops.make_hook({i: loops.LoopSpec(loops.header(n), mods, inv, ghost=["sub"]) for i, n in enumerate(fors)})

    def setup(self, cx, I, ov):
        st, self_ref = make_walker(cx, self.has_walked)
        conc = lambda m: dict(harness="observe", family="atomic")
        return st, [self_ref], {}, dict(self_ref=self_ref, witness={}, concretise=conc)

    def post(self, cx, I, ov, info, kind, payload, st):
        out = []
        if self.has_walked:
            w = seq_of_field(st, info["self_ref"], "_walked")
            bag_axioms(cx, w)
            out.append(("%s:completed-walks-are-exactly-the-recorded-ones" % ("post" if kind == "return" else "raise"),
                        st.ghost["sub"] == bag(w)))
        else:
            x = z3.Const("x!left", Val)
            out.append(("%s:completed-walks-are-recorded-for-undo" % ("post" if kind == "return" else "raise"),
                        z3.ForAll([x], st.ghost["sub"][x] == 0)))
        return out

    def covers(self, cx, ov, info):
        return [("completes", lambda k, p, s: k == "return")]


@register
class ChildrenStep(_SubStep):
    qualname = "_AddOrRemoveNotifier._add_or_remove_children_notifiers"
    extra_properties = ("C08", "C12")
    # C08 / C12: one sub-walk per OCCURRENCE of a next object and per child graph (the reference counts of the notifiers
    # mirror occurrences).  The multiplicity is not stated as a clause here (it needs the sequence structure of two nested
    # loops); it is covered by the independent reachability oracle when this unit cannot be decided.
    undecided_probe = dict(harness="observe", family="reachability", trials=150)


@register
class ExtraGraphsStep(_SubStep):
    qualname = "_AddOrRemoveNotifier._add_or_remove_extra_graphs"


@register
class ApplyObservers(Contract):
    """apply_observers(object, graphs, handler, dispatcher=, remove=): the graphs of one expression are applied
    all-or-nothing: when applying the k-th graph raises, the k-1 graphs already applied are walked back."""
    path = "traits/observation/observe.py"
    qualname = "apply_observers"
    properties = ("C09", "C19")
    # asked when the function leaves the verifier's subset or an obligation stays undecided: registrations AND removals that
    # raise half-way over several graphs, registration counts 1..3, on the real code
    undecided_probe = dict(harness="observe", family="atomic")
    assumptions = ("A-PY", "A-UNDO", "add_or_remove_notifiers through the contract of _AddOrRemoveNotifier.__call__")

    def configure(self, cx, I, ov):
        install_walk_hooks(cx, z3.Bool("remove"))
        import ast
        from vc.pyvc import source
        fn = source.get_function(self.path, self.qualname)[0]
        loops_ = sorted([n for n in ast.walk(fn) if isinstance(n, (ast.For, ast.While))], key=lambda n: (n.lineno, n.col_offset))
        self.has_record = any(isinstance(n, ast.While) for n in loops_)
        specs = {}
        for i, n in enumerate(loops_):
            names = sorted({x.id for x in ast.walk(n) if isinstance(x, ast.Name)})
            rec = [v for v in ("applied",) if v in names]

            def inv(_i, view, st, rec=rec):
                if rec:
                    w = view[rec[0]]
                    bag_axioms(cx, w)
                    # the record holds the graphs applied so far; each stands for the walk (object, graph)
                    obj = z3.Const("object", Val)
                    g = z3.Const("g!rec", Val)
                    j = z3.Int("j!rec")
                    return [("applied-graphs-are-exactly-the-recorded-ones", st.ghost["sub"] == bag(pairs_with(cx, obj, w)))]
                x = z3.Const("x!left", Val)
                return [("applied-graphs-are-recorded-for-undo", z3.ForAll([x], st.ghost["sub"][x] == 0))]
            specs[i] = loops.LoopSpec(loops.header(n), rec, inv, ghost=["sub"])
        cx.on_loop = loops.make_hook(specs)

    def setup(self, cx, I, ov):
        st = St().gset("own", ZERO).gset("sub", ZERO)
        graphs = VRef(cx.new_oid())
        st = st.put(graphs.oid, HObj("list", z3.Const("graphs", SeqV)))
        obj = VElem(z3.Const("object", Val))
        conc = lambda m: dict(harness="observe", family="atomic")
        return st, [obj, graphs, VElem(z3.Const("handler", Val))], dict(dispatcher=VElem(z3.Const("dispatcher", Val)),
                                                                        remove=VBool(z3.Bool("remove"))), dict(witness={}, concretise=conc)

    def post(self, cx, I, ov, info, kind, payload, st):
        if kind == "return":
            return []
        x = z3.Const("x!left", Val)
        return [("raise:no-applied-graph-left-attached", z3.ForAll([x], st.ghost["sub"][x] == 0))]

    def covers(self, cx, ov, info):
        return [("completes", lambda k, p, s: k == "return")]


PAIRS = z3.Function("pairs_with", Val, SeqV, SeqV)


def pairs_with(cx, obj, w):
    """the sequence of walk tokens (obj, g) for g in w"""
    r = PAIRS(obj, w)
    n = z3.Length(w)
    j = z3.Int("j!pw")
    cx.axioms.append(z3.And(
        z3.Length(r) == n,
        z3.ForAll([j], z3.Implies(z3.And(0 <= j, j < n), r[j] == mkpair(obj, w[j]))),
        z3.Implies(n > 0, z3.And(PAIRS(obj, z3.Extract(w, 0, n - 1)) == z3.Extract(r, 0, n - 1), r[n - 1] == mkpair(obj, w[n - 1])))))
    bag_axioms(cx, r)
    return r
