"""C02 / C19 / C01: HasTraits.trait_set (and trait_setq, which delegates to it) -- the keyword route of assignment.

'never [a handler call] for a rejected assignment ... an exception ... neither undoes the assignment nor prevents any other
handler from being called' (C02); 'every subsequent operation behaves exactly as on an object that never saw the failure'
(C19); 'assigning the value (by attribute assignment, constructor keyword or trait_set)' (C01):

  * every keyword is assigned through setattr(self, name, value) -- the same compiled entry as attribute assignment -- once,
    in the order given, up to the first assignment that raises; that exception reaches the caller unchanged;
  * with trait_change_notify=False notifications are switched off before the first assignment and are SWITCHED BACK ON ON
    EVERY EXIT, also when an assignment is rejected: a rejected quiet assignment must not leave the object deaf;
  * with trait_change_notify=True the switch is not touched;
  * the object itself is returned."""
import z3

from vc.unit import Contract, register
from vc.pyvc.values import *  # noqa: F401,F403
from vc.pyvc.core import HObj, St, as_val, raise_

PATH = "traits/has_traits.py"


@register
class TraitSetMethod(Contract):
    path = PATH
    qualname = "HasTraits.trait_set"
    properties = ("C02", "C19", "C01")
    class_paths = (PATH,)
    overloads = ("notify", "quiet")
    assumptions = ("A-PY", "setattr(self, name, value) is the compiled assignment (contracts of setattr_trait): it may raise anything",
                   "two keywords (the loop over the keyword dictionary is unrolled; its body does not depend on the number of keywords)")

    def configure(self, cx, I, ov):
        log = lambda st, rec: st.gset("log", st.ghost.get("log", ()) + (rec,))

        class Switch(Contract):
            path = PATH
            qualname = "HasTraits._trait_change_notify"

            def summary(self_, I2, self_ref, args, kwargs, st, k):
                return k(NONE, log(st, ("switch", args[0])))
        cx.contracts = dict(cx.contracts)
        cx.contracts[("HasTraits", "_trait_change_notify")] = Switch()
        cx.contracts[("CHasTraits", "_trait_change_notify")] = Switch()

        def dyn_setattr(I2, args, st, k):
            tgt, n, v = args
            st2 = log(st, ("setattr", tgt, n, v))
            e = cx.fresh("assign_exc", Exc)
            fails = cx.fresh("assignment_rejected", z3.BoolSort())
            return cx.branch(st2, fails, lambda s: [("raise", VExc(sym=e, origin=("setattr", len([r for r in s.ghost["log"] if r[0] == "setattr"]))), s.assume(*cx.exc_axioms(e)))],
                             lambda s: k(NONE, s))
        cx.dyn_setattr_hook = dyn_setattr

    def setup(self, cx, I, ov):
        st = St()
        self.self_ref = VRef(cx.new_oid())
        st = st.put(self.self_ref.oid, HObj("obj", None, "HasTraits", {}))
        self.vals = [("alpha", z3.Const("value_alpha", Val)), ("beta", z3.Const("value_beta", Val))]
        kwargs = {n: VElem(t) for n, t in self.vals}
        return st, [self.self_ref, VBool(ov == "notify")], kwargs, dict(witness={}, concretise=lambda m: dict(harness="notif", family="trait_set_quiet_rejection"))

    def post(self, cx, I, ov, info, kind, payload, st):
        log = st.ghost.get("log", ())
        sets = [r for r in log if r[0] == "setattr"]
        sw = [(i, r) for i, r in enumerate(log) if r[0] == "switch"]
        out = []
        # assignments: in order, through setattr on the object itself
        ok_sets = all(isinstance(r[1], VRef) and r[1].oid == self.self_ref.oid and isinstance(r[2], VStr) and r[2].const == self.vals[i][0]
                      and isinstance(r[3], VElem) and r[3].t.eq(self.vals[i][1]) for i, r in enumerate(sets)) and len(sets) <= len(self.vals)
        out.append(("post:keywords-assigned-through-setattr-on-the-object-once-each-in-order", z3.BoolVal(ok_sets)))
        if kind == "raise":
            from_assignment = bool(payload.origin) and payload.origin[0] == "setattr"
            out.append(("raise:only-a-rejected-assignment-raises-and-its-exception-is-passed-on-unchanged", z3.BoolVal(from_assignment and payload.origin[1] == len(sets)),
                        dict(exception="%s %r" % (payload.cname or payload.sym, payload.origin))))
        else:
            out.append(("post:every-keyword-assigned", z3.BoolVal(len(sets) == len(self.vals))))
            out.append(("post:returns-the-object-itself", z3.BoolVal(isinstance(payload, VRef) and payload.oid == self.self_ref.oid)))
        if ov == "notify":
            out.append(("post:the-notification-switch-is-not-touched", z3.BoolVal(not sw)))
        else:
            def flag(r):
                v = r[1]
                return (isinstance(v, VBool) and z3.is_true(z3.simplify(v.t))) if True else None
            off_first = bool(sw) and sw[0][0] == 0 and not flag(sw[0][1])
            on_last = bool(sw) and sw[-1][0] == len(log) - 1 and flag(sw[-1][1])
            name = ("raise:" if kind == "raise" else "post:")
            out.append((name + "notifications-switched-off-before-the-first-assignment", z3.BoolVal(off_first)))
            out.append((name + "notifications-switched-back-on-on-every-exit", z3.BoolVal(on_last and len(sw) == 2)))
        return out

    def covers(self, cx, ov, info):
        return [("assigns-everything", lambda k, p, s: k == "return"), ("an-assignment-is-rejected", lambda k, p, s: k == "raise")]
