"""C13: HasTraits.remove_trait -- 'removing an instance trait restores the class-level rule'.

After remove_trait(name) on an object whose instance trait dictionary holds `name`:
  * the entry is gone from the instance trait dictionary (so the compiled lookup, whose contract consults instance traits first,
    falls through to the class trait / prefix trait again), and True is returned;
  * the value stored for the name in the instance dictionary is gone as well (a value validated by the removed trait must not
    be readable through the class-level rule);
  * the companion traits the handler declares are removed the same way: `<name>_items` for a container handler (has_items),
    `<name>_` for a mapped handler (is_mapped) -- before the trait itself;
  * nothing else is deleted;
when the name has no trait at all, or only a class-level one, nothing is removed from the instance trait dictionary and False
is returned."""
import z3

from vc.unit import Contract, register
from vc.pyvc.values import *  # noqa: F401,F403
from vc.pyvc.core import HObj, St, as_val, raise_

PATH = "traits/has_traits.py"


@register
class RemoveTrait(Contract):
    path = PATH
    qualname = "HasTraits.remove_trait"
    properties = ("C13",)
    class_paths = (PATH,)
    overloads = ("no-trait", "plain-handler", "container-handler", "mapped-handler", "no-handler")
    assumptions = ("A-PY", "A-BUILTIN:dict", "_trait(name, 0) / _instance_traits() are the compiled accessors (contracts of get_trait), used as "
                   "summaries; the recursive calls for the companion traits are used through this very contract")

    def configure(self, cx, I, ov):
        NONE_T = cx.const("None").t
        self.trait = z3.Const("trait_found", Val)
        log = lambda st, rec: st.gset("log", st.ghost.get("log", ()) + (rec,))

        def method(name, fn):
            cx.elem_attrs[name] = lambda I2, o, st, k, fn=fn: k(VFunc("opaque", name=name, apply=fn), st)
        method("_trait", lambda I2, a, kw, st, k: k(NONE if ov == "no-trait" else VElem(self.trait), log(st, ("_trait",) + tuple(a))))
        method("_instance_traits", lambda I2, a, kw, st, k: k(st.ghost["itraits_ref"], st))

        def recursive(I2, a, kw, st, k):
            snap = (st.heap[st.ghost["itraits_ref"].oid].payload, st.heap[st.ghost["dict_ref"].oid].payload)
            return k(VBool(z3.Bool("companion_removed")), log(st, ("remove_trait", a[0], snap)))
        method("remove_trait", recursive)
        cx.elem_attrs["__dict__"] = lambda I2, o, st, k: k(st.ghost["dict_ref"], st)
        # the class-level trait dictionary (declared traits AND cached wildcard resolutions): arbitrary contents
        cx.elem_attrs["__class_traits__"] = lambda I2, o, st, k: k(st.ghost["class_traits_ref"], st)
        cx.elem_attrs["__base_traits__"] = lambda I2, o, st, k: k(st.ghost["class_traits_ref"], st)
        handler = z3.Const("handler", Val)
        self.handler = handler
        cx.elem_attrs["handler"] = lambda I2, o, st, k: k(NONE if ov == "no-handler" else VElem(handler), st)
        cx.elem_attrs["has_items"] = lambda I2, o, st, k: k(VBool(ov == "container-handler"), st)
        cx.elem_attrs["is_mapped"] = lambda I2, o, st, k: k(VBool(ov == "mapped-handler"), st)

    def setup(self, cx, I, ov):
        NONE_T = cx.const("None").t
        self.name = z3.String("name")
        self.IT0, self.D0 = z3.Const("instance_traits", MapV), z3.Const("instance_dict", MapV)
        itref, dref = VRef(cx.new_oid()), VRef(cx.new_oid())
        st = St().put(itref.oid, HObj("dict", self.IT0)).put(dref.oid, HObj("dict", self.D0))
        ctref = VRef(cx.new_oid())
        st = st.put(ctref.oid, HObj("dict", z3.Const("class_traits", MapV)))
        st = st.gset("itraits_ref", itref).gset("dict_ref", dref).gset("class_traits_ref", ctref)
        st = st.assume(self.trait != NONE_T, self.handler != NONE_T)
        self_ref = VElem(z3.Const("self_object", Val))
        return st, [self_ref, VStr(self.name)], {}, dict(itref=itref, dref=dref, witness={"instance trait present": self.IT0[cx.box_str(self.name)] != Opt.none},
                                                         concretise=lambda m: dict(harness="hastraits", family="remove_trait"))

    def post(self, cx, I, ov, info, kind, payload, st):
        if kind == "raise":
            return [("exc-free", z3.BoolVal(False), dict(exception="%s %r" % (payload.cname or payload.sym, payload.origin)))]
        IT1, D1 = st.heap[info["itref"].oid].payload, st.heap[info["dref"].oid].payload
        key = cx.box_str(self.name)
        had = self.IT0[key] != Opt.none
        r = payload.t if isinstance(payload, VBool) else None
        x = z3.Const("x!rt", Val)
        log = st.ghost.get("log", ())
        rec = [e for e in log if e[0] == "remove_trait"]
        out = [("post:only-the-entries-of-this-name-are-deleted", z3.And(z3.ForAll([x], z3.Implies(x != key, IT1[x] == self.IT0[x])),
                                                                        z3.ForAll([x], z3.Implies(x != key, D1[x] == self.D0[x]))))]
        if ov == "no-trait":
            out += [("post:without-a-trait-nothing-is-removed-and-False-is-returned", z3.And(IT1 == self.IT0, D1 == self.D0, z3.Not(r) if r is not None else z3.BoolVal(False))),
                    ("post:no-companion-is-looked-for", z3.BoolVal(not rec))]
            return out
        out += [("post:the-instance-trait-is-gone", IT1[key] == Opt.none),
                ("post:the-stored-value-is-gone-with-it", D1[key] == Opt.none),
                ("post:True-iff-an-instance-trait-was-removed", (r == had) if r is not None else z3.BoolVal(False))]
        suffix = {"container-handler": "_items", "mapped-handler": "_"}.get(ov)
        if suffix is None:
            out.append(("post:no-companion-trait-is-removed", z3.BoolVal(not rec)))
        else:
            ok = len(rec) == 1 and isinstance(rec[0][1], VStr) and rec[0][1].t is not None
            out.append(("post:the-companion-trait-of-the-handler-is-removed-once", z3.BoolVal(bool(ok))))
            if ok:
                out.append(("post:the-companion-is-named-after-the-trait", rec[0][1].t == z3.Concat(self.name, z3.StringVal(suffix))))
                out.append(("post:the-companion-goes-before-the-trait-itself", z3.And(rec[0][2][0] == self.IT0, rec[0][2][1] == self.D0)))
        return out

    def covers(self, cx, ov, info):
        return [("returns", lambda k, p, s: k == "return")]
