"""C11 name computation: the attribute a deferring trait mirrors.

delegate_target(name, prefix, class_prefix), from the documented prefix rules:
  prefix == ''            -> name                     (same name)
  prefix without '*'      -> prefix                   (explicit name)
  'abc*'                  -> 'abc' + name             (prefix + name)
  '*'                     -> class __prefix__ + name  (class prefix + name)
Lemma listener-pattern=target: the extended name the Python side listens to,
  _trait_delegate_name(name, get_delegate_pattern(name, trait)),
equals ' ' + delegate + ':' + delegate_target(...) for the metadata that Delegate.__init__ stores -- the listener must
watch the attribute the C code reads.  The three real functions are executed in sequence."""
import z3

from vc.unit import Contract, register
from vc.pyvc.values import *  # noqa: F401,F403
from vc.pyvc.core import HObj, St, raise_
from vc.pyvc import source


def delegate_target(name, prefix, cprefix):
    n = z3.Length(prefix)
    star = z3.SubString(prefix, n - 1, 1) == z3.StringVal("*")
    return z3.If(prefix == z3.StringVal(""), name,
                 z3.If(z3.Not(star), prefix,
                       z3.If(n > 1, z3.Concat(z3.SubString(prefix, 0, n - 1), name), z3.Concat(cprefix, name))))


def ident(s):
    """attribute names / delegate names: non-empty, no '*', ':' or blank"""
    return z3.And(z3.Length(s) >= 1, *[z3.Not(z3.Contains(s, z3.StringVal(c))) for c in ("*", ":", " ")])


@register
class DelegateInit(Contract):
    path = "traits/trait_types.py"
    qualname = "Delegate.__init__"
    properties = ("C11",)
    class_paths = ("traits/trait_types.py",)
    assumptions = ("A-PY", "z3/cvc5 theory of strings", "TraitType.__init__(**metadata) stores the metadata unchanged (opaque)")

    def configure(self, cx, I, ov):
        class SuperInit(Contract):
            path = "traits/trait_type.py"
            qualname = "TraitType.__init__"

            def summary(self, I2, self_ref, args, kwargs, st, k):
                return k(NONE, st.gset("metadata", dict(kwargs)))
        cx.contracts = dict(cx.contracts)
        cx.contracts[("TraitType", "__init__")] = SuperInit()
        # Delegate's base class chain is read from the AST; its direct base is TraitType
        orig = I.find_method

        def find_method(cls, name, after=None):
            r = orig(cls, name, after)
            if r is None and name == "__init__" and after is not None:
                return ("repo", "TraitType", None)
            return r
        I.find_method = find_method

    def setup(self, cx, I, ov):
        prefix, delegate = z3.String("prefix"), z3.String("delegate")
        st = St().assume(ident(delegate), z3.Not(z3.Contains(z3.SubString(prefix, 0, z3.Length(prefix) - 1), z3.StringVal("*"))),
                         z3.Not(z3.Contains(prefix, z3.StringVal(":"))), z3.Not(z3.Contains(prefix, z3.StringVal(" "))))
        self_ref = VRef(cx.new_oid())
        st = st.put(self_ref.oid, HObj("obj", None, "Delegate", {}))
        def conc(m):
            def sv(t):
                v = m.eval(t, model_completion=True)
                return v.as_string() if z3.is_string_value(v) else str(v)
            fix = lambda s_, d: s_ if s_ else d
            import re
            clean = lambda s_: re.sub(r"[^A-Za-z0-9_*]", "x", s_)
            p_ = clean(sv(prefix))
            p_ = ("p" + p_) if p_ and p_[0].isdigit() else p_
            nm = clean(fix(sv(z3.String("name")), "x")).replace("*", "s")
            nm = ("n" + nm) if nm[0].isdigit() else nm
            return dict(harness="delegate", family="listener", prefix=p_.lower() if p_ != "*" else "*", name=nm.lower(),
                        class_prefix=clean(fix(sv(z3.String("class_prefix")), "c_")).replace("*", "").lower() or "c_")
        return st, [self_ref, VStr(delegate)], dict(prefix=VStr(prefix)), dict(self_ref=self_ref, prefix=prefix, delegate=delegate,
                                                                              witness=dict(prefix=prefix, delegate=delegate), concretise=conc)

    def post(self, cx, I, ov, info, kind, payload, st):
        if kind == "raise":
            return [("exc-free", z3.BoolVal(False), dict(exception="%s %r" % (payload.cname or payload.sym, payload.origin)))]
        prefix = info["prefix"]
        f = st.heap[info["self_ref"].oid].fields
        n = z3.Length(prefix)
        star = z3.SubString(prefix, n - 1, 1) == z3.StringVal("*")
        ptype = z3.If(prefix == z3.StringVal(""), 0, z3.If(z3.Not(star), 1, z3.If(n > 1, 2, 3)))
        out = []
        pt, sp = f.get("prefix_type"), f.get("prefix")
        out.append(("post:prefix-style-classified", pt.t == ptype if isinstance(pt, VInt) else z3.BoolVal(False)))
        # what the compiled delegate_attr_name_* handlers need: the explicit name (style 1) or the text before '*' (style 2)
        want = z3.If(z3.Or(ptype == 2, ptype == 3), z3.SubString(prefix, 0, n - 1), prefix)
        out.append(("post:prefix-for-the-compiled-name-handlers", sp.t == want if isinstance(sp, VStr) and sp.t is not None else z3.BoolVal(False)))
        md = st.ghost.get("metadata", {})
        # ---- lemma: run get_delegate_pattern and _trait_delegate_name (real code) on the stored metadata
        name, cprefix = z3.String("name"), z3.String("class_prefix")
        mp, mdg = md.get("_prefix"), md.get("_delegate")
        if not (isinstance(mp, VStr) and mp.t is not None and isinstance(mdg, VStr) and mdg.t is not None):
            return out + [("lemma:listener-pattern=target", z3.BoolVal(False))]
        spec = z3.Concat(z3.StringVal(" "), info["delegate"], z3.StringVal(":"), delegate_target(name, prefix, cprefix))
        gfn = source.get_function("traits/has_traits.py", "get_delegate_pattern")[0]
        tfn = source.get_function("traits/has_traits.py", "HasTraits._trait_delegate_name")[0]
        trait = VRef(cx.new_oid())
        st2 = st.put(trait.oid, HObj("obj", None, "opaque_trait", {"_prefix": mp, "_delegate": mdg}))
        st2 = st2.assume(ident(name), z3.Not(z3.Contains(cprefix, z3.StringVal("*"))))
        selfobj = VRef(cx.new_oid())
        klass = VRef(cx.new_oid())
        st2 = st2.put(klass.oid, HObj("obj", None, "opaque_class", {"__prefix__": VStr(cprefix)}))
        st2 = st2.put(selfobj.oid, HObj("obj", None, "opaque_hastraits", {"__class__": klass}))
        results = []

        def after_pattern(pattern, st3):
            return I.inline_call(tfn, None, [selfobj, VStr(name), pattern], {}, st3, lambda v, st4: [("final", v, st4)], {})
        for (kd, v, st5) in I.inline_call(gfn, None, [VStr(name), trait], {}, st2, after_pattern, {}):
            g = z3.And(*st5.pc[len(st.pc):]) if len(st5.pc) > len(st.pc) else z3.BoolVal(True)
            if kd == "final" and isinstance(v, VStr) and v.t is not None:
                results.append(z3.Implies(g, v.t == spec))
            else:
                results.append(z3.Not(g))
        out.append(("lemma:listener-pattern=target", z3.And(*results) if results else z3.BoolVal(False),
                    dict(name=name, class_prefix=cprefix)))
        return out

    def covers(self, cx, ov, info):
        return [("constructs", lambda k, p, s: k == "return")]
