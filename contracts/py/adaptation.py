"""C17: adaptation.  Deductive: AdaptationManager.adapt (identity when the type already provides the protocol; otherwise
the search result; AdaptationError / default exactly when there is none), supports_protocol, and the edge comparator
(MRO distance first, then an offer for a strict subclass before one for its base; antisymmetric).
Bounded stand-in (labelled bounded): completeness and minimality of the _adapt search against brute-force path
enumeration on all small offer graphs (bounded/adapt_search.py)."""
import json
import os
import subprocess
import time

import z3

from vc.unit import Contract, register
from vc.pyvc.values import *  # noqa: F401,F403
from vc.pyvc.core import HObj, St, as_val, raise_

PATH = "traits/adaptation/adaptation_manager.py"
provides = z3.Function("provides_protocol", Val, Val, z3.BoolSort())      # issubclass(type_, protocol)
type_of = z3.Function("type_of", Val, Val)


@register
class Adapt(Contract):
    path = PATH
    qualname = "AdaptationManager.adapt"
    properties = ("C17", "C19")
    class_paths = (PATH,)
    overloads = ("raising-default", "explicit-default")
    assumptions = ("A-PY", "_adapt through its contract: returns an adapter, or None when the search finds none (A-CB: may raise)")

    def configure(self, cx, I, ov):
        cx.module_globals["AdaptationError"] = VExcClass("AdaptationError")

        class Provides(Contract):
            path = PATH
            qualname = "AdaptationManager.provides_protocol"

            def summary(self, I2, self_ref, args, kwargs, st, k):
                return k(VBool(provides(as_val(I2.cx, args[0], st), as_val(I2.cx, args[1], st))), st)

        class Search(Contract):
            path = PATH
            qualname = "AdaptationManager._adapt"

            def summary(self, I2, self_ref, args, kwargs, st, k):
                found = z3.Bool("search_finds_a_chain")
                r = z3.Const("adapter", Val)
                st = st.gset("searched", True)
                out = I2.cx.branch(st, found, lambda s: k(VElem(r), s.assume(r != I2.cx.const("None").t)), lambda s: k(NONE, s))
                e = I2.cx.fresh("factory_exc", Exc)
                out.append(("raise", VExc(sym=e, origin=("factory",)), st.assume(*I2.cx.exc_axioms(e))))
                return out
        cx.contracts = dict(cx.contracts)
        cx.contracts[("AdaptationManager", "provides_protocol")] = Provides()
        cx.contracts[("AdaptationManager", "_adapt")] = Search()

        def builtin_hook(I2, name, args, kwargs, st, k):
            if name == "type" and len(args) == 1:
                return k(VElem(type_of(as_val(I2.cx, args[0], st))), st)
            return None
        cx.builtin_hook = builtin_hook

        def construct_hook(I2, name, args, kwargs, st, k):
            if name == "type" and len(args) == 1:
                return k(VElem(type_of(as_val(I2.cx, args[0], st))), st)
            return None
        cx.construct_hook = construct_hook

    def setup(self, cx, I, ov):
        st = St()
        self_ref = VRef(cx.new_oid())
        st = st.put(self_ref.oid, HObj("obj", None, "AdaptationManager", {}))
        adaptee, proto = z3.Consts("adaptee to_protocol", Val)
        st = st.assume(adaptee != cx.const("None").t)
        args = [self_ref, VElem(adaptee), VElem(proto)]
        info = dict(adaptee=adaptee, proto=proto, witness=dict(provided=provides(type_of(adaptee), proto), found=z3.Bool("search_finds_a_chain")))
        if ov == "explicit-default":
            d = z3.Const("default", Val)
            args.append(VElem(d))
            info["default"] = d
        return st, args, {}, info

    def post(self, cx, I, ov, info, kind, payload, st):
        adaptee, proto = info["adaptee"], info["proto"]
        provided = provides(type_of(adaptee), proto)
        found = z3.Bool("search_finds_a_chain")
        if kind == "raise":
            if payload.cname == "AdaptationError":
                return [("raise:AdaptationError-iff-no-chain-and-no-default", z3.And(z3.Not(provided), z3.Not(found), z3.BoolVal(ov == "raising-default")))]
            return [("raise:only-a-factory-error-propagates", z3.BoolVal(isinstance(payload.origin, tuple) and payload.origin[0] == "factory"))]
        r = as_val(cx, payload, st)
        out = [("post:the-object-itself-when-it-already-provides-the-protocol", z3.Implies(provided, z3.And(r == adaptee, z3.BoolVal(not st.ghost.get("searched"))))),
               ("post:the-adapter-found-by-the-search", z3.Implies(z3.And(z3.Not(provided), found), r == z3.Const("adapter", Val)))]
        if ov == "explicit-default":
            out.append(("post:the-supplied-default-iff-there-is-no-chain", z3.Implies(z3.And(z3.Not(provided), z3.Not(found)), r == info["default"])))
        else:
            out.append(("post:no-normal-return-without-a-chain", z3.Or(provided, found)))
        return out

    def covers(self, cx, ov, info):
        return [("returns", lambda k, p, s: k == "return")]

    def bounded_check(self, tier, seed):
        return adapt_search(tier, seed)


@register
class EdgeComparator(Contract):
    path = PATH
    qualname = "_by_weight_then_from_protocol_specificity"
    properties = ("C17",)
    assumptions = ("A-PY", "issubclass is a partial order on classes")

    def configure(self, cx, I, ov):
        sub = z3.Function("issubclass", Val, Val, z3.BoolSort())
        self.sub = sub
        cx.elem_attrs["from_protocol"] = lambda I2, o, st, k: k(VElem(z3.Function("from_protocol", Val, Val)(o.t)), st)

        MRO = z3.Function("mro", Val, SeqV)

        def builtin_hook(I2, name, args, kwargs, st, k):
            if name == "issubclass":
                return k(VBool(sub(as_val(I2.cx, args[0], st), as_val(I2.cx, args[1], st))), st)
            if name == "inspect.getmro":
                # the linearised bases: every member is a superclass, but a class registered with an ABC
                # (issubclass true) is NOT in the MRO -- specificity in C17 is the subclass relation, not MRO membership
                c_ = as_val(I2.cx, args[0], st)
                x = z3.Const("x!mro", Val)
                I2.cx.axioms.append(z3.And(z3.ForAll([x], z3.Implies(z3.Contains(MRO(c_), z3.Unit(x)), sub(c_, x))),
                                           z3.Length(MRO(c_)) >= 1, MRO(c_)[0] == c_))
                r = VRef(I2.cx.new_oid())
                return k(r, st.put(r.oid, HObj("tuple", MRO(c_))))
            return None
        cx.builtin_hook = builtin_hook
        orig_ma = I.bi.module_attr
        I.bi.module_attr = lambda mod, name: VFunc("builtin", name="inspect.getmro") if (mod, name) == ("inspect", "getmro") else orig_ma(mod, name)
        a, b, c = z3.Consts("a!po b!po c!po", Val)
        cx.axioms += [z3.ForAll([a], sub(a, a)), z3.ForAll([a, b], z3.Implies(z3.And(sub(a, b), sub(b, a)), a == b))]

    def setup(self, cx, I, ov):
        d1, d2 = z3.Ints("mro_distance_1 mro_distance_2")
        o1, o2 = z3.Consts("offer_1 offer_2", Val)
        return St(), [VTuple([VInt(d1), VElem(o1)]), VTuple([VInt(d2), VElem(o2)])], {}, dict(
            d1=d1, d2=d2, o1=o1, o2=o2, witness=dict(mro_distance_1=d1, mro_distance_2=d2))

    def post(self, cx, I, ov, info, kind, payload, st):
        if kind == "raise" or not isinstance(payload, VInt):
            return [("exc-free", z3.BoolVal(False))]
        d1, d2 = info["d1"], info["d2"]
        fp = z3.Function("from_protocol", Val, Val)
        p1, p2 = fp(info["o1"]), fp(info["o2"])
        sub = self.sub
        r = payload.t
        return [("post:smaller-mro-distance-first", z3.And(z3.Implies(d1 < d2, r < 0), z3.Implies(d1 > d2, r > 0))),
                ("post:more-specific-source-type-first", z3.Implies(d1 == d2, z3.And(
                    z3.Implies(z3.And(p1 != p2, sub(p1, p2)), r < 0), z3.Implies(z3.And(p1 != p2, sub(p2, p1)), r > 0),
                    z3.Implies(z3.Or(p1 == p2, z3.And(z3.Not(sub(p1, p2)), z3.Not(sub(p2, p1)))), r == 0))))]

    def covers(self, cx, ov, info):
        return [("compares", lambda k, p, s: k == "return")]


def adapt_search(tier, seed):
    root = os.path.dirname(os.path.dirname(os.path.dirname(os.path.abspath(__file__))))
    helper = os.path.join(root, "bounded", "adapt_search.py")
    repo = os.environ.get("VERIF_REPO", "/repo")
    t0 = time.time()
    env = dict(os.environ)
    scratch = None
    if repo != "/repo":
        from vc import replayer
        scratch = repo = replayer.scratch_tree()          # overlay trees may be partial: complete package for the helper
    env["PYTHONPATH"] = repo if os.path.exists(os.path.join(repo, "traits", "__init__.py")) else "/repo"
    try:
        p = subprocess.run(["/venv/bin/python", helper, "3" if tier == "quick" else "4", str(seed)], capture_output=True, text=True, env=env)
    finally:
        if scratch:
            import shutil
            shutil.rmtree(scratch, ignore_errors=True)
    try:
        res = json.loads(p.stdout.strip().splitlines()[-1])
    except Exception:
        res = dict(error=(p.stderr or p.stdout)[-1000:], cases=0, violations=[])
    out = dict(what="AdaptationManager.adapt vs brute-force enumeration of offer chains: existence, None-returning factories, minimal chain length, "
                    "subclass preference among single steps", label="bounded",
               bound=res.get("bound", "?"), cases=res.get("cases", 0), secs=round(time.time() - t0, 1), violations=[])
    if res.get("error"):
        out["error"] = res["error"]
    if res.get("violations"):
        os.makedirs(os.path.join(root, "replays", "C17"), exist_ok=True)
        path = os.path.join(root, "replays", "C17", "adapt_search.json")
        json.dump(dict(property="C17", obligation="bounded:adapt-search", replay=dict(reproduced=True, violated=res["violations"][:20])),
                  open(path, "w"), indent=1)
        out["violations"] = [path]
    return out


# ------------------------------------------------------------------------------------------------------------------
# which offers apply: mro_distance_to_protocol and _get_applicable_offers
# ------------------------------------------------------------------------------------------------------------------
@register
class MroDistance(Contract):
    """mro_distance_to_protocol(from_type, to_protocol): None iff the type does not provide the protocol NOW, else the number
    of leading superclasses (MRO order, the type itself excluded) that still provide it.  'iff there is a sequence of applicable
    offers': whether an offer applies is decided from the class relations as they are at the time of the call -- a class can be
    registered with an ABC / Interface at any moment -- so the answer must not be memoised."""
    path = PATH
    qualname = "AdaptationManager.mro_distance_to_protocol"
    properties = ("C17",)
    class_paths = (PATH,)
    assumptions = ("A-PY", "provides_protocol(type, protocol) is issubclass as it is at the time of each call (an uninterpreted relation here)",
                   "inspect.getmro(type): a finite sequence starting with the type itself")

    def configure(self, cx, I, ov):
        cx.const("None")
        self.MRO = z3.Function("mro", Val, SeqV)

        def builtin_hook(I2, name, args, kwargs, st, k):
            if name == "inspect.getmro":
                c_ = as_val(I2.cx, args[0], st)
                r = VRef(I2.cx.new_oid())
                return k(r, st.put(r.oid, HObj("tuple", self.MRO(c_))).assume(z3.Length(self.MRO(c_)) >= 1, self.MRO(c_)[0] == c_))
            return None
        cx.builtin_hook = builtin_hook
        orig_ma = I.bi.module_attr
        I.bi.module_attr = lambda mod, name: VFunc("builtin", name="inspect.getmro") if (mod, name) == ("inspect", "getmro") else orig_ma(mod, name)

        def call_hook(I2, fv, args, kwargs, st, k):
            if isinstance(fv, VFunc) and fv.kind == "unbound_repo" and fv.name == "provides_protocol" and len(args) == 2:
                return k(VBool(provides(as_val(I2.cx, args[0], st), as_val(I2.cx, args[1], st))), st.gset("asked", st.ghost.get("asked", 0) + 1))
            return None
        cx.call_hook = call_hook
        from vc.pyvc import loops

        def inv(i, view, st):
            S = z3.Extract(self.MRO(self.from_type), 1, z3.Length(self.MRO(self.from_type)) - 1)
            j = z3.Int("j!md")
            d = st.env["distance"]
            return [("distance-counts-the-supertypes-so-far-all-of-which-provide-the-protocol", z3.And(
                d.t == i, z3.ForAll([j], z3.Implies(z3.And(0 <= j, j < i), provides(S[j], self.to_protocol)))))]
        cx.on_loop = loops.make_hook({0: loops.LoopSpec("for t in supertypes", [], inv)})
        orig_inv = inv

    def setup(self, cx, I, ov):
        self.from_type, self.to_protocol = z3.Consts("from_type to_protocol", Val)
        st = St()
        return st, [VElem(self.from_type), VElem(self.to_protocol)], {}, dict(witness={"provides now": provides(self.from_type, self.to_protocol)},
                                                                                   concretise=lambda m: dict(harness="adaptation", family="late_registration"))

    def post(self, cx, I, ov, info, kind, payload, st):
        from vc.pyvc import source
        if kind == "raise":
            return [("exc-free", z3.BoolVal(False))]
        fn = source.get_function(self.path, self.qualname)[0]
        decos = [ast_unparse(d) for d in fn.decorator_list]
        S = z3.Extract(self.MRO(self.from_type), 1, z3.Length(self.MRO(self.from_type)) - 1)
        p0 = provides(self.from_type, self.to_protocol)
        out = [("post:the-answer-is-recomputed-from-the-current-class-relations-at-every-call-(no-memoisation)", z3.BoolVal(decos == ["staticmethod"]),
                dict(decorators=str(decos))),
               ("post:the-protocol-test-is-actually-made", z3.BoolVal(st.ghost.get("asked", 0) >= 1))]
        if isinstance(payload, VNone):
            out.append(("post:None-iff-the-type-does-not-provide-the-protocol", z3.Not(p0)))
            return out
        d = payload.t if isinstance(payload, VInt) else None
        if d is None:
            return out + [("post:distance-is-an-integer-or-None", z3.BoolVal(False))]
        j = z3.Int("j!mdp")
        n = z3.Length(S)
        out += [("post:None-iff-the-type-does-not-provide-the-protocol", p0),
                ("post:distance-is-the-number-of-leading-supertypes-that-provide-the-protocol", z3.And(
                    0 <= d, d <= n, z3.ForAll([j], z3.Implies(z3.And(0 <= j, j < d), provides(S[j], self.to_protocol))),
                    z3.Implies(d < n, z3.Not(provides(S[d], self.to_protocol)))))]
        return out

    def covers(self, cx, ov, info):
        return [("provides", lambda k, p, s: k == "return" and isinstance(p, VInt)), ("does-not-provide", lambda k, p, s: k == "return" and isinstance(p, VNone))]


def ast_unparse(node):
    import ast
    return ast.unparse(node)


@register
class GetApplicableOffers(Contract):
    """_get_applicable_offers(current_protocol, path): exactly the registered offers whose source protocol the current protocol
    provides NOW (mro_distance_to_protocol, through its contract, not None), each with that distance, EXCEPT the offers already
    used on the path ('each used at most once'); nothing is registered, removed or reordered.
    Shape: two source protocols with two offers each (loops unrolled; contents symbolic)."""
    path = PATH
    qualname = "AdaptationManager._get_applicable_offers"
    properties = ("C17",)
    class_paths = (PATH,)
    assumptions = ("A-PY", "mro_distance_to_protocol through its contract", "bounded shape: 2 source protocols x 2 offers, loops unrolled (contents symbolic)")

    def configure(self, cx, I, ov):
        cx.const("None")
        self.cur = z3.Const("current_protocol", Val)
        self.protos = [z3.Const("from_protocol_%d" % i, Val) for i in range(2)]
        self.offers = {(i, j): z3.Const("offer_%d_%d" % (i, j), Val) for i in range(2) for j in range(2)}
        self.dist = z3.Function("mro_distance", Val, Val, z3.IntSort())
        self.on_path = z3.Const("offers_on_the_path", SeqV)
        outer = self

        class Dist(Contract):
            path = PATH
            qualname = "AdaptationManager.mro_distance_to_protocol"

            def summary(self_, I2, self_ref, args, kwargs, st, k):
                a, b = as_val(I2.cx, args[0], st), as_val(I2.cx, args[1], st)
                st2 = st.gset("asked", st.ghost.get("asked", ()) + ((a, b),))
                return I2.cx.branch(st2, provides(a, b), lambda s: k(VInt(outer.dist(a, b)), s.assume(outer.dist(a, b) >= 0)), lambda s: k(NONE, s))
        cx.contracts = dict(cx.contracts)
        cx.contracts[("AdaptationManager", "mro_distance_to_protocol")] = Dist()

        def call_hook(I2, fv, args, kwargs, st, k):
            if isinstance(fv, VFunc) and fv.kind == "unbound_repo" and fv.name == "mro_distance_to_protocol":
                return Dist().summary(I2, None, args, kwargs, st, k)
            return None
        cx.call_hook = call_hook
        cx.elem_attrs["from_protocol"] = lambda I2, o, st, k: k(VElem(z3.Function("from_protocol_of", Val, Val)(o.t)), st)

    def setup(self, cx, I, ov):
        st = St()
        self_ref = VRef(cx.new_oid())
        fp = z3.Function("from_protocol_of", Val, Val)
        buckets = []
        for i in range(2):
            r = VRef(cx.new_oid())
            st = st.put(r.oid, HObj("list", z3.Concat(z3.Unit(self.offers[(i, 0)]), z3.Unit(self.offers[(i, 1)])), None, None,
                                    {"pyitems": [VElem(self.offers[(i, 0)]), VElem(self.offers[(i, 1)])]}))
            buckets.append(r)
            st = st.assume(fp(self.offers[(i, 0)]) == self.protos[i], fp(self.offers[(i, 1)]) == self.protos[i])
        table = VTuple([VTuple([VStr(const="name%d" % i), buckets[i]]) for i in range(2)])

        def items_apply(I2, a, kw, s, kk):
            return kk(table, s)
        offers_obj = VRef(cx.new_oid())
        st = st.put(offers_obj.oid, HObj("obj", None, None, {"items": VFunc("opaque", name="items", apply=items_apply)}))
        st = st.put(self_ref.oid, HObj("obj", None, "AdaptationManager", {"_adaptation_offers": offers_obj}))
        pref = VRef(cx.new_oid())
        st = st.put(pref.oid, HObj("list", self.on_path))
        st = st.assume(z3.Distinct(*self.offers.values()), self.protos[0] != self.protos[1])
        return st, [self_ref, VElem(self.cur), pref], {}, dict(witness={})

    def post(self, cx, I, ov, info, kind, payload, st):
        if kind == "raise":
            return [("exc-free", z3.BoolVal(False), dict(exception="%s %r" % (payload.cname or payload.sym, payload.origin)))]
        if not isinstance(payload, VRef):
            return [("post:returns-the-list-of-edges", z3.BoolVal(False))]
        h = st.heap[payload.oid]
        edges = h.payload
        # expected: in registration order, every offer of an applicable bucket that is not on the path, paired with the distance
        exp = EMPTY_SEQ
        for i in range(2):
            for j in range(2):
                o = self.offers[(i, j)]
                on_path = z3.Contains(self.on_path, z3.Unit(o))
                pair = cx.box_tuple([cx.box_int(self.dist(self.cur, self.protos[i])), o])
                exp = z3.Concat(exp, z3.If(z3.And(provides(self.cur, self.protos[i]), z3.Not(on_path)), z3.Unit(pair), EMPTY_SEQ))
        return [("post:exactly-the-applicable-offers-not-yet-on-the-path-each-with-its-distance-in-registration-order", edges == exp)]

    def covers(self, cx, ov, info):
        return [("returns", lambda k, p, s: k == "return")]
