"""C16 (handler level only): the legacy on_trait_change extended-name listeners satisfy the same delta law as the
observe maintainers (C08): when an intermediate link changes, the rest of the chain is unregistered from what left and
registered on what arrived -- each object exactly once (duplicates counted), everything that left before anything that
arrived.  Agreement with observe on unshared graphs then follows from both systems meeting this delta spec plus an
induction over histories that is not machine-checked.  ListenerParser, WeakIDKeyDict and deferred registration are
not covered (DESIGN 6 C16)."""
import z3

from vc.unit import Contract, register
from vc.pyvc.values import *  # noqa: F401,F403
from vc.pyvc.core import HObj, St, as_val, raise_
from vc.pyvc import loops
from contracts.py.observe_core import bag, bag_axioms, bag_inc, ZERO

PATH = "traits/traits_listener.py"


def next_link(cx):
    """self.next: the rest of the listener chain; register / unregister are logged into two ghost multisets"""
    def method(key):
        def h(I, o, st, k):
            def apply(I2, a, kw, s, kk):
                x = as_val(I2.cx, a[0], s)
                s2 = s.gset(key, bag_inc(s.ghost[key], x)).gset("calls", s.ghost.get("calls", ()) + ((key, x),))
                if key == "unregistered":
                    s2 = s2.gset("order_ok", z3.And(s.ghost["order_ok"], s.ghost["registered"] == ZERO))
                return kk(VTuple([NONE, NONE]), s2)
            return k(VFunc("opaque", name=key, apply=apply), st)
        return h
    cx.elem_attrs["unregister"] = method("unregistered")
    cx.elem_attrs["register"] = method("registered")


def listener_self(cx):
    st = St().gset("unregistered", ZERO).gset("registered", ZERO).gset("order_ok", z3.BoolVal(True))
    self_ref = VRef(cx.new_oid())
    st = st.put(self_ref.oid, HObj("obj", None, "ListenerItem", {"next": VElem(z3.Const("next_link", Val))}))
    return st, self_ref


@register
class HandleSimple(Contract):
    path = PATH
    qualname = "ListenerItem.handle_simple"
    properties = ("C16",)
    class_paths = (PATH,)
    assumptions = ("A-PY",)

    def configure(self, cx, I, ov):
        next_link(cx)

    def setup(self, cx, I, ov):
        st, self_ref = listener_self(cx)
        obj, old, new = z3.Consts("object old new", Val)
        return st, [self_ref, VElem(obj), VStr(z3.String("name")), VElem(old), VElem(new)], {}, dict(old=old, new=new, witness={})

    def post(self, cx, I, ov, info, kind, payload, st):
        if kind == "raise":
            return [("exc-free", z3.BoolVal(False))]
        calls = st.ghost.get("calls", ())
        ok = len(calls) == 2 and calls[0][0] == "unregistered" and calls[1][0] == "registered"
        out = [("post:unregister-old-then-register-new-once-each", z3.BoolVal(ok))]
        if ok:
            out.append(("post:old-leaves-new-arrives", z3.And(calls[0][1] == info["old"], calls[1][1] == info["new"])))
        return out

    def covers(self, cx, ov, info):
        return [("handles", lambda k, p, s: k == "return")]


@register
class HandleList(Contract):
    path = PATH
    qualname = "ListenerItem.handle_list"
    properties = ("C16",)
    class_paths = (PATH,)
    overloads = ("old-list", "old-none")
    assumptions = ("A-PY", "old / new are finite sequences of items")

    def configure(self, cx, I, ov):
        next_link(cx)
        cx.const("Uninitialized")
        old, new = z3.Const("old_items", SeqV), z3.Const("new_items", SeqV)
        self.old, self.new = old, new

        def inv_for(seq, key):
            def inv(i, view, st):
                pre, nxt = z3.Extract(seq, 0, i), z3.Extract(seq, 0, i + 1)
                bag_axioms(cx, pre)
                bag_axioms(cx, nxt)
                cx.axioms.append(z3.Implies(z3.And(0 <= i, i < z3.Length(seq)), z3.And(z3.Extract(nxt, 0, i) == pre, nxt[i] == seq[i], z3.Length(nxt) == i + 1)))
                cx.axioms.append(z3.Extract(seq, 0, z3.Length(seq)) == seq)
                return [("%s-is-the-prefix-processed" % key, st.ghost[key] == bag(pre)), ("order", st.ghost["order_ok"])]
            return inv
        cx.on_loop = loops.make_hook({
            0: loops.LoopSpec("for obj in old", [], inv_for(old, "unregistered"), ghost=["unregistered", "order_ok"]),
            1: loops.LoopSpec("for obj in new", [], inv_for(new, "registered"), ghost=["registered", "order_ok"])})

    def setup(self, cx, I, ov):
        st, self_ref = listener_self(cx)
        bag_axioms(cx, self.old)
        bag_axioms(cx, self.new)
        oref, nref = VRef(cx.new_oid()), VRef(cx.new_oid())
        st = st.put(oref.oid, HObj("list", self.old)).put(nref.oid, HObj("list", self.new))
        oldv = oref if ov == "old-list" else NONE
        return st, [self_ref, VElem(z3.Const("object", Val)), VStr(z3.String("name")), oldv, nref], {}, dict(witness=dict(old=self.old, new=self.new))

    def post(self, cx, I, ov, info, kind, payload, st):
        if kind == "raise":
            return [("exc-free", z3.BoolVal(False))]
        exp_old = bag(self.old) if ov == "old-list" else ZERO
        return [("post:every-item-that-left-unregistered-once", st.ghost["unregistered"] == exp_old),
                ("post:every-item-that-arrived-registered-once", st.ghost["registered"] == bag(self.new)),
                ("post:unregister-before-register", st.ghost["order_ok"])]

    def covers(self, cx, ov, info):
        return [("handles", lambda k, p, s: k == "return")]


@register
class HandleListItems(Contract):
    path = PATH
    qualname = "ListenerItem.handle_list_items"
    properties = ("C16",)
    class_paths = (PATH,)
    assumptions = ("A-PY", "handle_list through its contract")

    def configure(self, cx, I, ov):
        rem, add = z3.Consts("event_removed event_added", Val)
        cx.elem_attrs["removed"] = lambda I2, o, st, k: k(VElem(rem), st)
        cx.elem_attrs["added"] = lambda I2, o, st, k: k(VElem(add), st)

        class HL(Contract):
            path = PATH
            qualname = "ListenerItem.handle_list"

            def summary(self, I2, self_ref, args, kwargs, st, k):
                return k(NONE, st.gset("delegated", st.ghost.get("delegated", ()) + (tuple(args),)))
        cx.contracts = dict(cx.contracts)
        cx.contracts[("ListenerItem", "handle_list")] = HL()

    def setup(self, cx, I, ov):
        st, self_ref = listener_self(cx)
        return st, [self_ref, VElem(z3.Const("object", Val)), VStr(z3.String("name")), VElem(z3.Const("old", Val)), VElem(z3.Const("event", Val))], {}, dict(witness={})

    def post(self, cx, I, ov, info, kind, payload, st):
        d = st.ghost.get("delegated", ())
        if kind == "raise" or len(d) != 1:
            return [("post:delegates-once-to-handle_list", z3.BoolVal(False))]
        a = d[0]
        rem, add = z3.Consts("event_removed event_added", Val)
        return [("post:removed-items-leave-added-items-arrive", z3.And(as_val(cx, a[2], st) == rem, as_val(cx, a[3], st) == add))]
