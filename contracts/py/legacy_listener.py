"""C16 (handler level only): the legacy on_trait_change extended-name listeners satisfy the same delta law as the
observe maintainers (C08): when an intermediate link changes, the rest of the chain is unregistered from what left and
registered on what arrived -- each object exactly once (duplicates counted), everything that left before anything that
arrived.  Agreement with observe on unshared graphs then follows from both systems meeting this delta spec plus an
induction over histories that is not machine-checked.  ListenerParser, WeakIDKeyDict and deferred registration are
not covered (DESIGN 6 C16)."""
import z3

from vc.unit import Contract, register
from vc.pyvc.values import *  # noqa: F401,F403
from vc.pyvc.core import HObj, St, as_val, raise_
from vc.pyvc import loops
from contracts.py.observe_core import bag, bag_axioms, bag_inc, ZERO

PATH = "traits/traits_listener.py"


def next_link(cx):
    """self.next: the rest of the listener chain; register / unregister are logged into two ghost multisets"""
    def method(key):
        def h(I, o, st, k):
            def apply(I2, a, kw, s, kk):
                x = as_val(I2.cx, a[0], s)
                s2 = s.gset(key, bag_inc(s.ghost[key], x)).gset("calls", s.ghost.get("calls", ()) + ((key, x),))
                if key == "unregistered":
                    s2 = s2.gset("order_ok", z3.And(s.ghost["order_ok"], s.ghost["registered"] == ZERO))
                return kk(VTuple([NONE, NONE]), s2)
            return k(VFunc("opaque", name=key, apply=apply), st)
        return h
    cx.elem_attrs["unregister"] = method("unregistered")
    cx.elem_attrs["register"] = method("registered")


def listener_self(cx):
    st = St().gset("unregistered", ZERO).gset("registered", ZERO).gset("order_ok", z3.BoolVal(True))
    self_ref = VRef(cx.new_oid())
    st = st.put(self_ref.oid, HObj("obj", None, "ListenerItem", {"next": VElem(z3.Const("next_link", Val))}))
    return st, self_ref


@register
class HandleSimple(Contract):
    undecided_probe = dict(harness="observe", family="legacy", trials=80)      # legacy-vs-observe oracle on unshared graphs
    path = PATH
    qualname = "ListenerItem.handle_simple"
    properties = ("C16",)
    class_paths = (PATH,)
    assumptions = ("A-PY",)

    def configure(self, cx, I, ov):
        next_link(cx)

    def setup(self, cx, I, ov):
        st, self_ref = listener_self(cx)
        obj, old, new = z3.Consts("object old new", Val)
        return st, [self_ref, VElem(obj), VStr(z3.String("name")), VElem(old), VElem(new)], {}, dict(old=old, new=new, witness={}, concretise=lambda m: dict(harness="observe", family="legacy", trials=80))

    def post(self, cx, I, ov, info, kind, payload, st):
        if kind == "raise":
            return [("exc-free", z3.BoolVal(False))]
        calls = st.ghost.get("calls", ())
        ok = len(calls) == 2 and calls[0][0] == "unregistered" and calls[1][0] == "registered"
        out = [("post:unregister-old-then-register-new-once-each", z3.BoolVal(ok))]
        if ok:
            out.append(("post:old-leaves-new-arrives", z3.And(calls[0][1] == info["old"], calls[1][1] == info["new"])))
        return out

    def covers(self, cx, ov, info):
        return [("handles", lambda k, p, s: k == "return")]


@register
class HandleList(Contract):
    undecided_probe = dict(harness="observe", family="legacy", trials=80)      # legacy-vs-observe oracle on unshared graphs
    path = PATH
    qualname = "ListenerItem.handle_list"
    properties = ("C16",)
    class_paths = (PATH,)
    overloads = ("old-list", "old-none")
    assumptions = ("A-PY", "old / new are finite sequences of items")

    def configure(self, cx, I, ov):
        next_link(cx)
        cx.const("Uninitialized")
        old, new = z3.Const("old_items", SeqV), z3.Const("new_items", SeqV)
        self.old, self.new = old, new

        def inv_for(seq, key):
            def inv(i, view, st):
                pre, nxt = z3.Extract(seq, 0, i), z3.Extract(seq, 0, i + 1)
                bag_axioms(cx, pre)
                bag_axioms(cx, nxt)
                cx.axioms.append(z3.Implies(z3.And(0 <= i, i < z3.Length(seq)), z3.And(z3.Extract(nxt, 0, i) == pre, nxt[i] == seq[i], z3.Length(nxt) == i + 1)))
                cx.axioms.append(z3.Extract(seq, 0, z3.Length(seq)) == seq)
                return [("%s-is-the-prefix-processed" % key, st.ghost[key] == bag(pre)), ("order", st.ghost["order_ok"])]
            return inv
        cx.on_loop = loops.make_hook({
            0: loops.LoopSpec("for obj in old", [], inv_for(old, "unregistered"), ghost=["unregistered", "order_ok"]),
            1: loops.LoopSpec("for obj in new", [], inv_for(new, "registered"), ghost=["registered", "order_ok"])})

    def setup(self, cx, I, ov):
        st, self_ref = listener_self(cx)
        bag_axioms(cx, self.old)
        bag_axioms(cx, self.new)
        oref, nref = VRef(cx.new_oid()), VRef(cx.new_oid())
        st = st.put(oref.oid, HObj("list", self.old)).put(nref.oid, HObj("list", self.new))
        oldv = oref if ov == "old-list" else NONE
        return st, [self_ref, VElem(z3.Const("object", Val)), VStr(z3.String("name")), oldv, nref], {}, dict(witness=dict(old=self.old, new=self.new), concretise=lambda m: dict(harness="observe", family="legacy", trials=80))

    def post(self, cx, I, ov, info, kind, payload, st):
        if kind == "raise":
            return [("exc-free", z3.BoolVal(False))]
        exp_old = bag(self.old) if ov == "old-list" else ZERO
        return [("post:every-item-that-left-unregistered-once", st.ghost["unregistered"] == exp_old),
                ("post:every-item-that-arrived-registered-once", st.ghost["registered"] == bag(self.new)),
                ("post:unregister-before-register", st.ghost["order_ok"])]

    def covers(self, cx, ov, info):
        return [("handles", lambda k, p, s: k == "return")]


@register
class HandleListItems(Contract):
    undecided_probe = dict(harness="observe", family="legacy", trials=80)      # legacy-vs-observe oracle on unshared graphs
    path = PATH
    qualname = "ListenerItem.handle_list_items"
    properties = ("C16",)
    class_paths = (PATH,)
    assumptions = ("A-PY", "handle_list through its contract")

    def configure(self, cx, I, ov):
        rem, add = z3.Consts("event_removed event_added", Val)
        cx.elem_attrs["removed"] = lambda I2, o, st, k: k(VElem(rem), st)
        cx.elem_attrs["added"] = lambda I2, o, st, k: k(VElem(add), st)

        class HL(Contract):
            path = PATH
            qualname = "ListenerItem.handle_list"

            def summary(self, I2, self_ref, args, kwargs, st, k):
                return k(NONE, st.gset("delegated", st.ghost.get("delegated", ()) + (tuple(args),)))
        cx.contracts = dict(cx.contracts)
        cx.contracts[("ListenerItem", "handle_list")] = HL()

    def setup(self, cx, I, ov):
        st, self_ref = listener_self(cx)
        return st, [self_ref, VElem(z3.Const("object", Val)), VStr(z3.String("name")), VElem(z3.Const("old", Val)), VElem(z3.Const("event", Val))], {}, dict(witness={}, concretise=lambda m: dict(harness="observe", family="legacy", trials=80))

    def post(self, cx, I, ov, info, kind, payload, st):
        d = st.ghost.get("delegated", ())
        if kind == "raise" or len(d) != 1:
            return [("post:delegates-once-to-handle_list", z3.BoolVal(False))]
        a = d[0]
        rem, add = z3.Consts("event_removed event_added", Val)
        return [("post:removed-items-leave-added-items-arrive", z3.And(as_val(cx, a[2], st) == rem, as_val(cx, a[3], st) == add))]


# ------------------------------------------------------------------------------------------------------------------
# dictionary links
# ------------------------------------------------------------------------------------------------------------------
def seq_prefix_inv(cx, seq, key):
    def inv(i, view, st):
        pre, nxt = z3.Extract(seq, 0, i), z3.Extract(seq, 0, i + 1)
        bag_axioms(cx, pre)
        bag_axioms(cx, nxt)
        cx.axioms.append(z3.Implies(z3.And(0 <= i, i < z3.Length(seq)), z3.And(z3.Extract(nxt, 0, i) == pre, nxt[i] == seq[i], z3.Length(nxt) == i + 1)))
        cx.axioms.append(z3.Extract(seq, 0, z3.Length(seq)) == seq)
        return [("%s-is-the-prefix-processed" % key, st.ghost[key] == bag(pre)), ("order", st.ghost["order_ok"])]
    return inv


@register
class HandleDict(Contract):
    undecided_probe = dict(harness="observe", family="legacy", trials=80)      # legacy-vs-observe oracle on unshared graphs
    """handle_dict(object, name, old, new): every value of the mapping that left is unregistered once, every value of the
    mapping that arrived registered once (values repeated under several keys counted), everything that left first."""
    path = PATH
    qualname = "ListenerItem.handle_dict"
    properties = ("C16",)
    class_paths = (PATH,)
    overloads = ("old-dict", "old-uninitialized")
    assumptions = ("A-PY", "old / new are finite mappings; .values() lists their values")

    def configure(self, cx, I, ov):
        next_link(cx)
        self.UNINIT = cx.const("Uninitialized")
        self.oldm, self.newm = z3.Consts("old_mapping new_mapping", Val)
        self.oldv, self.newv = z3.Const("old_values", SeqV), z3.Const("new_values", SeqV)

        def values_attr(I2, o, st, k):
            seq = self.oldv if o.t.eq(self.oldm) else self.newv if o.t.eq(self.newm) else None
            if seq is None:
                raise Unsupported(".values() of %r" % (o,))

            def apply(I3, a, kw, s, kk):
                ref = VRef(I3.cx.new_oid())
                return kk(ref, s.put(ref.oid, HObj("list", seq)))
            return k(VFunc("opaque", name="values", apply=apply), st)
        cx.elem_attrs["values"] = values_attr
        cx.on_loop = loops.make_hook({
            0: loops.LoopSpec("for obj in old.values()", [], seq_prefix_inv(cx, self.oldv, "unregistered"), ghost=["unregistered", "order_ok"]),
            1: loops.LoopSpec("for obj in new.values()", [], seq_prefix_inv(cx, self.newv, "registered"), ghost=["registered", "order_ok"])})

    def setup(self, cx, I, ov):
        st, self_ref = listener_self(cx)
        bag_axioms(cx, self.oldv)
        bag_axioms(cx, self.newv)
        oldarg = VElem(self.oldm) if ov == "old-dict" else self.UNINIT
        if ov == "old-dict":
            st = st.assume(self.oldm != self.UNINIT.t)
        return st, [self_ref, VElem(z3.Const("object", Val)), VStr(z3.String("name")), oldarg, VElem(self.newm)], {}, dict(
            witness=dict(old=self.oldv, new=self.newv), concretise=lambda m: dict(harness="observe", family="legacy", trials=80))

    def post(self, cx, I, ov, info, kind, payload, st):
        if kind == "raise":
            return [("exc-free", z3.BoolVal(False))]
        exp_old = bag(self.oldv) if ov == "old-dict" else ZERO
        return [("post:every-value-that-left-unregistered-once", st.ghost["unregistered"] == exp_old),
                ("post:every-value-that-arrived-registered-once", st.ghost["registered"] == bag(self.newv)),
                ("post:unregister-before-register", st.ghost["order_ok"])]

    def covers(self, cx, ov, info):
        return [("handles", lambda k, p, s: k == "return")]


@register
class HandleDictItems(Contract):
    undecided_probe = dict(harness="observe", family="legacy", trials=80)      # legacy-vs-observe oracle on unshared graphs
    """handle_dict_items(object, name, old, event): the values under removed keys leave and those under added keys arrive
    (one delegation to handle_dict), AND for every changed key the previous value leaves and the value now stored under
    that key arrives -- whatever else the same event carries (a single update() both adds and replaces)."""
    path = PATH
    qualname = "ListenerItem.handle_dict_items"
    properties = ("C16",)
    class_paths = (PATH,)
    assumptions = ("A-PY", "handle_dict through its contract", "event.changed is a finite mapping key -> previous value; "
                   "getattr(object, <dict trait name>)[key] is the value now stored under key")

    def configure(self, cx, I, ov):
        next_link(cx)
        self.rem, self.add, self.chg = z3.Consts("event_removed event_added event_changed", Val)
        self.ck, self.cv = z3.Const("changed_keys", SeqV), z3.Const("changed_old_values", SeqV)
        self.now = z3.Function("value_now_under", Val, Val)
        self.cur = z3.Const("dict_now", Val)
        cx.elem_attrs["removed"] = lambda I2, o, st, k: k(VElem(self.rem), st)
        cx.elem_attrs["added"] = lambda I2, o, st, k: k(VElem(self.add), st)
        cx.elem_attrs["changed"] = lambda I2, o, st, k: k(VElem(self.chg), st)

        def len_hook(I2, x, st, k):
            if isinstance(x, VElem) and x.t.eq(self.chg):
                return k(VInt(z3.Length(self.ck)), st)
            if isinstance(x, VElem) and (x.t.eq(self.rem) or x.t.eq(self.add)):
                n = z3.Function("mapping_len", Val, z3.IntSort())(x.t)       # any size, independent of the changed part
                return k(VInt(n), st.assume(n >= 0))
            return None
        cx.len_hook = len_hook

        def items_attr(I2, o, st, k):
            if not o.t.eq(self.chg):
                raise Unsupported(".items() of %r" % (o,))
            return k(VFunc("opaque", name="items", apply=lambda I3, a, kw, s, kk: kk(VFunc("pairs", ks=self.ck, vs=self.cv), s)), st)
        cx.elem_attrs["items"] = items_attr

        def dyn_getattr(I2, args, st, k):
            # getattr(object, name): the dict trait's current value (name with a trailing '_items' removed)
            nm = args[1]
            st2 = st.gset("dict_read_as", st.ghost.get("dict_read_as", ()) + (nm.t,))
            return k(VElem(self.cur), st2)
        cx.dyn_getattr_hook = dyn_getattr

        def getitem_hook(I2, obj, key, st, k):
            if isinstance(obj, VElem) and obj.t.eq(self.cur):
                return k(VElem(self.now(as_val(I2.cx, key, st))), st)
            return None
        cx.getitem_hook = getitem_hook

        class HD(Contract):
            path = PATH
            qualname = "ListenerItem.handle_dict"

            def summary(self, I2, self_ref, args, kwargs, st, k):
                return k(NONE, st.gset("delegated", st.ghost.get("delegated", ()) + (tuple(args),)))
        cx.contracts = dict(cx.contracts)
        cx.contracts[("ListenerItem", "handle_dict")] = HD()
        j = z3.Int("j!chg")
        nowseq = z3.Const("changed_new_values", SeqV)
        self.nowseq = nowseq
        cx.axioms.append(z3.Length(nowseq) == z3.Length(self.ck))
        cx.axioms.append(z3.ForAll([j], z3.Implies(z3.And(0 <= j, j < z3.Length(self.ck)), nowseq[j] == self.now(self.ck[j]))))
        cx.axioms.append(z3.Length(self.cv) == z3.Length(self.ck))

        def inv(i, view, st):
            out = []
            for seq, key in ((self.cv, "unregistered"), (nowseq, "registered")):
                pre, nxt = z3.Extract(seq, 0, i), z3.Extract(seq, 0, i + 1)
                bag_axioms(cx, pre)
                bag_axioms(cx, nxt)
                cx.axioms.append(z3.Implies(z3.And(0 <= i, i < z3.Length(seq)), z3.And(z3.Extract(nxt, 0, i) == pre, nxt[i] == seq[i], z3.Length(nxt) == i + 1)))
                cx.axioms.append(z3.Extract(seq, 0, z3.Length(seq)) == seq)
                out.append(("%s-is-the-prefix-processed" % key, st.ghost[key] == bag(pre)))
            return out
        cx.on_loop = loops.make_hook({0: loops.LoopSpec("for (key, obj) in new.changed.items()", [], inv, ghost=["unregistered", "registered", "order_ok"])})

    def setup(self, cx, I, ov):
        st, self_ref = listener_self(cx)
        bag_axioms(cx, self.cv)
        bag_axioms(cx, self.nowseq)
        self.base = z3.String("dict_trait_name")
        name = z3.Concat(self.base, z3.StringVal("_items"))
        return st, [self_ref, VElem(z3.Const("object", Val)), VStr(name), VElem(z3.Const("old", Val)), VElem(z3.Const("event", Val))], {}, dict(
            witness=dict(changed_keys=self.ck, changed_old=self.cv), concretise=lambda m: dict(harness="observe", family="legacy", trials=80))

    def post(self, cx, I, ov, info, kind, payload, st):
        d = st.ghost.get("delegated", ())
        if kind == "raise":
            return [("exc-free", z3.BoolVal(False))]
        mlen = z3.Function("mapping_len", Val, z3.IntSort())
        out = [("post:removed-and-added-values-handled-by-one-delegation-to-handle_dict",
                z3.BoolVal(len(d) == 1) if len(d) != 0 else z3.And(mlen(self.rem) == 0, mlen(self.add) == 0))]
        if len(d) == 1:
            a = d[0]
            out.append(("post:values-under-removed-keys-leave-those-under-added-keys-arrive", z3.And(as_val(cx, a[2], st) == self.rem, as_val(cx, a[3], st) == self.add)))
        out.append(("post:previous-value-of-every-changed-key-unregistered-once", st.ghost["unregistered"] == bag(self.cv)))
        out.append(("post:current-value-of-every-changed-key-registered-once", st.ghost["registered"] == bag(self.nowseq)))
        reads = st.ghost.get("dict_read_as", ())
        out.append(("post:current-values-read-from-the-dict-trait-itself", z3.And(*[r == self.base for r in reads]) if reads else z3.BoolVal(True)))
        return out

    def covers(self, cx, ov, info):
        return [("handles-changed-keys", lambda k, p, s: z3.And(z3.BoolVal(k == "return"), z3.Length(self.ck) > 0)),
                ("no-changed-key", lambda k, p, s: z3.And(z3.BoolVal(k == "return"), z3.Length(self.ck) == 0))]


# ------------------------------------------------------------------------------------------------------------------
# _register_simple: what is attached to one link of an extended name ('.' notifies, ':' does not)
# ------------------------------------------------------------------------------------------------------------------
@register
class RegisterSimple(Contract):
    undecided_probe = dict(harness="observe", family="legacy", trials=80)      # legacy-vs-observe oracle on unshared graphs
    """ListenerItem._register_simple(object, name, remove), the link `name` of an extended name on `object`:

      * LAST link (no next item): the user's handler is attached to (object, name) -- or detached when remove -- with the item's
        dispatch, priority and target; nothing else; (object, name) is returned;
      * INTERMEDIATE link: the maintainer that re-hooks the rest of the chain when the link changes (handle_simple, or
        handle_dst for a destination-style handler) is attached with dispatch 'extended' -- ALWAYS, notify or not;
        the user's handler is attached to the intermediate link itself EXACTLY when the link notifies ('.') and the handler is
        not destination-style: 'Changes to intermediate links are reported for '.' links and not for ':' links';
        every attachment is made with the caller's remove flag (removal mirrors registration);
        then the rest of the chain is unregistered from / registered on the link's CURRENT value, once
        (registration is skipped only for a deferred item whose link has no value yet)."""
    path = PATH
    qualname = "ListenerItem._register_simple"
    properties = ("C16",)
    class_paths = (PATH,)
    overloads = ("last-link", "intermediate/notify", "intermediate/quiet", "intermediate/notify-dst")
    assumptions = ("A-PY", "object._on_trait_change is the legacy attachment primitive (used as a summary); self.handler() yields the user's handler")

    def configure(self, cx, I, ov):
        from vc.pyvc import source
        consts = source.module_constants(PATH)
        for n in ("DST_LISTENER", "SRC_LISTENER", "ANY_LISTENER"):
            if n in consts:
                cx.module_globals[n] = VInt(consts[n]) if isinstance(consts[n], int) else VStr(const=consts[n])
        self.consts = consts
        cx.const("Undefined")
        self.user, self.cur, self.target, self.nxt = z3.Consts("user_handler current_value_of_the_link item_target next_item", Val)
        self.remove, self.deferred, self.has_value = z3.Bool("remove"), z3.Bool("deferred"), z3.Bool("link_has_a_value")
        lg = lambda st, rec: st.gset("log", st.ghost.get("log", ()) + (rec,))

        def otc(I2, o, st, k):
            return k(VFunc("opaque", name="_on_trait_change", apply=lambda I3, a, kw, s, kk: kk(NONE, lg(s, ("attach", tuple(a), dict(kw))))), st)
        cx.elem_attrs["_on_trait_change"] = otc

        def chain(name):
            def h(I2, o, st, k):
                return k(VFunc("opaque", name=name, apply=lambda I3, a, kw, s, kk: kk(VTuple([NONE, NONE]), lg(s, (name, tuple(a))))), st)
            return h
        cx.elem_attrs["register"] = chain("next.register")
        cx.elem_attrs["unregister"] = chain("next.unregister")
        dref_holder = {}

        def dict_attr(I2, o, st, k):
            return k(st.ghost["objdict_ref"], st)
        cx.elem_attrs["__dict__"] = dict_attr
        cx.dyn_getattr_hook = lambda I2, args, st, k: k(VElem(self.cur), lg(st, ("read-link", args[1])))

        class GetTarget(Contract):
            path = PATH
            qualname = "ListenerItem._get_target"

            def summary(self_, I2, self_ref, args, kwargs, st, k):
                return k(VElem(self.target), st)
        cx.contracts = dict(cx.contracts)
        cx.contracts[("ListenerItem", "_get_target")] = GetTarget()
        cx.contracts[("ListenerBase", "_get_target")] = GetTarget()

    def setup(self, cx, I, ov):
        st = St()
        self.name = z3.String("link_name")
        self.obj = z3.Const("object", Val)
        D = z3.Const("object_dict", MapV)
        dref = VRef(cx.new_oid())
        st = st.put(dref.oid, HObj("dict", D)).gset("objdict_ref", dref)
        st = st.assume((D[cx.box_str(self.name)] != Opt.none) == self.has_value)
        self_ref = VRef(cx.new_oid())
        dst = self.consts.get("DST_LISTENER")
        src = self.consts.get("SRC_LISTENER", self.consts.get("ANY_LISTENER"))
        mk = (lambda v: VInt(v)) if isinstance(dst, int) else (lambda v: VStr(const=v))
        fields = {
            "next": NONE if ov == "last-link" else VElem(self.nxt),
            "handler": VFunc("opaque", name="self.handler", apply=lambda I2, a, kw, s, kk: kk(VElem(self.user), s)),
            "notify": VBool(ov in ("intermediate/notify", "intermediate/notify-dst")),
            "type": mk(dst) if ov == "intermediate/notify-dst" else mk(src),
            "dispatch": VStr(const="same"), "priority": VBool(z3.Bool("priority")), "deferred": VBool(self.deferred)}
        st = st.put(self_ref.oid, HObj("obj", None, "ListenerItem", fields))
        st = st.assume(self.user != cx.const("Undefined").t, self.nxt != cx.const("None").t)
        self.self_ref = self_ref
        return st, [self_ref, VElem(self.obj), VStr(self.name), VBool(self.remove)], {}, dict(witness={"remove": self.remove, "deferred": self.deferred})

    def post(self, cx, I, ov, info, kind, payload, st):
        if kind == "raise":
            return [("exc-free", z3.BoolVal(False), dict(exception="%s %r" % (payload.cname or payload.sym, payload.origin)))]
        log = st.ghost.get("log", ())
        att = [r for r in log if r[0] == "attach"]

        def is_user(r):
            return len(r[1]) >= 1 and isinstance(r[1][0], VElem) and r[1][0].t.eq(self.user)

        def is_maint(r, names):
            h = r[1][0] if r[1] else None
            return isinstance(h, VFunc) and h.kind == "bound" and h.name in names and h.self_ref.oid == self.self_ref.oid

        def common_ok(r):
            a, kw = r[1], r[2]
            return z3.And(z3.BoolVal(len(a) == 2 and isinstance(a[1], VStr) and a[1].t is not None and a[1].t.eq(self.name)),
                          kw["remove"].t == self.remove if isinstance(kw.get("remove"), VBool) else z3.BoolVal(False),
                          z3.BoolVal(isinstance(kw.get("target"), VElem) and kw["target"].t.eq(self.target)))
        users = [r for r in att if is_user(r)]
        out = [("post:every-attachment-is-on-this-link-with-the-caller's-remove-flag-and-the-item's-target", z3.And(*[common_ok(r) for r in att]) if att else z3.BoolVal(True))]
        chain = [r for r in log if r[0] in ("next.register", "next.unregister")]
        if ov == "last-link":
            out += [("post:the-user-handler-is-attached-once-and-nothing-else", z3.BoolVal(len(att) == 1 and len(users) == 1)),
                    ("post:with-the-item's-own-dispatch", z3.BoolVal(bool(users) and isinstance(users[0][2].get("dispatch"), VStr) and users[0][2]["dispatch"].const == "same")),
                    ("post:no-further-link-is-walked", z3.BoolVal(not chain))]
            return out
        maint_names = {"intermediate/notify-dst": ("handle_dst",)}.get(ov, ("handle_simple",))
        maint = [r for r in att if is_maint(r, maint_names)]
        out.append(("post:the-maintainer-of-the-link-is-attached-once-with-extended-dispatch", z3.BoolVal(
            len(maint) == 1 and isinstance(maint[0][2].get("dispatch"), VStr) and maint[0][2]["dispatch"].const == "extended")))
        want_user = ov == "intermediate/notify"
        out.append(("post:the-user-handler-hears-the-intermediate-link-iff-it-notifies-('.')-and-is-not-destination-style", z3.BoolVal(len(users) == (1 if want_user else 0))))
        out.append(("post:nothing-else-is-attached", z3.BoolVal(len(att) == len(maint) + len(users))))
        unreg = [r for r in chain if r[0] == "next.unregister"]
        reg = [r for r in chain if r[0] == "next.register"]
        on_current = z3.And(*[z3.BoolVal(len(r[1]) == 1 and isinstance(r[1][0], VElem) and r[1][0].t.eq(self.cur)) for r in chain]) if chain else z3.BoolVal(True)
        out.append(("post:the-rest-of-the-chain-is-walked-on-the-link's-current-value", on_current))
        out.append(("post:removal-unregisters-the-rest-of-the-chain-once", z3.Implies(self.remove, z3.BoolVal(len(unreg) == 1 and not reg))))
        out.append(("post:registration-registers-the-rest-of-the-chain-once-unless-deferred-without-a-value", z3.Implies(
            z3.Not(self.remove), z3.And(z3.BoolVal(not unreg), z3.BoolVal(len(reg) == 1) == z3.Or(z3.Not(self.deferred), self.has_value)))))
        return out

    def covers(self, cx, ov, info):
        return [("registers", lambda k, p, s: z3.And(z3.BoolVal(k == "return"), z3.Not(self.remove))),
                ("removes", lambda k, p, s: z3.And(z3.BoolVal(k == "return"), self.remove))]


@register
class RegisterList(Contract):
    undecided_probe = dict(harness="observe", family="legacy", trials=80)      # legacy-vs-observe oracle on unshared graphs
    """ListenerItem._register_list (also _register_set) for an INTERMEDIATE container link: the two maintainers (handle_list on
    the link, handle_list_items on '<link>_items') are always attached with 'extended' dispatch; the user's handler hears the
    link only when it notifies ('.'); with ':' it is attached nowhere; every attachment carries the caller's remove flag; then
    the rest of the chain is unregistered from (remove) / registered on (add, unless deferred) EVERY current item of the container
    exactly once (duplicates counted)."""
    path = PATH
    qualname = "ListenerItem._register_list"
    properties = ("C16",)
    class_paths = (PATH,)
    overloads = ("intermediate/notify", "intermediate/quiet")
    assumptions = ("A-PY", "object._on_trait_change is the legacy attachment primitive (summary); the link's current value is a finite sequence of items")
    M_LINK, M_ITEMS, LOOP, MAINT_DISPATCH, VALUES = "handle_list", "handle_list_items", "for obj in getattr(object, name)", "extended", False

    def configure(self, cx, I, ov):
        from vc.pyvc import source
        consts = source.module_constants(PATH)
        for n in ("DST_LISTENER", "SRC_LISTENER", "ANY_LISTENER"):
            cx.module_globals[n] = VInt(consts[n])
        cx.module_globals["INVALID_DESTINATION"] = cx.const("INVALID_DESTINATION")
        self.consts = consts
        cx.const("Undefined")
        next_link(cx)
        self.user, self.target, self.nxt = z3.Consts("user_handler item_target next_item", Val)
        self.items = z3.Const("current_items", SeqV)
        self.remove, self.deferred = z3.Bool("remove"), z3.Bool("deferred")
        lg = lambda st, rec: st.gset("log", st.ghost.get("log", ()) + (rec,))
        cx.elem_attrs["_on_trait_change"] = lambda I2, o, st, k: k(VFunc("opaque", name="_on_trait_change", apply=lambda I3, a, kw, s, kk: kk(NONE, lg(s, ("attach", tuple(a), dict(kw))))), st)

        def dyn_getattr(I2, args, st, k):
            r = VRef(I2.cx.new_oid())
            st2 = lg(st.put(r.oid, HObj("list", self.items)), ("read-link", args[1]))
            if self.VALUES:
                # a mapping: the loop runs over its values
                return k(VFunc("valueview", values=VFunc("opaque", name="values", apply=lambda I3, a, kw, s, kk: kk(r, s))), st2)
            return k(r, st2)
        cx.dyn_getattr_hook = dyn_getattr

        def getattr_hook(I2, obj, name, st, k):
            if isinstance(obj, VFunc) and obj.kind == "valueview" and name == "values":
                return k(obj.values, st)
            return None
        cx.getattr_hook = getattr_hook

        class GetTarget(Contract):
            path = PATH
            qualname = "ListenerItem._get_target"

            def summary(self_, I2, self_ref, args, kwargs, st, k):
                return k(VElem(self.target), st)
        cx.contracts = dict(cx.contracts)
        cx.contracts[("ListenerItem", "_get_target")] = GetTarget()
        cx.contracts[("ListenerBase", "_get_target")] = GetTarget()
        seq = self.items

        def inv(i, view, st):
            pre, nxt = z3.Extract(seq, 0, i), z3.Extract(seq, 0, i + 1)
            bag_axioms(cx, pre)
            bag_axioms(cx, nxt)
            cx.axioms.append(z3.Implies(z3.And(0 <= i, i < z3.Length(seq)), z3.And(z3.Extract(nxt, 0, i) == pre, nxt[i] == seq[i], z3.Length(nxt) == i + 1)))
            cx.axioms.append(z3.Extract(seq, 0, z3.Length(seq)) == seq)
            return [("one-walk-per-item-so-far", z3.If(self.remove, z3.And(st.ghost["unregistered"] == bag(pre), st.ghost["registered"] == ZERO),
                                                       z3.And(st.ghost["registered"] == bag(pre), st.ghost["unregistered"] == ZERO)))]
        cx.on_loop = loops.make_hook({0: loops.LoopSpec(self.LOOP, [], inv, ghost=["registered", "unregistered", "order_ok"])})

    def setup(self, cx, I, ov):
        st, _unused = listener_self(cx)
        bag_axioms(cx, self.items)
        self.name = z3.String("link_name")
        self.obj = z3.Const("object", Val)
        self_ref = VRef(cx.new_oid())
        fields = {"next": VElem(self.nxt), "handler": VFunc("opaque", name="self.handler", apply=lambda I2, a, kw, s, kk: kk(VElem(self.user), s)),
                  "notify": VBool(ov == "intermediate/notify"), "type": VInt(self.consts["SRC_LISTENER"]), "is_list_handler": VBool(z3.Bool("is_list_handler")),
                  "dispatch": VStr(const="same"), "priority": VBool(z3.Bool("priority")), "deferred": VBool(self.deferred)}
        st = st.put(self_ref.oid, HObj("obj", None, "ListenerItem", fields))
        st = st.assume(self.user != cx.const("Undefined").t, self.nxt != cx.const("None").t)
        self.self_ref = self_ref
        return st, [self_ref, VElem(self.obj), VStr(self.name), VBool(self.remove)], {}, dict(witness={"remove": self.remove, "deferred": self.deferred},
                                                                                              concretise=lambda m: dict(harness="observe", family="legacy", trials=80))

    def post(self, cx, I, ov, info, kind, payload, st):
        if kind == "raise":
            return [("exc-free", z3.BoolVal(False), dict(exception="%s %r" % (payload.cname or payload.sym, payload.origin)))]
        log = st.ghost.get("log", ())
        att = [r for r in log if r[0] == "attach"]
        items_name = z3.Concat(self.name, z3.StringVal("_items"))

        def on(r, which):
            a = r[1]
            return len(a) == 2 and isinstance(a[1], VStr) and a[1].t is not None and z3.is_true(z3.simplify(a[1].t == which))

        def maint(r, nm):
            h = r[1][0] if r[1] else None
            return isinstance(h, VFunc) and h.kind == "bound" and h.name == nm and h.self_ref.oid == self.self_ref.oid
        users = [r for r in att if r[1] and isinstance(r[1][0], VElem) and r[1][0].t.eq(self.user)]
        special = [r for r in att if maint(r, "handle_list_items_special")]
        m_list = [r for r in att if maint(r, self.M_LINK) and on(r, self.name)]
        m_items = [r for r in att if maint(r, self.M_ITEMS) and on(r, items_name)]
        flags = z3.And(*[z3.And(r[2]["remove"].t == self.remove if isinstance(r[2].get("remove"), VBool) else z3.BoolVal(False),
                                z3.BoolVal(isinstance(r[2].get("target"), VElem) and r[2]["target"].t.eq(self.target))) for r in att]) if att else z3.BoolVal(True)
        ext = all(isinstance(r[2].get("dispatch"), VStr) and r[2]["dispatch"].const == self.MAINT_DISPATCH for r in m_list + m_items)
        out = [("post:every-attachment-carries-the-caller's-remove-flag-and-the-item's-target", flags),
               ("post:both-maintainers-of-the-container-link-are-attached-once-with-their-dispatch", z3.BoolVal(len(m_list) == 1 and len(m_items) == 1 and ext))]
        if ov == "intermediate/quiet":
            out.append(("post:a-quiet-link-(':')-reports-nothing-to-the-user-handler", z3.BoolVal(not users and not special)))
        else:
            out.append(("post:a-notifying-link-('.')-reports-the-link-to-the-user-handler-once", z3.BoolVal(len([r for r in users if on(r, self.name)]) == 1)))
        out.append(("post:nothing-else-is-attached", z3.BoolVal(len(att) == len(m_list) + len(m_items) + len(users) + len(special))))
        # the current items
        out.append(("post:removal-unregisters-the-chain-from-every-current-item-once", z3.Implies(self.remove, z3.And(
            st.ghost["unregistered"] == bag(self.items), st.ghost["registered"] == ZERO))))
        out.append(("post:registration-registers-the-chain-on-every-current-item-once-unless-deferred", z3.Implies(z3.Not(self.remove), z3.And(
            st.ghost["unregistered"] == ZERO, st.ghost["registered"] == z3.If(self.deferred, ZERO, bag(self.items))))))
        return out

    def covers(self, cx, ov, info):
        return [("registers", lambda k, p, s: z3.And(z3.BoolVal(k == "return"), z3.Not(self.remove))),
                ("removes", lambda k, p, s: z3.And(z3.BoolVal(k == "return"), self.remove))]


@register
class RegisterDict(RegisterList):
    """ListenerItem._register_dict: the same discipline for a mapping link -- maintainers handle_dict / handle_dict_items (attached
    with the item's own dispatch), the user's handler iff the link notifies, every current VALUE of the mapping walked once."""
    qualname = "ListenerItem._register_dict"
    M_LINK, M_ITEMS, LOOP, MAINT_DISPATCH, VALUES = "handle_dict", "handle_dict_items", "for obj in getattr(object, name).values()", "same", True
