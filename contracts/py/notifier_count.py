"""C09: TraitEventNotifier.add_to / remove_from -- 'observe registration is counted and reversible'.

An observable's notifier list holds at most one notifier per equivalence class of `equals` (same handler, target,
dispatcher), each with a reference count >= 1: this is the representation invariant.  Abstractly the list is a multiset
of registrations: count(n) = _ref_count of the listed notifier equivalent to n, 0 if there is none.
  add_to:       count(self) grows by exactly one, every other count is unchanged, the invariant is kept; nothing is
                appended when an equivalent notifier is already listed;
  remove_from:  count(self) shrinks by exactly one, every other count unchanged, the notifier leaves the list exactly when
                its count reaches zero; with count(self) == 0 the call raises NotifierNotFound and changes nothing.
So N add_to calls need exactly N remove_from calls to detach a handler, in any interleaving with other handlers -- for
lists of any length (loop invariant: no earlier element is equivalent)."""
import z3

from vc.unit import Contract, register
from vc.pyvc.values import *  # noqa: F401,F403
from vc.pyvc.core import HObj, St, as_val, raise_
from vc.pyvc import loops

PATH = "traits/observation/_trait_event_notifier.py"
EQ = z3.Function("notifier_equals", Val, Val, z3.BoolSort())
RC = z3.ArraySort(Val, z3.IntSort())


class EqualsSummary(Contract):
    """TraitEventNotifier.equals(other): an equivalence relation on notifiers (A-EQ on handlers and dispatchers)"""
    path = PATH
    qualname = "TraitEventNotifier.equals"

    def summary(self, I, self_ref, args, kwargs, st, k):
        return k(VBool(EQ(I.cx.ref_val(self_ref), as_val(I.cx, args[0], st))), st)


class _Counted(Contract):
    path = PATH
    properties = ("C09",)
    class_paths = (PATH,)
    assumptions = ("A-PY", "A-BUILTIN:list", "A-EQ: `equals` is an equivalence relation and does not raise",
                   "representation invariant of the notifier list assumed on entry and proved on exit")

    def configure(self, cx, I, ov):
        cx.const("None")
        NL = z3.Const("notifier_list", SeqV)
        self.NL = NL
        self.rc0 = z3.Const("ref_counts", RC)
        cx.contracts = dict(cx.contracts)
        cx.contracts[("TraitEventNotifier", "equals")] = EqualsSummary()
        x, y, z = z3.Consts("x!eq y!eq z!eq", Val)
        cx.axioms += [z3.ForAll([x], EQ(x, x)), z3.ForAll([x, y], EQ(x, y) == EQ(y, x)),
                      z3.ForAll([x, y, z], z3.Implies(z3.And(EQ(x, y), EQ(y, z)), EQ(x, z)))]

        def rc_get(I2, o, st, k):
            return k(VInt(st.ghost["rc"][o.t]), st)
        cx.elem_attrs["_ref_count"] = rc_get

        def setattr_hook(I2, obj, name, v, st, k):
            if isinstance(obj, VElem) and name == "_ref_count" and isinstance(v, VInt):
                return k(st.gset("rc", z3.Store(st.ghost["rc"], obj.t, v.t)))
            return None
        cx.setattr_hook = setattr_hook

        def notifiers_attr(I2, o, st, k):
            return k(VFunc("opaque", name="_notifiers", apply=lambda I3, a, kw, s, kk: kk(s.ghost["nl_ref"], s)), st)
        cx.elem_attrs["_notifiers"] = notifiers_attr

    def invariant(self, cx, seq, rc, name):
        a, b = z3.Ints("a!ri b!ri")
        n = z3.Length(seq)
        return [(name + "at-most-one-notifier-per-equivalence-class", z3.ForAll([a, b], z3.Implies(z3.And(0 <= a, a < b, b < n), z3.Not(EQ(seq[a], seq[b]))))),
                (name + "every-listed-notifier-is-counted", z3.ForAll([a], z3.Implies(z3.And(0 <= a, a < n), rc[seq[a]] >= 1)))]

    def count(self, seq, rc, who):
        """count(who): a fresh Int defined by its two cases (the invariant makes the witness unique)"""
        a = z3.Int("a!cnt")
        n = z3.Length(seq)
        c = z3.FreshInt("count")
        return c, z3.And(z3.Implies(z3.Not(z3.Exists([a], z3.And(0 <= a, a < n, EQ(who, seq[a])))), c == 0),
                         z3.ForAll([a], z3.Implies(z3.And(0 <= a, a < n, EQ(who, seq[a])), c == rc[seq[a]])))

    def setup(self, cx, I, ov):
        st = St()
        nl, self_ref = VRef(cx.new_oid()), VRef(cx.new_oid())
        st = st.put(nl.oid, HObj("list", self.NL))
        me = cx.ref_val(self_ref)
        st = st.put(self_ref.oid, HObj("obj", None, "TraitEventNotifier", {"_ref_count": VInt(self.rc0[me])}))
        st = st.gset("rc", self.rc0).gset("nl_ref", nl)
        st = st.assume(*[c for (_n, c) in self.invariant(cx, self.NL, self.rc0, "")])
        a = z3.Int("a!pre")
        # a notifier that is not listed anywhere has count 0 (it was never added, or fully removed); self may be listed itself
        st = st.assume(z3.Implies(z3.Not(z3.Exists([a], z3.And(0 <= a, a < z3.Length(self.NL), self.NL[a] == me))), self.rc0[me] >= 0))
        obs = z3.Const("observable", Val)
        return st, [self_ref, VElem(obs)], {}, dict(self_ref=self_ref, me=me, nl=nl, witness=dict(listed=z3.Length(self.NL)))

    def final(self, info, st):
        seq = st.heap[info["nl"].oid].payload
        me = info["me"]
        f = st.heap[info["self_ref"].oid].fields.get("_ref_count")
        rc = st.ghost["rc"]
        # the object's own field and the ghost map describe the same attribute: the last write wins
        if st.ghost.get("self_written"):
            rc = z3.Store(rc, me, f.t)
        return seq, rc

    def seq_lemmas(self, cx, seq1, me, i=None):
        """theorems of sequences about `NL + [me]` and `NL` without position i, stated element-wise (instances the solver's
        sequence theory does not find under quantifiers)"""
        NL = self.NL
        n = z3.Length(NL)
        a = z3.Int("a!sl")
        app = z3.Concat(NL, z3.Unit(me))
        cx.axioms.append(z3.And(z3.Length(app) == n + 1, app[n] == me, z3.ForAll([a], z3.Implies(z3.And(0 <= a, a < n), app[a] == NL[a]))))
        if i is not None:
            gone = z3.Concat(z3.Extract(NL, 0, i), z3.Extract(NL, i + 1, n - i - 1))
            cx.axioms.append(z3.Implies(z3.And(0 <= i, i < n), z3.And(
                z3.Length(gone) == n - 1,
                z3.ForAll([a], z3.Implies(z3.And(0 <= a, a < i), gone[a] == NL[a])),
                z3.ForAll([a], z3.Implies(z3.And(i <= a, a < n - 1), gone[a] == NL[a + 1])))))
        cx.hints.append("sequence lemmas: element-wise description of s + [x] and of s without position i")

    def others_unchanged(self, cx, seq1, rc1, me):
        x = z3.Const("x!oth", Val)
        c0, d0 = self.count(self.NL, self.rc0, x)
        c1, d1 = self.count(seq1, rc1, x)
        return z3.ForAll([x], z3.Implies(z3.And(z3.Not(EQ(x, me)), d0, d1), c0 == c1))


@register
class AddTo(_Counted):
    qualname = "TraitEventNotifier.add_to"

    def configure(self, cx, I, ov):
        _Counted.configure(self, cx, I, ov)
        NL = self.NL

        def inv(i, view, st):
            j = z3.Int("j!add")
            me = cx.ref_val(st.env["self"])
            return [("no-earlier-notifier-is-equivalent", z3.ForAll([j], z3.Implies(z3.And(0 <= j, j < i), z3.Not(EQ(me, NL[j])))))]
        cx.on_loop = loops.make_hook({0: loops.LoopSpec("for other in notifiers", [], inv)})
        orig = I.setattr

        def setattr_(obj, name, v, st, k):
            if isinstance(obj, VRef) and name == "_ref_count":
                return orig(obj, name, v, st.gset("self_written", True), k)
            return orig(obj, name, v, st, k)
        I.setattr = setattr_

    def post(self, cx, I, ov, info, kind, payload, st):
        me = info["me"]
        seq1, rc1 = self.final(info, st)
        c0, d0 = self.count(self.NL, self.rc0, me)
        a = z3.Int("a!post")
        listed = z3.Exists([a], z3.And(0 <= a, a < z3.Length(self.NL), EQ(me, self.NL[a])))
        if kind == "raise":
            ok = payload.cname == "RuntimeError"
            return [("raise:only-a-shared-notifier-is-refused", z3.And(z3.BoolVal(ok), z3.Not(listed), self.rc0[me] != 0),
                     dict(exception="%s %r" % (payload.cname or payload.sym, payload.origin))),
                    ("raise:nothing-changed", z3.And(seq1 == self.NL, rc1 == self.rc0))]
        self.seq_lemmas(cx, seq1, me)
        c1, d1 = self.count(seq1, rc1, me)
        out = [("post:count-of-this-registration-grows-by-one", z3.Implies(z3.And(d0, d1), c1 == c0 + 1)),
               ("post:appended-only-when-no-equivalent-notifier-is-listed", z3.If(listed, seq1 == self.NL, seq1 == z3.Concat(self.NL, z3.Unit(me)))),
               ("post:other-registrations-keep-their-count", self.others_unchanged(cx, seq1, rc1, me))]
        out += self.invariant(cx, seq1, rc1, "post:invariant:")
        return out

    def covers(self, cx, ov, info):
        return [("registers", lambda k, p, s: k == "return")]


@register
class RemoveFrom(_Counted):
    qualname = "TraitEventNotifier.remove_from"

    def configure(self, cx, I, ov):
        _Counted.configure(self, cx, I, ov)
        NL = self.NL

        def inv(i, view, st):
            j = z3.Int("j!rem")
            me = cx.ref_val(st.env["self"])
            return [("no-earlier-notifier-is-equivalent", z3.ForAll([j], z3.Implies(z3.And(0 <= j, j < i), z3.Not(EQ(me, NL[j])))))]
        cx.on_loop = loops.make_hook({0: loops.LoopSpec("for other in notifiers[:]", [], inv)})

    def post(self, cx, I, ov, info, kind, payload, st):
        me = info["me"]
        seq1, rc1 = self.final(info, st)
        c0, d0 = self.count(self.NL, self.rc0, me)
        a = z3.Int("a!post")
        listed = z3.Exists([a], z3.And(0 <= a, a < z3.Length(self.NL), EQ(me, self.NL[a])))
        if kind == "raise":
            return [("raise:only-NotifierNotFound-and-only-when-nothing-equivalent-is-listed",
                     z3.And(z3.BoolVal(payload.cname == "NotifierNotFound"), z3.Not(listed)),
                     dict(exception="%s %r" % (payload.cname or payload.sym, payload.origin))),
                    ("raise:nothing-changed", z3.And(seq1 == self.NL, rc1 == self.rc0))]
        i = st.ghost.get("__loop_index__")
        self.seq_lemmas(cx, seq1, me, i)
        c1, d1 = self.count(seq1, rc1, me)
        out = [("post:count-of-this-registration-shrinks-by-one", z3.Implies(z3.And(d0, d1), c1 == c0 - 1)),
               ("post:removal-only-of-a-listed-registration", listed)]
        if i is not None:
            # the other registrations, element-wise (with the invariant this is 'every other count unchanged'): each other
            # listed notifier is still listed, at the position the removal leaves it at, with the count it had
            b = z3.Int("b!oth")
            n = z3.Length(self.NL)
            removed = self.rc0[self.NL[i]] == 1
            out.append(("post:every-other-notifier-stays-listed-with-its-count", z3.ForAll([b], z3.Implies(
                z3.And(0 <= b, b < n, b != i), z3.And(seq1[z3.If(z3.And(removed, b > i), b - 1, b)] == self.NL[b], rc1[self.NL[b]] == self.rc0[self.NL[b]])))))
            out.append(("post:nothing-new-is-listed", z3.Length(seq1) == n - z3.If(removed, 1, 0)))
        else:
            out.append(("post:other-registrations-keep-their-count", self.others_unchanged(cx, seq1, rc1, me)))
        if i is not None:
            n = z3.Length(self.NL)
            gone = z3.Concat(z3.Extract(self.NL, 0, i), z3.Extract(self.NL, i + 1, n - i - 1))
            out.append(("post:leaves-the-list-exactly-when-its-count-reaches-zero", z3.If(self.rc0[self.NL[i]] == 1, seq1 == gone, seq1 == self.NL)))
        out += self.invariant(cx, seq1, rc1, "post:invariant:")
        return out

    def covers(self, cx, ov, info):
        return [("unregisters", lambda k, p, s: k == "return"), ("not-found", lambda k, p, s: k == "raise")]


# ------------------------------------------------------------------------------------------------------------------
# ObserverChangeNotifier (the maintainers that re-hook observers when an intermediate object changes): counted by
# multiplicity -- one list entry per registration, no reference count
# ------------------------------------------------------------------------------------------------------------------
OPATH = "traits/observation/_observer_change_notifier.py"


class _OEquals(Contract):
    path = OPATH
    qualname = "ObserverChangeNotifier.equals"

    def summary(self, I, self_ref, args, kwargs, st, k):
        return k(VBool(EQ(I.cx.ref_val(self_ref), as_val(I.cx, args[0], st))), st)


class _Multiplicity(Contract):
    """the maintainer population of an observable is the multiset of registrations: add_to appends one entry (always),
    remove_from deletes exactly one entry equivalent to this maintainer -- the first -- and raises NotifierNotFound,
    changing nothing, when there is none.  n additions therefore need exactly n removals."""
    path = OPATH
    properties = ("C09", "C08")
    class_paths = (OPATH,)
    assumptions = ("A-PY", "A-BUILTIN:list", "A-EQ: `equals` is an equivalence relation and does not raise")

    def configure(self, cx, I, ov):
        cx.const("None")
        self.NL = z3.Const("notifier_list", SeqV)
        cx.contracts = dict(cx.contracts)
        cx.contracts[("ObserverChangeNotifier", "equals")] = _OEquals()
        x, y, z = z3.Consts("x!eq y!eq z!eq", Val)
        cx.axioms += [z3.ForAll([x], EQ(x, x)), z3.ForAll([x, y], EQ(x, y) == EQ(y, x)),
                      z3.ForAll([x, y, z], z3.Implies(z3.And(EQ(x, y), EQ(y, z)), EQ(x, z)))]

        def notifiers_attr(I2, o, st, k):
            def apply(I3, a, kw, s, kk):
                forced = len(a) == 1 and isinstance(a[0], VBool) and z3.is_true(z3.simplify(a[0].t))
                return kk(s.ghost["nl_ref"], s.gset("forced", s.ghost.get("forced", True) and forced))
            return k(VFunc("opaque", name="_notifiers", apply=apply), st)
        cx.elem_attrs["_notifiers"] = notifiers_attr

    def setup(self, cx, I, ov):
        st = St()
        nl, self_ref = VRef(cx.new_oid()), VRef(cx.new_oid())
        st = st.put(nl.oid, HObj("list", self.NL)).put(self_ref.oid, HObj("obj", None, "ObserverChangeNotifier", {}))
        st = st.gset("nl_ref", nl)
        return st, [self_ref, VElem(z3.Const("observable", Val))], {}, dict(self_ref=self_ref, me=cx.ref_val(self_ref), nl=nl,
                                                                             witness=dict(listed=z3.Length(self.NL)))


@register
class OAddTo(_Multiplicity):
    qualname = "ObserverChangeNotifier.add_to"

    def post(self, cx, I, ov, info, kind, payload, st):
        if kind == "raise":
            return [("exc-free", z3.BoolVal(False))]
        seq1 = st.heap[info["nl"].oid].payload
        return [("post:one-more-entry-for-this-registration-at-the-end", seq1 == z3.Concat(self.NL, z3.Unit(info["me"]))),
                ("post:the-notifier-list-is-created-if-need-be", z3.BoolVal(bool(st.ghost.get("forced", False))))]

    def covers(self, cx, ov, info):
        return [("registers", lambda k, p, s: k == "return")]


@register
class ORemoveFrom(_Multiplicity):
    qualname = "ObserverChangeNotifier.remove_from"

    def configure(self, cx, I, ov):
        _Multiplicity.configure(self, cx, I, ov)
        NL = self.NL

        def inv(i, view, st):
            j = z3.Int("j!orem")
            me = cx.ref_val(st.env["self"])
            cur = st.heap[st.ghost["nl_ref"].oid].payload
            return [("no-earlier-notifier-is-equivalent", z3.ForAll([j], z3.Implies(z3.And(0 <= j, j < i), z3.Not(EQ(me, NL[j]))))),
                    ("list-untouched-so-far", cur == NL)]
        cx.on_loop = loops.make_hook({0: loops.LoopSpec("for notifier in notifiers[:]", [], inv)})

    def post(self, cx, I, ov, info, kind, payload, st):
        me = info["me"]
        NL = self.NL
        n = z3.Length(NL)
        seq1 = st.heap[info["nl"].oid].payload
        a = z3.Int("a!op")
        listed = z3.Exists([a], z3.And(0 <= a, a < n, EQ(me, NL[a])))
        if kind == "raise":
            return [("raise:only-NotifierNotFound-and-only-when-nothing-equivalent-is-listed",
                     z3.And(z3.BoolVal(payload.cname == "NotifierNotFound"), z3.Not(listed)), dict(exception="%s %r" % (payload.cname or payload.sym, payload.origin))),
                    ("raise:nothing-changed", seq1 == NL)]
        i = st.ghost.get("__loop_index__")
        if i is None:
            return [("post:returns-only-after-removing-an-entry", z3.BoolVal(False))]
        gone = z3.Concat(z3.Extract(NL, 0, i), z3.Extract(NL, i + 1, n - i - 1))
        return [("post:the-entry-removed-is-equivalent-to-this-registration", EQ(me, NL[i])),
                ("post:exactly-one-entry-leaves-the-first-equivalent-one-and-every-other-stays-in-order", seq1 == gone)]

    def covers(self, cx, ov, info):
        return [("unregisters", lambda k, p, s: k == "return"), ("not-found", lambda k, p, s: k == "raise")]


# ------------------------------------------------------------------------------------------------------------------
@register
class NotifierEqualsBody(Contract):
    """TraitEventNotifier.equals(other) -- the BODY behind EqualsSummary.  Two notifiers stand for the same registration exactly
    when they are of the same class, their handlers compare equal, their dispatchers compare equal, and their targets are THE
    SAME OBJECT (identity of what the weak references currently give: two distinct observer objects that merely compare equal
    -- a value-based __eq__ -- are two registrations, each counted on its own).  `==` between arbitrary objects is an arbitrary
    reflexive symmetric relation here, so an implementation that identifies the target by `==` (on the objects or on the weak
    references) does not meet the clause."""
    path = PATH
    qualname = "TraitEventNotifier.equals"
    properties = ("C09",)
    class_paths = (PATH,)
    overloads = ("another-notifier", "itself", "not-a-notifier")
    assumptions = ("A-PY", "A-EQ: == on handlers / dispatchers / arbitrary objects is reflexive and symmetric and does not raise",
                   "weak references are called to obtain their referent (None once collected)")
    undecided_probe = dict(harness="observe", family="equal_targets")

    @property
    def cid(self):
        return "%s:%s<body>" % (self.path, self.qualname)

    def configure(self, cx, I, ov):
        NONE_T = cx.const("None").t
        self.h1, self.h2, self.t1, self.t2, self.d1, self.d2 = z3.Consts("my_handler other_handler my_target other_target my_dispatcher other_dispatcher", Val)
        self.alive1, self.alive2 = z3.Bools("my_target_alive other_target_alive")
        eqv = z3.Function("objects_compare_equal", Val, Val, z3.BoolSort())
        self.eqv = eqv
        x_, y_ = z3.Consts("x!oe y!oe", Val)
        cx.axioms += [z3.ForAll([x_], eqv(x_, x_)), z3.ForAll([x_, y_], eqv(x_, y_) == eqv(y_, x_))]
        cx.val_eq = lambda a, b: eqv(a, b)
        refs = {"wr-h1": lambda: self.h1, "wr-h2": lambda: self.h2}

        def call_hook(I2, fv, args, kwargs, st, k):
            if isinstance(fv, VConst) and not args:
                if fv.name in refs:
                    return k(VElem(refs[fv.name]()), st)
                if fv.name == "wr-t1":
                    return I2.cx.branch(st, self.alive1, lambda s: k(VElem(self.t1), s), lambda s: k(NONE, s))
                if fv.name == "wr-t2":
                    return I2.cx.branch(st, self.alive2, lambda s: k(VElem(self.t2), s), lambda s: k(NONE, s))
            return None
        cx.call_hook = call_hook
        other_type = VElem(z3.Const("some_other_type", Val))

        def type_(I2, a, kw, st, k):
            v = a[0]
            if isinstance(v, VRef) and st.heap[v.oid].cls == "TraitEventNotifier":
                return k(cx.const("TraitEventNotifier-class"), st)
            return k(other_type, st)
        cx.module_globals["type"] = VFunc("opaque", name="type", apply=type_)

    def setup(self, cx, I, ov):
        NONE_T = cx.const("None").t
        st = St().assume(self.t1 != NONE_T, self.t2 != NONE_T, z3.Const("some_other_type", Val) != cx.const("TraitEventNotifier-class").t,
                         # the weak-reference objects themselves are objects like any other: how THEY compare says nothing
                         # about the identity of their referents beyond a reference comparing equal to itself
                         cx.const("wr-t1").t != cx.const("wr-t2").t)
        me, other = VRef(cx.new_oid()), VRef(cx.new_oid())
        st = st.put(me.oid, HObj("obj", None, "TraitEventNotifier", {"handler": cx.const("wr-h1"), "target": cx.const("wr-t1"), "dispatcher": VElem(self.d1)}))
        st = st.put(other.oid, HObj("obj", None, "TraitEventNotifier", {"handler": cx.const("wr-h2"), "target": cx.const("wr-t2"), "dispatcher": VElem(self.d2)}))
        arg = {"another-notifier": other, "itself": me, "not-a-notifier": VElem(z3.Const("something_else", Val))}[ov]
        st = st.assume(z3.Const("something_else", Val) != cx.ref_val(me))
        return st, [me, arg], {}, dict(witness=dict(same_target=self.t1 == self.t2, alive1=self.alive1, alive2=self.alive2),
                                        concretise=lambda m: dict(harness="observe", family="equal_targets"))

    def post(self, cx, I, ov, info, kind, payload, st):
        if kind == "raise":
            return [("exc-free", z3.BoolVal(False), dict(exception="%s %r" % (payload.cname or payload.sym, payload.origin)))]
        r = payload.t if isinstance(payload, VBool) else None
        if r is None:
            return [("post:returns-a-boolean", z3.BoolVal(False))]
        if ov == "itself":
            return [("post:a-notifier-equals-itself", r)]
        if ov == "not-a-notifier":
            return [("post:an-object-of-another-class-is-never-equivalent", z3.Not(r))]
        NONE_T = cx.const("None").t
        ta = z3.If(self.alive1, self.t1, NONE_T)
        tb = z3.If(self.alive2, self.t2, NONE_T)
        return [("post:equivalent-iff-equal-handlers-equal-dispatchers-and-the-IDENTICAL-target-object",
                 r == z3.And(self.eqv(self.h1, self.h2), ta == tb, self.eqv(self.d1, self.d2)))]

    def covers(self, cx, ov, info):
        return [("answers", lambda k, p, s: k == "return")]


@register
class ObserverNotifierEqualsBody(NotifierEqualsBody):
    """ObserverChangeNotifier.equals(other) -- the body behind _OEquals: two maintainers stand for the same registration exactly
    when they are of the same class, share THE SAME observer_handler function object, have equal graphs, equal user handlers,
    equal dispatchers and the IDENTICAL target object."""
    path = OPATH
    qualname = "ObserverChangeNotifier.equals"
    properties = ("C09", "C08")
    class_paths = (OPATH,)

    def configure(self, cx, I, ov):
        NotifierEqualsBody.configure(self, cx, I, ov)
        self.oh1, self.oh2, self.g1, self.g2 = z3.Consts("my_observer_handler other_observer_handler my_graph other_graph", Val)
        other_type = VElem(z3.Const("some_other_type", Val))

        def type_(I2, a, kw, st, k):
            v = a[0]
            if isinstance(v, VRef) and st.heap[v.oid].cls == "ObserverChangeNotifier":
                return k(cx.const("TraitEventNotifier-class"), st)
            return k(other_type, st)
        cx.module_globals["type"] = VFunc("opaque", name="type", apply=type_)

    def setup(self, cx, I, ov):
        st, args, kw, info = NotifierEqualsBody.setup(self, cx, I, ov)
        me, arg = args
        other = None
        for oid, h in st.heap.items():
            if getattr(h, "cls", None) == "TraitEventNotifier":
                extra = {"observer_handler": VElem(self.oh1 if oid == me.oid else self.oh2), "graph": VElem(self.g1 if oid == me.oid else self.g2)}
                st = st.put(oid, HObj("obj", None, "ObserverChangeNotifier", {**h.fields, **extra}))
        return st, args, kw, info

    def post(self, cx, I, ov, info, kind, payload, st):
        if kind == "raise":
            return [("exc-free", z3.BoolVal(False), dict(exception="%s %r" % (payload.cname or payload.sym, payload.origin)))]
        r = payload.t if isinstance(payload, VBool) else None
        if r is None:
            return [("post:returns-a-boolean", z3.BoolVal(False))]
        if ov == "itself":
            return [("post:a-notifier-equals-itself", r)]
        if ov == "not-a-notifier":
            return [("post:an-object-of-another-class-is-never-equivalent", z3.Not(r))]
        NONE_T = cx.const("None").t
        ta = z3.If(self.alive1, self.t1, NONE_T)
        tb = z3.If(self.alive2, self.t2, NONE_T)
        return [("post:equivalent-iff-same-observer_handler-equal-graphs-handlers-dispatchers-and-the-IDENTICAL-target-object",
                 r == z3.And(self.oh1 == self.oh2, self.eqv(self.g1, self.g2), self.eqv(self.h1, self.h2), ta == tb, self.eqv(self.d1, self.d2)))]


# ------------------------------------------------------------------------------------------------------------------
# 'Registrations never keep the observed object or a bound-method handler's owner alive': what the notifiers hold
# ------------------------------------------------------------------------------------------------------------------
class _NotifierInit(Contract):
    properties = ("C09",)
    overloads = ("bound-method-handler", "plain-callable-handler", "not-callable")
    extra_kwargs = ()
    assumptions = ("A-PY", "weakref.ref / weakref.WeakMethod / functools.partial are opaque constructors: weak reference, weak method reference, strong holder",
                   "callable() and isinstance(handler, types.MethodType) are opaque predicates of the handler fixed per overload")

    def configure(self, cx, I, ov):
        self.handler, self.target = z3.Consts("handler target", Val)
        mod = VElem(z3.Const("a_module", Val))
        cx.module_globals["weakref"] = mod
        cx.module_globals["types"] = mod

        def ctor(kind):
            return lambda I2, o, st, k: k(VFunc("opaque", name=kind, apply=lambda I3, a, kw, s, kk: kk(VFunc(kind, of=a[0] if a else None, kw=dict(kw), args=tuple(a)), s)), st)
        cx.elem_attrs["ref"] = ctor("weak-reference")
        cx.elem_attrs["WeakMethod"] = ctor("weak-method-reference")
        cx.elem_attrs["MethodType"] = lambda I2, o, st, k: k(cx.const("MethodType"), st)
        cx.module_globals["partial"] = VFunc("opaque", name="partial", apply=lambda I2, a, kw, s, k: k(VFunc("strong-holder", of=kw.get("value"), fn=a[0] if a else None), s))
        cx.module_globals["callable"] = VFunc("opaque", name="callable", apply=lambda I2, a, kw, s, k: k(VBool(z3.BoolVal(ov != "not-callable")), s))
        cx.module_globals["isinstance"] = VFunc("opaque", name="isinstance", apply=lambda I2, a, kw, s, k: k(VBool(z3.BoolVal(ov == "bound-method-handler")), s))

    def setup(self, cx, I, ov):
        st = St()
        self.self_ref = VRef(cx.new_oid())
        st = st.put(self.self_ref.oid, HObj("obj", None, self.qualname.split(".")[0], {}))
        kw = {"handler": VElem(self.handler), "target": VElem(self.target), "event_factory": VElem(z3.Const("event_factory", Val)),
              "prevent_event": VElem(z3.Const("prevent_event", Val)), "dispatcher": VElem(z3.Const("dispatcher", Val))}
        for n in self.extra_kwargs:
            kw[n] = VElem(z3.Const(n, Val))
        return st, [self.self_ref], kw, dict(witness={})

    def post(self, cx, I, ov, info, kind, payload, st):
        f = st.heap[self.self_ref.oid].fields
        if ov == "not-callable":
            if type(self).__name__.startswith("Observer"):
                return [("post:no-callable-check-here-(the-user-handler-was-checked-by-the-trait-notifier)", z3.BoolVal(True))]
            return [("raise:a-handler-that-is-not-callable-is-refused-with-ValueError", z3.BoolVal(kind == "raise" and payload.cname == "ValueError")),
                    ("raise:nothing-is-held", z3.BoolVal(not f))]
        if kind == "raise":
            return [("exc-free", z3.BoolVal(False), dict(exception="%s %r" % (payload.cname or payload.sym, payload.origin)))]
        t, h = f.get("target"), f.get("handler")
        out = [("post:the-target-is-held-through-a-weak-reference-to-it", z3.BoolVal(isinstance(t, VFunc) and t.kind == "weak-reference" and isinstance(t.of, VElem) and t.of.t.eq(self.target) and len(t.args) == 1))]
        if ov == "bound-method-handler":
            out.append(("post:a-bound-method-is-held-through-a-weak-method-reference", z3.BoolVal(isinstance(h, VFunc) and h.kind == "weak-method-reference" and isinstance(h.of, VElem) and h.of.t.eq(self.handler))))
        else:
            import ast as _ast
            holder = (isinstance(h, VFunc) and h.kind == "strong-holder" and isinstance(h.of, VElem) and h.of.t.eq(self.handler)
                      and isinstance(h.fn, VFunc) and getattr(h.fn, "name", None) == "_return")
            node = getattr(h, "node", None) if isinstance(h, VFunc) else None
            closure = (isinstance(h, VFunc) and h.kind == "lambda" and isinstance(node, _ast.FunctionDef) and not node.args.args
                       and [_ast.unparse(x) for x in node.body if not (isinstance(x, _ast.Expr) and isinstance(x.value, _ast.Constant))] == ["return handler"])
            out.append(("post:a-plain-callable-is-held-by-a-holder-that-returns-it", z3.BoolVal(bool(holder or closure))))
        # nothing else refers to the target or to the handler
        leaks = [n for n, v in f.items() if n not in ("target", "handler") and isinstance(v, VElem) and (v.t.eq(self.target) or v.t.eq(self.handler))]
        out.append(("post:no-other-attribute-holds-the-target-or-the-handler", z3.BoolVal(not leaks), {"attributes": ",".join(leaks)}))
        d = f.get("dispatcher")
        out.append(("post:dispatcher-kept", z3.BoolVal(isinstance(d, VElem) and d.t.eq(z3.Const("dispatcher", Val)))))
        if "_ref_count" in f or not type(self).__name__.startswith("Observer"):
            rc = f.get("_ref_count")
            out.append(("post:a-new-notifier-counts-no-registration-yet", rc.t == 0 if isinstance(rc, VInt) else z3.BoolVal(False)))
        return out

    def covers(self, cx, ov, info):
        if ov == "not-callable" and not type(self).__name__.startswith("Observer"):
            return [("refused", lambda k, p, s: k == "raise")]
        return [("built", lambda k, p, s: k == "return")]


@register
class TraitEventNotifierInit(_NotifierInit):
    """TraitEventNotifier.__init__: the observed object's notifier refers to the target weakly and to a bound-method handler
    through a WeakMethod (a plain callable strongly); it starts with reference count 0."""
    path = PATH
    qualname = "TraitEventNotifier.__init__"
    class_paths = (PATH,)


@register
class ObserverChangeNotifierInit(_NotifierInit):
    """ObserverChangeNotifier.__init__: the maintainer refers to the target weakly and to a bound-method handler through a
    WeakMethod."""
    path = OPATH
    qualname = "ObserverChangeNotifier.__init__"
    class_paths = (OPATH,)
    extra_kwargs = ("observer_handler", "graph")
