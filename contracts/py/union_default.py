"""C10: Union.__init__ -- which default a Union declares when none is given explicitly.

'The first read of a trait that was never assigned returns its declared default (static value, a fresh copy of a container
default, factory result ...) ... No sequence of operations on one instance (mutating its default containers ...) ever
changes the values, defaults ... observable on another instance of the same class or on the class itself.'

A Union without an explicit default_value takes the default of its first member.  That default has a KIND (constant,
list copy, dict copy, callable, ...: what default_value() of the member reports) and only a CONSTANT may be installed as the
Union's own constant default; for every other kind the Union must compute its default per instance by asking the first
member (default_value_for), so that container defaults are copied per instance and factories run per instance.  Installing
a list-copy / dict-copy default value as a constant would hand the one container object to every instance."""
import z3

from vc.unit import Contract, register
from vc.pyvc.values import *  # noqa: F401,F403
from vc.pyvc.core import HObj, St, as_val, raise_

PATH = "traits/trait_types.py"


@register
class UnionInit(Contract):
    path = PATH
    qualname = "Union.__init__"
    properties = ("C10",)
    class_paths = (PATH, "traits/trait_type.py", "traits/base_trait_handler.py")
    overloads = ("default-from-first-member", "explicit-default_value")
    assumptions = ("A-PY", "trait_cast / default_value() of the member traits are opaque; TraitType.__init__ is used as a summary",
                   "two member traits (the loop over the members is unrolled; the default only depends on the first)")

    def configure(self, cx, I, ov):
        cx.const("None")
        log = lambda st, rec: st.gset("log", st.ghost.get("log", ()) + (rec,))
        kindf, valf = z3.Function("default_kind_of", Val, Val), z3.Function("default_value_of", Val, Val)
        self.members = [z3.Const("member_trait_%d" % i, Val) for i in range(2)]
        self.ctraits = [z3.Const("member_ctrait_%d" % i, Val) for i in range(2)]
        cast = z3.Function("trait_cast", Val, Val)

        def repo_call_hook(I2, fv, args, kwargs, st, k):
            if fv.name == "trait_cast":
                return k(VElem(cast(as_val(I2.cx, args[0], st))), st)
            return None
        cx.repo_call_hook = repo_call_hook
        self.cast = cast
        self.kind, self.value = kindf(cast(self.members[0])), valf(cast(self.members[0]))

        def default_value_attr(I2, o, st, k):
            def apply(I3, a, kw, s, kk):
                return kk(VTuple((VElem(kindf(o.t)), VElem(valf(o.t)))), log(s, ("member.default_value", o.t)))
            return k(VFunc("opaque", name="default_value", apply=apply), st)
        cx.elem_attrs["default_value"] = default_value_attr
        cx.module_globals["DefaultValue"] = VFunc("opaque-enum", name="DefaultValue")
        cx.module_globals["_NoneTrait"] = cx.const("_NoneTrait")

        def getattr_hook(I2, obj, name, st, k):
            if isinstance(obj, VFunc) and obj.kind == "opaque-enum":
                return k(I2.cx.const("DefaultValue." + name), st)
            return None
        cx.getattr_hook = getattr_hook

        class TTInit(Contract):
            path = "traits/trait_type.py"
            qualname = "TraitType.__init__"

            def summary(self_, I2, self_ref, args, kwargs, st, k):
                h = st.heap[self_ref.oid]
                return k(NONE, log(st, ("TraitType.__init__", tuple(args), dict(kwargs), h.fields.get("default_value_type"))))
        cx.contracts = dict(cx.contracts)
        cx.contracts[("TraitType", "__init__")] = TTInit()

    def setup(self, cx, I, ov):
        NONE_T = cx.const("None").t
        st = St()
        self.self_ref = VRef(cx.new_oid())
        CONSTANT = cx.const("DefaultValue.constant")
        st = st.put(self.self_ref.oid, HObj("obj", None, "Union", {"default_value_type": CONSTANT}))
        st = st.assume(*[m != NONE_T for m in self.members], *[self.cast(m) != NONE_T for m in self.members])
        kwargs = {}
        self.explicit = z3.Const("explicit_default", Val)
        if ov == "explicit-default_value":
            kwargs["default_value"] = VElem(self.explicit)
        return st, [self.self_ref] + [VElem(m) for m in self.members], kwargs, dict(witness={"first member's default kind": self.kind},
                                                                                         concretise=lambda m: dict(harness="hastraits", family="default_isolation"))

    def post(self, cx, I, ov, info, kind, payload, st):
        if kind == "raise":
            return [("exc-free", z3.BoolVal(False), dict(exception="%s %r" % (payload.cname or payload.sym, payload.origin)))]
        CONSTANT, CALLABLE = cx.const("DefaultValue.constant").t, cx.const("DefaultValue.callable").t
        inits = [r for r in st.ghost.get("log", ()) if r[0] == "TraitType.__init__"]
        out = [("post:the-trait-type-is-initialised-once", z3.BoolVal(len(inits) == 1))]
        if len(inits) != 1:
            return out
        _t, args, kwargs, dvt = inits[0]
        dv = args[0] if args else kwargs.get("default_value")
        dvt_t = as_val(cx, dvt, st) if dvt is not None else None
        if ov == "explicit-default_value":
            out.append(("post:an-explicit-default_value-is-the-declared-default", as_val(cx, dv, st) == self.explicit if isinstance(dv, (VElem, VConst)) else z3.BoolVal(False)))
            out.append(("post:the-member-defaults-are-not-consulted", z3.BoolVal(not any(r[0] == "member.default_value" for r in st.ghost.get("log", ())))))
            return out
        is_const = self.kind == CONSTANT
        per_instance = isinstance(dv, VFunc) and dv.kind == "bound" and dv.name == "_get_default_value" and dv.self_ref.oid == self.self_ref.oid
        if per_instance:
            out.append(("post:a-per-instance-default-is-declared-with-the-callable-kind", dvt_t == CALLABLE if dvt_t is not None else z3.BoolVal(False)))
            out.append(("post:a-constant-first-default-needs-no-per-instance-computation", z3.BoolVal(True)))
        else:
            # the value itself is installed, under the Union's constant kind: allowed only for a constant first default
            out.append(("post:only-a-CONSTANT-first-default-is-installed-as-the-union's-constant-default", is_const))
            out.append(("post:the-constant-installed-is-the-first-member's-default", as_val(cx, dv, st) == self.value if isinstance(dv, (VElem, VConst)) else z3.BoolVal(False)))
            out.append(("post:the-constant-kind-is-kept", dvt_t == CONSTANT if dvt_t is not None else z3.BoolVal(False)))
        return out

    def covers(self, cx, ov, info):
        if ov == "explicit-default_value":
            return [("declares", lambda k, p, s: k == "return")]
        return [("constant-first-default", lambda k, p, s: z3.And(z3.BoolVal(k == "return"), self.kind == cx.const("DefaultValue.constant").t)),
                ("per-instance-first-default", lambda k, p, s: z3.And(z3.BoolVal(k == "return"), self.kind != cx.const("DefaultValue.constant").t))]
