"""C10: Union.__init__ -- which default a Union declares when none is given explicitly.

'The first read of a trait that was never assigned returns its declared default (static value, a fresh copy of a container
default, factory result ...) ... No sequence of operations on one instance (mutating its default containers ...) ever
changes the values, defaults ... observable on another instance of the same class or on the class itself.'

A Union without an explicit default_value takes the default of its first member.  That default has a KIND (constant,
list copy, dict copy, callable, ...: what default_value() of the member reports) and only a CONSTANT may be installed as the
Union's own constant default; for every other kind the Union must compute its default per instance by asking the first
member (default_value_for), so that container defaults are copied per instance and factories run per instance.  Installing
a list-copy / dict-copy default value as a constant would hand the one container object to every instance."""
import z3

from vc.unit import Contract, register
from vc.pyvc.values import *  # noqa: F401,F403
from vc.pyvc.core import HObj, St, as_val, raise_

PATH = "traits/trait_types.py"


@register
class UnionInit(Contract):
    path = PATH
    qualname = "Union.__init__"
    properties = ("C10",)
    class_paths = (PATH, "traits/trait_type.py", "traits/base_trait_handler.py")
    overloads = ("default-from-first-member", "explicit-default_value")
    assumptions = ("A-PY", "trait_cast / default_value() of the member traits are opaque; TraitType.__init__ is used as a summary",
                   "two member traits (the loop over the members is unrolled; the default only depends on the first)")

    def configure(self, cx, I, ov):
        cx.const("None")
        log = lambda st, rec: st.gset("log", st.ghost.get("log", ()) + (rec,))
        kindf, valf = z3.Function("default_kind_of", Val, Val), z3.Function("default_value_of", Val, Val)
        self.members = [z3.Const("member_trait_%d" % i, Val) for i in range(2)]
        self.ctraits = [z3.Const("member_ctrait_%d" % i, Val) for i in range(2)]
        cast = z3.Function("trait_cast", Val, Val)

        def repo_call_hook(I2, fv, args, kwargs, st, k):
            if fv.name == "trait_cast":
                return k(VElem(cast(as_val(I2.cx, args[0], st))), st)
            return None
        cx.repo_call_hook = repo_call_hook
        self.cast = cast
        self.kind, self.value = kindf(cast(self.members[0])), valf(cast(self.members[0]))

        def default_value_attr(I2, o, st, k):
            def apply(I3, a, kw, s, kk):
                return kk(VTuple((VElem(kindf(o.t)), VElem(valf(o.t)))), log(s, ("member.default_value", o.t)))
            return k(VFunc("opaque", name="default_value", apply=apply), st)
        cx.elem_attrs["default_value"] = default_value_attr
        cx.module_globals["DefaultValue"] = VFunc("opaque-enum", name="DefaultValue")
        cx.module_globals["_NoneTrait"] = cx.const("_NoneTrait")

        def getattr_hook(I2, obj, name, st, k):
            if isinstance(obj, VFunc) and obj.kind == "opaque-enum":
                return k(I2.cx.const("DefaultValue." + name), st)
            return None
        cx.getattr_hook = getattr_hook

        class TTInit(Contract):
            path = "traits/trait_type.py"
            qualname = "TraitType.__init__"

            def summary(self_, I2, self_ref, args, kwargs, st, k):
                h = st.heap[self_ref.oid]
                return k(NONE, log(st, ("TraitType.__init__", tuple(args), dict(kwargs), h.fields.get("default_value_type"))))
        cx.contracts = dict(cx.contracts)
        cx.contracts[("TraitType", "__init__")] = TTInit()

    def setup(self, cx, I, ov):
        NONE_T = cx.const("None").t
        st = St()
        self.self_ref = VRef(cx.new_oid())
        CONSTANT = cx.const("DefaultValue.constant")
        st = st.put(self.self_ref.oid, HObj("obj", None, "Union", {"default_value_type": CONSTANT}))
        st = st.assume(*[m != NONE_T for m in self.members], *[self.cast(m) != NONE_T for m in self.members])
        kwargs = {}
        self.explicit = z3.Const("explicit_default", Val)
        if ov == "explicit-default_value":
            kwargs["default_value"] = VElem(self.explicit)
        return st, [self.self_ref] + [VElem(m) for m in self.members], kwargs, dict(witness={"first member's default kind": self.kind},
                                                                                         concretise=lambda m: dict(harness="hastraits", family="default_isolation"))

    def post(self, cx, I, ov, info, kind, payload, st):
        if kind == "raise":
            return [("exc-free", z3.BoolVal(False), dict(exception="%s %r" % (payload.cname or payload.sym, payload.origin)))]
        CONSTANT, CALLABLE = cx.const("DefaultValue.constant").t, cx.const("DefaultValue.callable").t
        inits = [r for r in st.ghost.get("log", ()) if r[0] == "TraitType.__init__"]
        out = [("post:the-trait-type-is-initialised-once", z3.BoolVal(len(inits) == 1))]
        if len(inits) != 1:
            return out
        _t, args, kwargs, dvt = inits[0]
        dv = args[0] if args else kwargs.get("default_value")
        dvt_t = as_val(cx, dvt, st) if dvt is not None else None
        if ov == "explicit-default_value":
            out.append(("post:an-explicit-default_value-is-the-declared-default", as_val(cx, dv, st) == self.explicit if isinstance(dv, (VElem, VConst)) else z3.BoolVal(False)))
            out.append(("post:the-member-defaults-are-not-consulted", z3.BoolVal(not any(r[0] == "member.default_value" for r in st.ghost.get("log", ())))))
            return out
        is_const = self.kind == CONSTANT
        per_instance = isinstance(dv, VFunc) and dv.kind == "bound" and dv.name == "_get_default_value" and dv.self_ref.oid == self.self_ref.oid
        if per_instance:
            out.append(("post:a-per-instance-default-is-declared-with-the-callable-kind", dvt_t == CALLABLE if dvt_t is not None else z3.BoolVal(False)))
            out.append(("post:a-constant-first-default-needs-no-per-instance-computation", z3.BoolVal(True)))
        else:
            # the value itself is installed, under the Union's constant kind: allowed only for a constant first default
            out.append(("post:only-a-CONSTANT-first-default-is-installed-as-the-union's-constant-default", is_const))
            out.append(("post:the-constant-installed-is-the-first-member's-default", as_val(cx, dv, st) == self.value if isinstance(dv, (VElem, VConst)) else z3.BoolVal(False)))
            out.append(("post:the-constant-kind-is-kept", dvt_t == CONSTANT if dvt_t is not None else z3.BoolVal(False)))
        return out

    def covers(self, cx, ov, info):
        if ov == "explicit-default_value":
            return [("declares", lambda k, p, s: k == "return")]
        return [("constant-first-default", lambda k, p, s: z3.And(z3.BoolVal(k == "return"), self.kind == cx.const("DefaultValue.constant").t)),
                ("per-instance-first-default", lambda k, p, s: z3.And(z3.BoolVal(k == "return"), self.kind != cx.const("DefaultValue.constant").t))]


# ------------------------------------------------------------------------------------------------------------------
@register
class TupleDefault(Contract):
    """BaseTuple.__init__, the default of a Tuple declared without one (cut point: the body of `if default_value is None:`).
    'Mutable defaults are per instance': the tuple's default may be the CONSTANT tuple of the members' defaults only when EVERY
    member's default is a constant; as soon as one member needs a per-instance default (a List, Dict, Instance with
    arguments ...) the tuple's default must be computed per instance (default_value_type callable, through
    _get_default_value) -- otherwise one container object is shared by all instances and by the member trait itself."""
    path = "traits/trait_types.py"
    qualname = "BaseTuple.__init__"
    properties = ("C10",)
    class_paths = ("traits/trait_types.py",)
    overloads = ("two-members", "three-members")
    assumptions = ("A-PY", "cut point: the statement computing the default; bounded shape: two / three member traits with arbitrary default kinds",
                   "the member names of DefaultValue are read from traits/constants.py on this run; their values are distinct integers (IntEnum), only distinctness is used")
    undecided_probe = dict(harness="hastraits", family="tuple_default")

    @property
    def cid(self):
        return "%s:%s<default cut point>" % (self.path, self.qualname)

    def segment(self, fn):
        import ast
        hits = [n for n in ast.walk(fn) if isinstance(n, ast.If) and ast.unparse(n.test) == "default_value is None"]
        if len(hits) != 1:
            raise Unsupported("BaseTuple.__init__ no longer has one `if default_value is None:` statement")
        return list(hits[0].body)

    def configure(self, cx, I, ov):
        import ast
        from vc.pyvc import source
        csrc, ctree, _f, _c = source.index_module("traits/constants.py")
        kinds = {}
        for n in ast.walk(ctree):
            if isinstance(n, ast.ClassDef) and n.name == "DefaultValue":
                for b in n.body:
                    if isinstance(b, ast.Assign) and isinstance(b.targets[0], ast.Name):
                        kinds[b.targets[0].id] = len(kinds)          # the members are distinct integers: only distinctness is used
        self.kinds = kinds
        self.n = 2 if ov == "two-members" else 3
        self.kind = [z3.Int("member_%d_default_kind" % i) for i in range(self.n)]
        self.dflt = [z3.Const("member_%d_default" % i, Val) for i in range(self.n)]
        self.members = [z3.Const("member_trait_%d" % i, Val) for i in range(self.n)]
        enum = z3.Const("DefaultValue_enum", Val)
        cx.module_globals["DefaultValue"] = VElem(enum)
        for nm, v in kinds.items():
            cx.elem_attrs[nm] = (lambda v: lambda I2, o, st, k: k(VInt(z3.IntVal(v)), st))(v)

        def default_value_attr(I2, o, st, k):
            idx = [i for i, m in enumerate(self.members) if o.t.eq(m)]
            if not idx:
                return None
            i = idx[0]
            return k(VFunc("opaque", name="default_value", apply=lambda I3, a, kw, s, kk: kk(VTuple([VInt(self.kind[i]), VElem(self.dflt[i])]), s)), st)
        cx.elem_attrs["default_value"] = default_value_attr

    def segment_env(self, cx, I, ov):
        st = St()
        self.self_ref = VRef(cx.new_oid())
        st = st.put(self.self_ref.oid, HObj("obj", None, "BaseTuple", {"types": VTuple([VElem(m) for m in self.members])}))
        return st, {"self": self.self_ref, "default_value": NONE, "metadata": VElem(z3.Const("metadata", Val))}, dict(
            witness={"kind%d" % i: self.kind[i] for i in range(self.n)}, concretise=lambda m: dict(harness="hastraits", family="tuple_default"))

    def post(self, cx, I, ov, info, kind, payload, st):
        if kind == "raise":
            return [("exc-free", z3.BoolVal(False), dict(exception="%s %r" % (payload.cname or payload.sym, payload.origin)))]
        CONST, CALLABLE = self.kinds.get("constant"), self.kinds.get("callable")
        all_const = z3.And(*[k_ == CONST for k_ in self.kind])
        dv = st.env.get("default_value")
        f = st.heap[self.self_ref.oid].fields
        dvt = f.get("default_value_type")
        is_dynamic = isinstance(dv, VFunc) and dv.kind == "bound" and getattr(dv, "name", None) == "_get_default_value"
        out = [("lemma:DefaultValue.constant-and-callable-exist", z3.BoolVal(CONST is not None and CALLABLE is not None))]
        if is_dynamic:
            out.append(("post:a-per-instance-default-is-declared-as-such", dvt.t == CALLABLE if isinstance(dvt, VInt) else z3.BoolVal(False)))
            out.append(("post:per-instance-default-only-when-some-member-needs-one", z3.Not(all_const)))
        else:
            sq = st.heap[dv.oid].payload if isinstance(dv, VRef) and st.heap[dv.oid].kind == "tuple" else None
            items = dv.items if isinstance(dv, VTuple) else None
            if sq is not None:
                good = z3.And(z3.Length(sq) == self.n, *[sq[i] == self.dflt[i] for i in range(self.n)])
            elif items is not None and len(items) == self.n:
                good = z3.And(*[as_val(cx, items[i], st) == self.dflt[i] for i in range(self.n)])
            else:
                good = z3.BoolVal(False)
            out.append(("post:a-CONSTANT-default-only-when-EVERY-member's-default-is-constant", all_const))
            out.append(("post:the-constant-default-is-the-tuple-of-the-members'-defaults", good))
            out.append(("post:the-default-kind-stays-constant", z3.BoolVal(dvt is None)))
        return out

    def covers(self, cx, ov, info):
        return [("constant", lambda k, p, s: k == "return" and not isinstance(s.env.get("default_value"), VFunc)),
                ("per-instance", lambda k, p, s: k == "return" and isinstance(s.env.get("default_value"), VFunc))]
