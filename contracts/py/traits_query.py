"""C10: HasTraits.traits(**metadata) -- the query behind trait_names / trait_get / copyable_trait_names / clone_traits /
__getstate__ / editable_traits ... must not write class state.

'No sequence of operations on one instance (... adding instance traits) ever changes the ... trait definitions observable on
another instance of the same class or on the class itself': traits() merges the class's trait dictionary (__base_traits__)
with the instance's own traits and with traits found for names in the instance dictionary.  The merge must be made in a
COPY: the class dictionary -- shared by every instance, inherited by later subclasses -- is left exactly as it was, whatever
the metadata filter.  CUT-POINT contract: the merging part of the real function (everything before the `if len(metadata) == 0`
test), executed for arbitrary dictionaries; frame clause over the class dictionary."""
import ast

import z3

from vc.unit import Contract, register
from vc.pyvc.values import *  # noqa: F401,F403
from vc.pyvc.core import HObj, St, as_val, raise_
from vc.pyvc import loops

PATH = "traits/has_traits.py"


@register
class TraitsQueryMerge(Contract):
    path = PATH
    qualname = "HasTraits.traits"
    properties = ("C10",)
    class_paths = (PATH,)
    overloads = ("filtered-query", "unfiltered-query")
    assumptions = ("A-PY", "A-BUILTIN:dict", "cut point: the statements of traits() before the metadata filter; _instance_traits() / trait(name) opaque")

    @property
    def cid(self):
        return "%s:%s<merge cut point>" % (self.path, self.qualname)

    def segment(self, fn):
        idx = None
        for i, stmt in enumerate(fn.body):
            if isinstance(stmt, ast.If) and ast.unparse(stmt.test) == "len(metadata) == 0" and len(stmt.body) == 1 and isinstance(stmt.body[0], ast.Return):
                idx = i          # `if len(metadata) == 0: return traits` -- the end of the merging part
                break
        if idx is None:
            raise Unsupported("traits(): the `if len(metadata) == 0` test was not found at the top level")
        body = [s for s in fn.body[:idx] if not (isinstance(s, ast.Expr) and isinstance(s.value, ast.Constant))]
        if not body:
            raise Unsupported("traits(): nothing precedes the metadata test")
        return body

    def configure(self, cx, I, ov):
        cx.const("None")
        self.B0, self.IT, self.D = z3.Const("class_base_traits", MapV), z3.Const("instance_traits", MapV), z3.Const("instance_dict", MapV)
        found = z3.Function("trait_lookup", Val, Val)

        def attr(name, fn):
            cx.elem_attrs[name] = fn
        attr("__base_traits__", lambda I2, o, st, k: k(st.ghost["base_ref"], st))
        attr("__dict__", lambda I2, o, st, k: k(st.ghost["dict_ref"], st))
        attr("_instance_traits", lambda I2, o, st, k: k(VFunc("opaque", name="_instance_traits", apply=lambda I3, a, kw, s, kk: kk(s.ghost["it_ref"], s)), st))
        attr("trait", lambda I2, o, st, k: k(VFunc("opaque", name="trait", apply=lambda I3, a, kw, s, kk: kk(VElem(found(as_val(I3.cx, a[0], s))), s)), st))

        def len_hook(I2, x, st, k):
            if isinstance(x, VFunc) and x.kind == "objdict":
                return k(VInt(0 if ov == "unfiltered-query" else 1), st)
            return None
        cx.len_hook = len_hook
        def getitem_hook(I2, obj, key, st, k):
            # name[-6:] of a (string) key taken from a dictionary of opaque keys: some text determined by the key
            if isinstance(obj, VElem) and isinstance(key, VSlice):
                return k(VStr(z3.Function("tail_of_name", Val, StrS)(obj.t)), st)
            return None
        cx.getitem_hook = getitem_hook
        none = lambda i, view, st: []
        cx.on_loop = loops.make_hook({
            0: loops.LoopSpec("for (name, trt) in self._instance_traits().items()", ["traits"], none),
            1: loops.LoopSpec("for name in self.__dict__.keys()", ["traits"], none)})

    def segment_env(self, cx, I, ov):
        st = St()
        refs = {}
        for key, payload in (("base_ref", self.B0), ("it_ref", self.IT), ("dict_ref", self.D)):
            r = VRef(cx.new_oid())
            st = st.put(r.oid, HObj("dict", payload)).gset(key, r)
            refs[key] = r
        self.refs = refs
        md = VRef(cx.new_oid())
        st = st.put(md.oid, HObj("obj", None, None, {"transient": VElem(z3.Const("filter", Val))} if ov == "filtered-query" else {}, {"is_state_dict": True}))
        return st, {"self": VElem(z3.Const("self_object", Val)), "metadata": VFunc("objdict", ref=md)}, dict(
            witness={}, concretise=lambda m: dict(harness="hastraits", family="class_state_untouched"))

    def post(self, cx, I, ov, info, kind, payload, st):
        if kind == "raise":
            return [("exc-free", z3.BoolVal(False), dict(exception="%s %r" % (payload.cname or payload.sym, payload.origin)))]
        B1 = st.heap[self.refs["base_ref"].oid].payload
        IT1 = st.heap[self.refs["it_ref"].oid].payload
        D1 = st.heap[self.refs["dict_ref"].oid].payload
        t = st.env.get("traits")
        return [("frame:the-class's-trait-dictionary-is-left-exactly-as-it-was", B1 == self.B0),
                ("frame:the-instance's-own-dictionaries-are-only-read", z3.And(IT1 == self.IT, D1 == self.D)),
                ("post:the-merge-is-made-in-a-dictionary-of-its-own", z3.BoolVal(isinstance(t, VRef) and t.oid not in [r.oid for r in self.refs.values()]))]

    def covers(self, cx, ov, info):
        return [("merges", lambda k, p, s: True)]
