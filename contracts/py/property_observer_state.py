"""C12: the observer state a class installs for a Property(observe=...) -- a CUT-POINT contract inside
update_traits_class_dict (the metaclass pass that builds a HasTraits class).

'no read returns a value cached before the last relevant change': the handler that reacts to a dependency change drops the
cache only if it was created with cached=True (contract of _create_property_observe_state.<locals>.handler).  Whether the
property is cached is a fact of THE CLASS BEING BUILT: a subclass that overrides only the getter with @cached_property gets
a migrated Property trait with cached=True.  So, at the end of the per-trait pass, for every name whose trait (the final
trait of this class for that name) is a property with an observe expression:

    observers[name] == [ _create_property_observe_state(observe=trait.observe, property_name=name, cached=trait.cached) ]

-- rebuilt from this class's trait WHATEVER state was merged in from the base classes before.

What is verified: the last statement of the loop `for name in list(class_traits.keys())` of the real function, selected
structurally on every run, executed from an arbitrary state (any trait, any name, any previous contents of `observers`);
plus the syntactic side condition that within that loop `trait` only ever holds class_traits[name] (or its clone, stored
back).  The 600 other lines of update_traits_class_dict are not under contract."""
import ast

import z3

from vc.unit import Contract, register
from vc.pyvc.values import *  # noqa: F401,F403
from vc.pyvc.core import HObj, St, as_val, raise_

PATH = "traits/has_traits.py"
LOOP = "for name in list(class_traits.keys())"


def final_pass(fn):
    loops = [n for n in ast.walk(fn) if isinstance(n, ast.For) and "for %s in %s" % (ast.unparse(n.target), ast.unparse(n.iter)) == LOOP]
    if len(loops) != 1:
        raise Unsupported("the per-trait pass %r was not found exactly once in update_traits_class_dict" % LOOP)
    return loops[0]


@register
class PropertyObserverState(Contract):
    path = PATH
    qualname = "update_traits_class_dict"
    properties = ("C12",)
    class_paths = (PATH,)
    overloads = ("state-merged-from-a-base-class", "no-previous-state")
    assumptions = ("A-PY", "cut point: the last statement of the per-trait pass, from an arbitrary state",
                   "_create_property_observe_state through its contract (contracts/py/cached_property.py): here a function of its three arguments")

    @property
    def cid(self):
        return "%s:%s<observer-state cut point>" % (self.path, self.qualname)

    def segment(self, fn):
        loop = final_pass(fn)
        last = loop.body[-1]
        # side condition: inside the pass `trait` is class_traits[name] or its clone stored back into class_traits[name]
        for n in ast.walk(loop):
            if isinstance(n, ast.Assign) and any(isinstance(t, ast.Name) and t.id == "trait" for t in n.targets):
                src = ast.unparse(n)
                if src not in ("trait = class_traits[name]", "class_traits[name] = trait = _clone_trait(trait)"):
                    raise Unsupported("`trait` is rebound in the per-trait pass by %r: the cut-point contract no longer applies" % src)
        if not (isinstance(last, ast.If) and "observe" in ast.unparse(last.test)):
            raise Unsupported("the per-trait pass no longer ends with the observer-state statement (it ends with %r)" % ast.unparse(last)[:80])
        return [last]

    def configure(self, cx, I, ov):
        cx.const("None")
        self.trait = z3.Const("final_trait_of_this_class", Val)
        self.ttype = z3.String("trait.type")
        self.observe, self.cached = z3.Consts("trait.observe trait.cached", Val)
        self.state = z3.Function("_create_property_observe_state", Val, Val, Val, Val)
        cx.elem_attrs["type"] = lambda I2, o, st, k: k(VStr(self.ttype), st)
        cx.elem_attrs["observe"] = lambda I2, o, st, k: k(VElem(self.observe), st)
        cx.elem_attrs["cached"] = lambda I2, o, st, k: k(VElem(self.cached), st)

        def create(I2, a, kw, st, k):
            names = ("observe", "property_name", "cached")
            vals = dict(zip(names, a))
            vals.update(kw)
            t = self.state(as_val(I2.cx, vals["observe"], st), as_val(I2.cx, vals["property_name"], st), as_val(I2.cx, vals["cached"], st))
            return k(VElem(t), st.gset("created", st.ghost.get("created", 0) + 1))
        cx.module_globals["_create_property_observe_state"] = VFunc("opaque", name="_create_property_observe_state", apply=create)

    def segment_env(self, cx, I, ov):
        NONE_T = cx.const("None").t
        st = St()
        self.name = z3.String("name")
        self.obs0 = z3.Const("observers_before", MapV)
        oref = VRef(cx.new_oid())
        st = st.put(oref.oid, HObj("dict", self.obs0))
        key = cx.box_str(self.name)
        if ov == "no-previous-state":
            st = st.assume(self.obs0[key] == Opt.none)
        else:
            st = st.assume(self.obs0[key] != Opt.none)
        self.oref = oref
        return st, {"trait": VElem(self.trait), "name": VStr(self.name), "observers": oref}, dict(
            witness={"trait.type": self.ttype, "observe is None": self.observe == NONE_T},
            concretise=lambda m: dict(harness="hastraits", family="subclass_cached_getter"))

    def post(self, cx, I, ov, info, kind, payload, st):
        NONE_T = cx.const("None").t
        if kind not in ("return", "next") and kind == "raise":
            return [("exc-free", z3.BoolVal(False), dict(exception="%s %r" % (payload.cname or payload.sym, payload.origin)))]
        obs1 = st.heap[self.oref.oid].payload
        key = cx.box_str(self.name)
        observed_property = z3.And(self.ttype == z3.StringVal("property"), self.observe != NONE_T)
        expected = self.state(self.observe, key, self.cached)
        entry = obs1[key]
        j = z3.Int("j!os")
        # the entry is a (fresh) one-element list holding the state built from THIS class's trait
        holds = z3.BoolVal(False)
        for oid, h in st.heap.items():
            if h.kind == "list" and h.payload is not None and oid != self.oref.oid:
                holds = z3.Or(holds, z3.And(entry == Opt.some(cx.ref_val(VRef(oid))), z3.Length(h.payload) == 1, h.payload[0] == expected))
        x = z3.Const("x!os", Val)
        return [("post:an-observed-property-gets-the-state-built-from-this-class's-own-trait-whatever-was-merged-before", z3.Implies(observed_property, holds)),
                ("post:nothing-else-in-the-observer-table-changes", z3.ForAll([x], z3.Implies(x != key, obs1[x] == self.obs0[x]))),
                ("post:other-traits-keep-their-entry", z3.Implies(z3.Not(observed_property), obs1[key] == self.obs0[key]))]

    def covers(self, cx, ov, info):
        return [("observed-property", lambda k, p, s: z3.And(self.ttype == z3.StringVal("property"), self.observe != cx.const("None").t)),
                ("other-trait", lambda k, p, s: self.ttype != z3.StringVal("property"))]
