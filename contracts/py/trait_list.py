"""Contracts for traits/trait_list_object.py (C05, C04, C19).

Reference semantics ("TraitList refines list"): validate what is inserted, item
by item in order -- the first rejected item's exception propagates and nothing
changes -- then perform the builtin list operation of the A-BUILTIN model on a
plain list holding the same items.  The real method must end in the same
outcome (normal / same exception), the same contents and the same result, and
its notifications must satisfy the event laws of spec.containers.
"""
import z3

from vc.unit import Contract, register
from vc.pyvc.values import *  # noqa: F401,F403
from vc.pyvc.core import HObj, St, as_val, raise_
from vc.pyvc.builtins_model import slice_indices, ite
from spec.containers import Ev, Validator, list_event_laws, exc_same

PATH = "traits/trait_list_object.py"
INT = z3.IntSort()


def sym_slice(cx, prefix="k"):
    def opt(n):
        return VOptInt(z3.Bool("%s_%s_none" % (prefix, n)), z3.Int("%s_%s" % (prefix, n)))
    return VSlice(opt("start"), opt("stop"), opt("step"))


def slice_witness(sl, prefix="key"):
    w = {}
    for n in ("start", "stop", "step"):
        c = getattr(sl, n)
        w["%s.%s.is_none" % (prefix, n)] = c.is_none
        w["%s.%s" % (prefix, n)] = c.t
    return w


# ---------------------------------------------------------------------------------------------
# module-level helpers
# ---------------------------------------------------------------------------------------------

@register
class NormalizeSliceOrIndex(Contract):
    """_normalize_slice_or_index(index, length): the normalised index denotes the same set of
    positions as `index` does on a list of `length` items (reversed order iff `reversed`),
    in the normal form the property requires of emitted events."""
    path = PATH
    qualname = "_normalize_slice_or_index"
    properties = ("C05",)
    overloads = ("int", "slice")
    assumptions = ("A-PY", "A-BUILTIN:slice.indices")

    def setup(self, cx, I, ov):
        length = z3.Int("length")
        st = St().assume(length >= 0)
        if ov == "int":
            i = z3.Int("index")
            return st, [VInt(i), VInt(length)], {}, dict(index=i, length=length, witness=dict(index=i, length=length))
        sl = sym_slice(cx, "index")
        w = slice_witness(sl, "index")
        w["length"] = length
        return st, [sl, VInt(length)], {}, dict(sl=sl, length=length, witness=w)

    @staticmethod
    def spec(B, ov, index, length, rev, norm):
        """Clauses relating the result (rev: z3 Bool, norm: VInt | VSlice | VIdx) to the arguments."""
        out = []
        if ov == "int":
            i = index
            out.append(("post:not-reversed", z3.Not(rev)))
            if isinstance(norm, VInt):
                out.append(("post:index", z3.Implies(z3.And(-length <= i, i < length),
                                                     norm.t == ite(i < 0, i + length, i))))
            else:
                out.append(("post:index", z3.BoolVal(False)))
            return out
        a, b, c = slice_indices(B.cx, index, length)
        cnt = B.range_count(a, b, c, None)
        lo, stp = B.asc(a, c, cnt)
        out.append(("post:reversed-iff-negative-step", rev == (c < 0)))
        from spec.containers import _idx_cases
        sel, nf = [], []
        for (g, tag, x) in _idx_cases(norm):
            if tag == "int":
                # an integer result stands for the contiguous run starting there: legal when at most one position
                # is selected, or the positions are contiguous
                # (for step 1 the integer is the splice point even when nothing is selected: l[2:2] = [x] inserts at 2)
                sel.append(z3.Implies(g, z3.And(z3.Implies(cnt >= 1, x == lo), z3.Implies(c == 1, x == a),
                                                z3.Or(cnt <= 1, stp == 1))))
                nf.append(z3.Implies(g, z3.And(0 <= x, x <= length)))
            elif tag == "slice":
                na, nb, nc, wf = x
                ncnt = B.range_count(na, nb, nc, None)
                sel.append(z3.Implies(g, z3.And(wf, na == lo, nc == stp, ncnt == cnt)))
                nf.append(z3.Implies(g, z3.And(0 <= na, na < nb, nb <= length, nc >= 2)))
            else:
                sel.append(z3.BoolVal(False))
        out.append(("post:same-positions", z3.And(*sel)))
        out.append(("post:normal-form", z3.And(*nf)))
        return out

    def post(self, cx, I, ov, info, kind, payload, st):
        B = I.bi
        if kind == "raise":
            if ov == "slice":
                a, b, c = slice_indices(cx, info["sl"], info["length"])
                return [("raise:only-zero-step", z3.And(z3.BoolVal(payload.cname == "ValueError"), c == 0))]
            return [("exc-free", z3.BoolVal(False))]
        if not (isinstance(payload, VTuple) and len(payload.items) == 2 and isinstance(payload.items[0], VBool)):
            return [("post:result-shape", z3.BoolVal(False))]
        rev, norm = payload.items
        idx = info["index"] if ov == "int" else info["sl"]
        return self.spec(B, ov, idx, info["length"], rev.t, norm)

    def covers(self, cx, ov, info):
        if ov == "int":
            return [("returns", lambda k, p, s: k == "return")]
        return [("returns-index", lambda k, p, s: k == "return" and isinstance(p.items[1], VInt)),
                ("returns-slice", lambda k, p, s: k == "return" and isinstance(p.items[1], VSlice))]

    def summary(self, I, self_ref, args, kwargs, st, k):
        cx, B = I.cx, I.bi
        index, length = args
        L = length.t
        if isinstance(index, (VInt, VBool)):
            i = index.t if isinstance(index, VInt) else z3.If(index.t, 1, 0)
            # precondition of the int overload: -length <= index < length (checked at the call site)
            st = I.require(st, z3.And(-L <= i, i < L), "pre@_normalize_slice_or_index:index-in-range")
            return k(VTuple([VBool(False), VInt(ite(i < 0, i + L, i))]), st)
        if not isinstance(index, VSlice):
            raise Unsupported("_normalize_slice_or_index summary for %r" % (index,))
        a, b, c = slice_indices(cx, index, L)

        def nz(st2):
            rev = cx.fresh("rev", z3.BoolSort())
            norm = VIdx(cx.fresh("norm_is_slice", z3.BoolSort()), cx.fresh_int("norm_i"), cx.fresh_int("norm_a"),
                        cx.fresh_int("norm_b"), cx.fresh_int("norm_c"))
            cl = self.spec(B, "slice", index, L, rev, norm)
            return k(VTuple([VBool(rev), norm]), st2.assume(*[c_[1] for c_ in cl]))
        return cx.branch(st, c == 0, lambda s0: raise_(s0, "ValueError"), nz)


@register
class RemovedItems(Contract):
    path = PATH
    qualname = "_removed_items"
    properties = ("C05",)
    overloads = ("int", "slice")
    assumptions = ("A-BUILTIN:list.__getitem__",)

    def setup(self, cx, I, ov):
        s = z3.Const("items", SeqV)
        st = St()
        ref = VRef(cx.new_oid())
        st = st.put(ref.oid, HObj("list", s))
        dflt = cx.const("INVALID")
        if ov == "int":
            i = z3.Int("index")
            return st, [ref, VInt(i), dflt], {}, dict(s=s, i=i, dflt=dflt, witness=dict(items=s, index=i))
        sl = sym_slice(cx, "index")
        return st, [ref, sl, dflt], {}, dict(s=s, sl=sl, dflt=dflt, witness=dict(items=s, **slice_witness(sl, "index")))

    def post(self, cx, I, ov, info, kind, payload, st):
        s = info["s"]
        n = z3.Length(s)
        if ov == "int":
            i = info["i"]
            if kind == "raise":
                return [("exc-free", z3.BoolVal(False))]
            inr = z3.And(-n <= i, i < n)
            if isinstance(payload, VRef):
                r = st.heap[payload.oid].payload
                return [("post:in-range-item", z3.And(inr, r == z3.Unit(s[ite(i < 0, i + n, i)])))]
            return [("post:default-when-out-of-range", z3.And(z3.Not(inr), as_val(cx, payload, st) == info["dflt"].t))]
        # slice: exactly what list.__getitem__ gives (same builtin model, evaluated independently here)
        out = []
        ref_outs = I.bi.list_getitem(VRef(1), info["sl"], St(heap={1: HObj("list", s)}), lambda v, s2: [("return", v, s2)])
        for (k2, p2, st2) in ref_outs:
            g = z3.And(*st2.pc) if st2.pc else z3.BoolVal(True)
            if k2 != kind:
                out.append(("post:same-outcome-as-list", z3.Not(g)))
            elif kind == "return":
                mine = st.heap[payload.oid].payload if isinstance(payload, VRef) else None
                out.append(("post:same-items-as-list", z3.Implies(g, mine == st2.heap[p2.oid].payload)
                            if mine is not None else z3.BoolVal(False)))
            else:
                out.append(("raise:same-class-as-list", z3.Implies(g, exc_same(payload, p2))))
        return out

    def covers(self, cx, ov, info):
        return [("returns", lambda k, p, s: k == "return")]


# ---------------------------------------------------------------------------------------------
# TraitList methods
# ---------------------------------------------------------------------------------------------

def make_list_self(cx, cls="TraitList", extra_fields=None):
    """Standard pre-state: `self` is a TraitList holding an arbitrary sequence `items`, with an arbitrary
    (opaque) item validator and an arbitrary list of (opaque) notifiers."""
    s0 = z3.Const("items", SeqV)
    V = Validator(cx, "item")
    st = St()
    nref = VRef(cx.new_oid())
    st = st.put(nref.oid, HObj("list", z3.Const("notifiers", SeqV)))
    self_ref = VRef(cx.new_oid())
    fields = {"item_validator": V.as_value(), "notifiers": nref}
    fields.update(extra_fields or {})
    st = st.put(self_ref.oid, HObj("list", s0, cls, fields))
    st = st.gset("events", ())
    return st, self_ref, s0, V


def first_failing(cx, V, S):
    """fresh k: -1 if the validator accepts every item of S, else the first index it rejects."""
    key = ("ff", V.name, S.sexpr())
    cache = cx.__dict__.setdefault("_ff", {})
    if key not in cache:
        k = cx.fresh_int("kspec")
        j = z3.Int("j!ff")
        n = z3.Length(S)
        cx.axioms.append(z3.Or(
            z3.And(k == -1, z3.ForAll([j], z3.Implies(z3.And(0 <= j, j < n), V.ok(S[j])))),
            z3.And(0 <= k, k < n, z3.Not(V.ok(S[k])), z3.ForAll([j], z3.Implies(z3.And(0 <= j, j < k), V.ok(S[j]))))))
        cache[key] = k
    return cache[key]


def validated_seq(cx, V, S):
    """The sequence of converted items [val(x) for x in S] (same function symbol the engine uses)."""
    xj = z3.Const("x!spec", Val)
    R = cx.map_fn(V.val(xj), xj)(S)
    j = z3.Int("j!vs")
    cx.axioms.append(z3.And(z3.Length(R) == z3.Length(S),
                            z3.ForAll([j], z3.Implies(z3.And(0 <= j, j < z3.Length(S)), R[j] == V.val(S[j])))))
    return R


class ListMutator(Contract):
    # the concrete oracle asked when the function leaves the verifier's subset (rewritten loop, new construct): random
    # operations against the builtin model on validated items, every clause of the statement evaluated on the real code
    undecided_probe = dict(harness="containers", family="list_probe", trials=4000)
    path = PATH
    properties = ("C05", "C04", "C19")
    cls = "TraitList"
    inline = ((None, "_removed_items"),)
    assumptions = ("A-PY", "A-BUILTIN:list", "A-EQ", "A-CB:validator", "A-CB:notifier-does-not-mutate")
    op = None             # builtin list method name of the reference
    may_emit_identity = False

    # -- argument description: subclasses implement args(cx, ov) -> (engine args, kwargs, info)
    def args(self, cx, ov):
        raise NotImplementedError

    def setup(self, cx, I, ov):
        st, self_ref, s0, V = make_list_self(cx, self.cls)
        st, args, kwargs, info = self.args(cx, ov, st)
        info.update(s0=s0, V=V, self_ref=self_ref)
        info.setdefault("witness", {})["items"] = s0
        info["concretise"] = lambda m: self.concretise(m, ov, info)
        return st, [self_ref] + args, kwargs, info

    def concrete_args(self, U, ov, info):
        """-> dict of concrete arguments for the replay harness (replay/containers.py)"""
        return {}

    def concretise(self, m, ov, info):
        from vc.concretise import Universe
        U = Universe(m)
        items = U.seq(info["s0"])
        args = self.concrete_args(U, ov, info)
        return dict(harness="containers", family="list", cls=self.cls, op=self.fname, ov=ov, items=items, args=args,
                    validator=U.validator_table(info["V"]))

    # reference: what to validate and which builtin call to make
    def reference(self, cx, I, ov, info):
        """-> (list of validator-failure descriptions (cond, exc term), builtin outcomes
        [(kind, payload, guard, seq_after, heap)]), computed on a plain list holding the same items."""
        raise NotImplementedError

    def run_builtin(self, I, info, name, args, kwargs=None):
        B = I.bi
        st = St(heap={1: HObj("list", info["s0"])})
        outs = B.call_method("list", name, VRef(1), args, kwargs or {}, st, lambda v, s2: [("return", v, s2)])
        res = []
        for (kind, payload, st2) in outs:
            g = z3.And(*st2.pc) if st2.pc else z3.BoolVal(True)
            res.append((kind, payload, g, st2.heap[1].payload, st2))
        return res

    def post(self, cx, I, ov, info, kind, payload, st):
        return self.tag(self._post(cx, I, ov, info, kind, payload, st))

    def _post(self, cx, I, ov, info, kind, payload, st):
        B = I.bi
        s0 = info["s0"]
        s1 = st.heap[info["self_ref"].oid].payload
        evs = st.ghost["events"]
        vfails, ref = self.reference(cx, I, ov, info)
        out = []
        notifier_exc = kind == "raise" and isinstance(payload.origin, tuple) and payload.origin[0] == "notifier"
        if kind == "return" or notifier_exc:
            for (cond, _e) in vfails:
                out.append(("post:every-inserted-item-validated", z3.Not(cond)))
            for (rk, rp, g, s_after, rst) in ref:
                if rk == "raise":
                    out.append(("post:list-raises-here", z3.Not(g)))
                else:
                    out.append(("post:contents-as-list", z3.Implies(g, s1 == s_after)))
                    if kind == "return":
                        out.append(("post:result-as-list", z3.Implies(g, self.same_result(cx, info, payload, st, rp, rst))))
            # events
            if len(evs) > 1:
                out.append(("post:at-most-one-event", z3.BoolVal(False)))
            elif len(evs) == 0:
                out.append(("post:event-when-contents-change", s1 == s0))
            else:
                ev = evs[0]
                out.append(("post:event-after-mutation", ev.at == s1))
                out += list_event_laws(B, s0, ev)
        else:
            alts = []
            for (cond, e) in vfails:
                alts.append(z3.And(cond, payload.sym == e) if payload.sym is not None else z3.BoolVal(False))
            for (rk, rp, g, s_after, rst) in ref:
                if rk == "raise":
                    alts.append(z3.And(g, exc_same(payload, rp)))
            out.append(("raise:same-exception-as-list-or-validator", z3.Or(*alts) if alts else z3.BoolVal(False)))
            out.append(("raise:contents-unchanged", s1 == s0))
            out.append(("raise:no-event", z3.BoolVal(len(evs) == 0)))
        return out

    def tag(self, clauses):
        """C05-C07 own every clause; C04 the 'only validated items enter' clauses; C19 (and C04) the failure-atomicity ones"""
        out = []
        own = tuple(p for p in self.properties if p in ("C05", "C06", "C07"))
        for cl in clauses:
            name = cl[0]
            if name.startswith("raise:"):
                props = own + ("C04", "C19")
            elif "validated" in name:
                props = own + ("C04",)
            else:
                props = own
            out.append((cl[0], cl[1], cl[2] if len(cl) > 2 else {}, props))
        return out

    def same_result(self, cx, info, payload, st, rp, rst):
        if isinstance(payload, VNone) and isinstance(rp, VNone):
            return z3.BoolVal(True)
        if isinstance(payload, VRef) and isinstance(rp, VRef):
            # in-place operators return the list itself
            return z3.BoolVal(payload.oid == info["self_ref"].oid and rp.oid == 1)
        if isinstance(payload, (VElem, VConst)) and isinstance(rp, (VElem, VConst)):
            return payload.t == rp.t
        return z3.BoolVal(False)

    def covers(self, cx, ov, info):
        return [("returns-normally", lambda k, p, s: k == "return")]


@register
class TLNotify(Contract):
    """TraitList.notify(index, removed, added): every notifier is called once, in order, with
    (self, index, removed, added).  Call-site summary: one event is appended to the ghost trace; a notifier
    may raise (A-CB), in which case the exception propagates."""
    path = PATH
    qualname = "TraitList.notify"
    properties = ("C05", "C02")
    assumptions = ("A-CB:notifier",)

    def configure(self, cx, I, ov):
        cx.on_loop = foreach_call_loop

    def setup(self, cx, I, ov):
        st, self_ref, s0, V = make_list_self(cx)
        idx = VInt(z3.Int("index"))
        rem, st = alloc_list(cx, st, z3.Const("removed", SeqV))
        add, st = alloc_list(cx, st, z3.Const("added", SeqV))
        st = st.gset("calls", ())
        return st, [self_ref, idx, rem, add], {}, dict(self_ref=self_ref, idx=idx, rem=rem, add=add,
                                                        notifiers=z3.Const("notifiers", SeqV))

    def post(self, cx, I, ov, info, kind, payload, st):
        calls = st.ghost["calls"]
        # the loop schema records ('foreach', seq, args, complete?) segments
        ok = (len(calls) == 1 and calls[0][0] == "foreach")
        if not ok:
            return [("post:each-notifier-once-in-order", z3.BoolVal(False))]
        _, seq, args, kwargs, upto = calls[0]
        good_args = (len(args) == 4 and not kwargs and isinstance(args[0], VRef) and args[0].oid == info["self_ref"].oid
                     and args[1] is info["idx"] and isinstance(args[2], VRef) and args[2].oid == info["rem"].oid
                     and isinstance(args[3], VRef) and args[3].oid == info["add"].oid)
        out = [("post:each-notifier-once-in-order", z3.And(seq == info["notifiers"], z3.BoolVal(good_args)))]
        if kind == "return":
            out.append(("post:all-notifiers-called", upto == z3.Length(seq)))
        else:
            out.append(("raise:only-from-a-notifier", z3.BoolVal(isinstance(payload.origin, tuple) and payload.origin[0] == "notifier")))
        return out

    def summary(self, I, self_ref, args, kwargs, st, k):
        cx, B = I.cx, I.bi
        names = ["index", "removed", "added"]
        vals = dict(zip(names, args))
        vals.update(kwargs)
        if set(vals) != set(names):
            return raise_(st, "TypeError")
        rem, add = B.seq_of(vals["removed"], st), B.seq_of(vals["added"], st)
        if rem is None or add is None:
            raise Unsupported("notify with non-list removed/added")
        ev = Ev(vals["index"], rem, add, st.heap[self_ref.oid].payload)
        st2 = st.gset("events", st.ghost.get("events", ()) + (ev,))
        out = k(NONE, st2)
        nseq = st.heap[st.heap[self_ref.oid].fields["notifiers"].oid].payload
        e = cx.fresh("notifier_exc", Exc)
        stE = st2.assume(z3.Length(nseq) > 0, *cx.exc_axioms(e))
        out.append(("raise", VExc(sym=e, origin=("notifier",)), stE))
        return out


def alloc_list(cx, st, seq):
    r = VRef(cx.new_oid())
    return r, st.put(r.oid, HObj("list", seq))


def foreach_call_loop(I, node, ordinal, it, st):
    """Loop schema for `for f in <seq of opaque callables>: f(<loop-invariant args>)`:
    the body must be exactly one call of the loop variable.  The ghost trace gets one segment
    ('foreach', seq, args, kwargs, upto): f_0 .. f_{upto-1} were called in order with those arguments.
    Each call may raise (A-CB notifier), which ends the loop at that index."""
    import ast
    cx = I.cx
    if not (isinstance(node, ast.For) and isinstance(node.target, ast.Name) and len(node.body) == 1
            and isinstance(node.body[0], ast.Expr) and isinstance(node.body[0].value, ast.Call)
            and isinstance(node.body[0].value.func, ast.Name) and node.body[0].value.func.id == node.target.id
            and not node.orelse):
        return None
    seq = I.bi.iter_seq(it, st)
    if seq is None:
        return None
    call = node.body[0].value
    loopvar = node.target.id

    def uses_loopvar(n):
        return any(isinstance(x, ast.Name) and x.id == loopvar for x in ast.walk(n))
    if any(uses_loopvar(a) for a in call.args) or any(uses_loopvar(kw.value) for kw in call.keywords):
        return None

    def with_args(args, st2):
        def with_kw(kv, st3):
            kwargs = dict(zip([kw.arg for kw in call.keywords], kv))
            n = z3.Length(seq)
            seg_all = ("foreach", seq, tuple(args), kwargs, n)
            out = [("next", None, st3.gset("calls", st3.ghost.get("calls", ()) + (seg_all,)))]
            kk = cx.fresh_int("kraise")
            e = cx.fresh("notifier_exc", Exc)
            stE = st3.assume(0 <= kk, kk < n, *cx.exc_axioms(e))
            seg_part = ("foreach", seq, tuple(args), kwargs, kk + 1)
            if cx.feasible(stE):
                out.append(("raise", VExc(sym=e, origin=("notifier", kk)),
                            stE.gset("calls", stE.ghost.get("calls", ()) + (seg_part,))))
            return out
        return I.ev_list([kw.value for kw in call.keywords], st2, with_kw)
    return I.ev_list(call.args, st, with_args)


def _single(V, x):
    return [(z3.Not(V.ok(x)), V.exc(x))]


def _seq_fail(cx, V, S):
    k = first_failing(cx, V, S)
    return [(k >= 0, V.exc(S[ite(k >= 0, k, z3.IntVal(0))]))]


def opaque_iterable(cx, st, name="value"):
    """An iterable argument: modelled as a list holding an arbitrary finite sequence (A-CB: finite,
    does not raise, distinct from `self`)."""
    S = z3.Const(name, SeqV)
    r = VRef(cx.new_oid())
    st = st.put(r.oid, HObj("list", S, None, None, {"opaque_iterable": True}))
    return r, S, st


@register
class TLSetItem(ListMutator):
    qualname = "TraitList.__setitem__"
    overloads = ("int", "slice")

    def args(self, cx, ov, st):
        if ov == "int":
            key, x = z3.Int("key"), z3.Const("value", Val)
            return st, [VInt(key), VElem(x)], {}, dict(key=VInt(key), x=x, witness=dict(key=key, value=x))
        sl = sym_slice(cx, "key")
        r, S, st = opaque_iterable(cx, st)
        return st, [sl, r], {}, dict(key=sl, S=S, witness=dict(value=S, **slice_witness(sl)))

    def concrete_args(self, U, ov, info):
        if ov == "int":
            return dict(key=U.int(info["key"].t), value=U.val(info["x"]))
        return dict(key=U.slice(info["key"]), value=U.seq(info["S"]))

    def reference(self, cx, I, ov, info):
        V = info["V"]
        if ov == "int":
            return _single(V, info["x"]), self.run_builtin(I, info, "__setitem__", [info["key"], VElem(V.val(info["x"]))])
        R = validated_seq(cx, V, info["S"])
        return _seq_fail(cx, V, info["S"]), self.run_builtin(I, info, "__setitem__", [info["key"], VFunc("iterable", seq=R)])


@register
class TLDelItem(ListMutator):
    qualname = "TraitList.__delitem__"
    overloads = ("int", "slice")

    def args(self, cx, ov, st):
        if ov == "int":
            key = z3.Int("key")
            return st, [VInt(key)], {}, dict(key=VInt(key), witness=dict(key=key))
        sl = sym_slice(cx, "key")
        return st, [sl], {}, dict(key=sl, witness=slice_witness(sl))

    def concrete_args(self, U, ov, info):
        return dict(key=U.int(info["key"].t) if ov == "int" else U.slice(info["key"]))

    def reference(self, cx, I, ov, info):
        return [], self.run_builtin(I, info, "__delitem__", [info["key"]])


@register
class TLAppend(ListMutator):
    qualname = "TraitList.append"

    def args(self, cx, ov, st):
        x = z3.Const("object", Val)
        return st, [VElem(x)], {}, dict(x=x, witness=dict(object=x))

    def concrete_args(self, U, ov, info):
        return dict(object=U.val(info["x"]))

    def reference(self, cx, I, ov, info):
        V = info["V"]
        return _single(V, info["x"]), self.run_builtin(I, info, "append", [VElem(V.val(info["x"]))])


@register
class TLExtend(ListMutator):
    qualname = "TraitList.extend"
    refop = "extend"

    def args(self, cx, ov, st):
        r, S, st = opaque_iterable(cx, st, "iterable")
        return st, [r], {}, dict(S=S, witness=dict(iterable=S))

    def concrete_args(self, U, ov, info):
        return dict(iterable=U.seq(info["S"]))

    def reference(self, cx, I, ov, info):
        V = info["V"]
        R = validated_seq(cx, V, info["S"])
        return _seq_fail(cx, V, info["S"]), self.run_builtin(I, info, self.refop, [VFunc("iterable", seq=R)])


@register
class TLIAdd(TLExtend):
    qualname = "TraitList.__iadd__"
    refop = "__iadd__"


@register
class TLIMul(ListMutator):
    """`*=`: integer multipliers, and multipliers that are no integers at all (float, Fraction ...: objects without
    __index__, comparable with 1): list raises TypeError there and stays as it was"""
    qualname = "TraitList.__imul__"
    overloads = ("default", "non-index-multiplier")

    def configure(self, cx, I, ov):
        ListMutator.configure(self, cx, I, ov)
        if ov == "non-index-multiplier":
            cx.non_index_objects = True
            lt1 = z3.Bool("multiplier_less_than_1")

            def compare_hook(I2, op, a, b, st, k):
                # <non-integer> < 1: some truth value (0.5 < 1, 2.5 < 1) -- or a TypeError of its own ("5" < 1)
                import ast as _ast
                if isinstance(op, _ast.Lt) and isinstance(a, VElem) and isinstance(b, VInt):
                    unordered = z3.Bool("multiplier_not_comparable_with_int")
                    return I2.cx.branch(st, unordered, lambda s: raise_(s, "TypeError", origin=("compare",)), lambda s: k(VBool(lt1), s))
                return None
            cx.compare_hook = compare_hook

    def args(self, cx, ov, st):
        if ov == "non-index-multiplier":
            v = z3.Const("value_without_index", Val)
            return st, [VElem(v)], {}, dict(m=None, v=v, witness={})
        m = z3.Int("value")
        return st, [VInt(m)], {}, dict(m=m, witness=dict(value=m))

    def concrete_args(self, U, ov, info):
        if ov == "non-index-multiplier":
            return dict(value=0.5)
        return dict(value=U.int(info["m"]))

    def covers(self, cx, ov, info):
        if ov == "non-index-multiplier":
            return [("refused-with-TypeError", lambda k, p, s: k == "raise" and p.cname == "TypeError")]
        return ListMutator.covers(self, cx, ov, info)

    def reference(self, cx, I, ov, info):
        if ov == "non-index-multiplier":
            return [], [("raise", VExc(cname="TypeError"), z3.BoolVal(True), info["s0"], None)]
        return [], self.run_builtin(I, info, "__imul__", [VInt(info["m"])])


@register
class TLInsert(ListMutator):
    qualname = "TraitList.insert"

    def args(self, cx, ov, st):
        i, x = z3.Int("index"), z3.Const("object", Val)
        return st, [VInt(i), VElem(x)], {}, dict(i=i, x=x, witness=dict(index=i, object=x))

    def concrete_args(self, U, ov, info):
        return dict(index=U.int(info["i"]), object=U.val(info["x"]))

    def reference(self, cx, I, ov, info):
        V = info["V"]
        return _single(V, info["x"]), self.run_builtin(I, info, "insert", [VInt(info["i"]), VElem(V.val(info["x"]))])


@register
class TLPop(ListMutator):
    qualname = "TraitList.pop"
    overloads = ("index", "default")

    def args(self, cx, ov, st):
        if ov == "default":
            return st, [], {}, dict(i=None)
        i = z3.Int("index")
        return st, [VInt(i)], {}, dict(i=i, witness=dict(index=i))

    def concrete_args(self, U, ov, info):
        return dict(index=U.int(info["i"])) if info["i"] is not None else {}

    def reference(self, cx, I, ov, info):
        return [], self.run_builtin(I, info, "pop", [VInt(info["i"])] if info["i"] is not None else [])


@register
class TLRemove(ListMutator):
    qualname = "TraitList.remove"

    def args(self, cx, ov, st):
        x = z3.Const("value", Val)
        return st, [VElem(x)], {}, dict(x=x, witness=dict(value=x))

    def concrete_args(self, U, ov, info):
        return dict(value=U.val(info["x"]))

    def reference(self, cx, I, ov, info):
        return [], self.run_builtin(I, info, "remove", [VElem(info["x"])])


@register
class TLClear(ListMutator):
    qualname = "TraitList.clear"

    def args(self, cx, ov, st):
        return st, [], {}, {}

    def reference(self, cx, I, ov, info):
        return [], self.run_builtin(I, info, "clear", [])


@register
class TLReverse(ListMutator):
    qualname = "TraitList.reverse"

    def args(self, cx, ov, st):
        return st, [], {}, {}

    def reference(self, cx, I, ov, info):
        return [], self.run_builtin(I, info, "reverse", [])


@register
class TLSort(ListMutator):
    qualname = "TraitList.sort"
    overloads = ("default", "key")

    def args(self, cx, ov, st):
        rv = z3.Bool("reverse")
        if ov == "default":
            return st, [], {"reverse": VBool(rv)}, dict(kw={"reverse": VBool(rv)}, witness=dict(reverse=rv))
        keyf = VElem(z3.Const("keyfn", Val))
        kw = {"key": keyf, "reverse": VBool(rv)}
        return st, [], dict(kw), dict(kw=kw, witness=dict(reverse=rv))

    def concrete_args(self, U, ov, info):
        return dict(reverse=U.bool(info["kw"]["reverse"].t))

    def reference(self, cx, I, ov, info):
        return [], self.run_builtin(I, info, "sort", [], dict(info["kw"]))


@register
class TLInit(TLExtend):
    """TraitList(iterable, item_validator=..., notifiers=...): construction is the empty list extended by the VALIDATED items of
    the iterable, in order; the validator handed in is the one used (and kept); a rejected item propagates its exception; no
    notification is sent for the initial contents; the notifiers handed in are COPIED into a list of the new object."""
    qualname = "TraitList.__init__"
    refop = "extend"
    overloads = ("validator-and-notifiers-given",)

    def setup(self, cx, I, ov):
        st, self_ref, s0, V = make_list_self(cx, self.cls)
        st = st.assume(z3.Length(s0) == 0)                 # a list under construction is empty
        # the object does not carry its own validator / notifiers yet (class-level defaults apply)
        h = st.heap[self_ref.oid]
        given_notifiers = z3.Const("notifiers_given", SeqV)
        nref = VRef(cx.new_oid())
        st = st.put(nref.oid, HObj("list", given_notifiers))
        st = st.put(self_ref.oid, HObj(h.kind, h.payload, h.cls, {}, h.meta))
        r, S, st = opaque_iterable(cx, st, "iterable")
        info = dict(S=S, s0=s0, V=V, self_ref=self_ref, given_notifiers=given_notifiers, nref=nref, witness=dict(iterable=S))
        info["concretise"] = lambda m: None
        return st, [self_ref, r], {"item_validator": V.as_value(), "notifiers": nref}, info

    def _post(self, cx, I, ov, info, kind, payload, st):
        # (a constructor that raises hands no object to anybody: what the half-built list holds is unobservable)
        out = [c for c in ListMutator._post(self, cx, I, ov, info, kind, payload, st) if "event" not in c[0] and "contents-unchanged" not in c[0]]
        evs = st.ghost["events"]
        out.append(("post:construction-notifies-nobody" if kind == "return" else "raise:construction-notifies-nobody", z3.BoolVal(len(evs) == 0)))
        if kind == "return":
            f = st.heap[info["self_ref"].oid].fields
            iv = f.get("item_validator")
            out.append(("post:the-validator-handed-in-is-kept", z3.BoolVal(iv is not None and getattr(iv, "validator", None) is info["V"])))
            n = f.get("notifiers")
            ok = isinstance(n, VRef) and n.oid != info["nref"].oid
            out.append(("post:the-notifiers-are-copied-into-a-list-of-the-new-object", z3.And(z3.BoolVal(bool(ok)), st.heap[n.oid].payload == info["given_notifiers"]) if ok else z3.BoolVal(False)))
        return out

    def same_result(self, cx, info, payload, st, rp, rst):
        return z3.BoolVal(True)          # __init__ returns None
