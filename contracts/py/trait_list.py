"""Contracts for traits/trait_list_object.py (C05, C04, C19).

Reference semantics ("TraitList refines list"): validate what is inserted, item
by item in order -- the first rejected item's exception propagates and nothing
changes -- then perform the builtin list operation of the A-BUILTIN model on a
plain list holding the same items.  The real method must end in the same
outcome (normal / same exception), the same contents and the same result, and
its notifications must satisfy the event laws of spec.containers.
"""
import z3

from vc.unit import Contract, register
from vc.pyvc.values import *  # noqa: F401,F403
from vc.pyvc.core import HObj, St, as_val, raise_
from vc.pyvc.builtins_model import slice_indices, ite
from spec.containers import Ev, Validator, list_event_laws, exc_same

PATH = "traits/trait_list_object.py"
INT = z3.IntSort()


def sym_slice(cx, prefix="k"):
    def opt(n):
        return VOptInt(z3.Bool("%s_%s_none" % (prefix, n)), z3.Int("%s_%s" % (prefix, n)))
    return VSlice(opt("start"), opt("stop"), opt("step"))


def slice_witness(sl, prefix="key"):
    w = {}
    for n in ("start", "stop", "step"):
        c = getattr(sl, n)
        w["%s.%s.is_none" % (prefix, n)] = c.is_none
        w["%s.%s" % (prefix, n)] = c.t
    return w


# ---------------------------------------------------------------------------------------------
# module-level helpers
# ---------------------------------------------------------------------------------------------

@register
class NormalizeSliceOrIndex(Contract):
    """_normalize_slice_or_index(index, length): the normalised index denotes the same set of
    positions as `index` does on a list of `length` items (reversed order iff `reversed`),
    in the normal form the property requires of emitted events."""
    path = PATH
    qualname = "_normalize_slice_or_index"
    properties = ("C05",)
    overloads = ("int", "slice")
    assumptions = ("A-PY", "A-BUILTIN:slice.indices")

    def setup(self, cx, I, ov):
        length = z3.Int("length")
        st = St().assume(length >= 0)
        if ov == "int":
            i = z3.Int("index")
            return st, [VInt(i), VInt(length)], {}, dict(index=i, length=length, witness=dict(index=i, length=length))
        sl = sym_slice(cx, "index")
        w = slice_witness(sl, "index")
        w["length"] = length
        return st, [sl, VInt(length)], {}, dict(sl=sl, length=length, witness=w)

    @staticmethod
    def spec(B, ov, index, length, rev, norm):
        """Clauses relating the result (rev: z3 Bool, norm: VInt | VSlice | VIdx) to the arguments."""
        out = []
        if ov == "int":
            i = index
            out.append(("post:not-reversed", z3.Not(rev)))
            if isinstance(norm, VInt):
                out.append(("post:index", z3.Implies(z3.And(-length <= i, i < length),
                                                     norm.t == ite(i < 0, i + length, i))))
            else:
                out.append(("post:index", z3.BoolVal(False)))
            return out
        a, b, c = slice_indices(B.cx, index, length)
        cnt = B.range_count(a, b, c, None)
        lo, stp = B.asc(a, c, cnt)
        out.append(("post:reversed-iff-negative-step", rev == (c < 0)))
        from spec.containers import _idx_cases
        sel, nf = [], []
        for (g, tag, x) in _idx_cases(norm):
            if tag == "int":
                # an integer result stands for the contiguous run starting there: legal when at most one position
                # is selected, or the positions are contiguous
                sel.append(z3.Implies(g, z3.And(z3.Implies(cnt >= 1, x == lo), z3.Or(cnt <= 1, stp == 1))))
                nf.append(z3.Implies(g, z3.And(0 <= x, x <= length)))
            elif tag == "slice":
                na, nb, nc, wf = x
                ncnt = B.range_count(na, nb, nc, None)
                sel.append(z3.Implies(g, z3.And(wf, na == lo, nc == stp, ncnt == cnt)))
                nf.append(z3.Implies(g, z3.And(0 <= na, na < nb, nb <= length, nc >= 2)))
            else:
                sel.append(z3.BoolVal(False))
        out.append(("post:same-positions", z3.And(*sel)))
        out.append(("post:normal-form", z3.And(*nf)))
        return out

    def post(self, cx, I, ov, info, kind, payload, st):
        B = I.bi
        if kind == "raise":
            if ov == "slice":
                a, b, c = slice_indices(cx, info["sl"], info["length"])
                return [("raise:only-zero-step", z3.And(z3.BoolVal(payload.cname == "ValueError"), c == 0))]
            return [("exc-free", z3.BoolVal(False))]
        if not (isinstance(payload, VTuple) and len(payload.items) == 2 and isinstance(payload.items[0], VBool)):
            return [("post:result-shape", z3.BoolVal(False))]
        rev, norm = payload.items
        idx = info["index"] if ov == "int" else info["sl"]
        return self.spec(B, ov, idx, info["length"], rev.t, norm)

    def covers(self, cx, ov, info):
        if ov == "int":
            return [("returns", lambda k, p, s: k == "return")]
        return [("returns-index", lambda k, p, s: k == "return" and isinstance(p.items[1], VInt)),
                ("returns-slice", lambda k, p, s: k == "return" and isinstance(p.items[1], VSlice))]

    def summary(self, I, self_ref, args, kwargs, st, k):
        cx, B = I.cx, I.bi
        index, length = args
        L = length.t
        if isinstance(index, (VInt, VBool)):
            i = index.t if isinstance(index, VInt) else z3.If(index.t, 1, 0)
            # precondition of the int overload: -length <= index < length (checked at the call site)
            st = I.require(st, z3.And(-L <= i, i < L), "pre@_normalize_slice_or_index:index-in-range")
            return k(VTuple([VBool(False), VInt(ite(i < 0, i + L, i))]), st)
        if not isinstance(index, VSlice):
            raise Unsupported("_normalize_slice_or_index summary for %r" % (index,))
        a, b, c = slice_indices(cx, index, L)

        def nz(st2):
            rev = cx.fresh("rev", z3.BoolSort())
            norm = VIdx(cx.fresh("norm_is_slice", z3.BoolSort()), cx.fresh_int("norm_i"), cx.fresh_int("norm_a"),
                        cx.fresh_int("norm_b"), cx.fresh_int("norm_c"))
            cl = self.spec(B, "slice", index, L, rev, norm)
            return k(VTuple([VBool(rev), norm]), st2.assume(*[c_[1] for c_ in cl]))
        return cx.branch(st, c == 0, lambda s0: raise_(s0, "ValueError"), nz)


@register
class RemovedItems(Contract):
    path = PATH
    qualname = "_removed_items"
    properties = ("C05",)
    overloads = ("int", "slice")
    assumptions = ("A-BUILTIN:list.__getitem__",)

    def setup(self, cx, I, ov):
        s = z3.Const("items", SeqV)
        st = St()
        ref = VRef(cx.new_oid())
        st = st.put(ref.oid, HObj("list", s))
        dflt = cx.const("INVALID")
        if ov == "int":
            i = z3.Int("index")
            return st, [ref, VInt(i), dflt], {}, dict(s=s, i=i, dflt=dflt, witness=dict(items=s, index=i))
        sl = sym_slice(cx, "index")
        return st, [ref, sl, dflt], {}, dict(s=s, sl=sl, dflt=dflt, witness=dict(items=s, **slice_witness(sl, "index")))

    def post(self, cx, I, ov, info, kind, payload, st):
        s = info["s"]
        n = z3.Length(s)
        if ov == "int":
            i = info["i"]
            if kind == "raise":
                return [("exc-free", z3.BoolVal(False))]
            inr = z3.And(-n <= i, i < n)
            if isinstance(payload, VRef):
                r = st.heap[payload.oid].payload
                return [("post:in-range-item", z3.And(inr, r == z3.Unit(s[ite(i < 0, i + n, i)])))]
            return [("post:default-when-out-of-range", z3.And(z3.Not(inr), as_val(cx, payload, st) == info["dflt"].t))]
        # slice: exactly what list.__getitem__ gives (same builtin model, evaluated independently here)
        out = []
        ref_outs = I.bi.list_getitem(VRef(1), info["sl"], St(heap={1: HObj("list", s)}), lambda v, s2: [("return", v, s2)])
        for (k2, p2, st2) in ref_outs:
            g = z3.And(*st2.pc) if st2.pc else z3.BoolVal(True)
            if k2 != kind:
                out.append(("post:same-outcome-as-list", z3.Not(g)))
            elif kind == "return":
                mine = st.heap[payload.oid].payload if isinstance(payload, VRef) else None
                out.append(("post:same-items-as-list", z3.Implies(g, mine == st2.heap[p2.oid].payload)
                            if mine is not None else z3.BoolVal(False)))
            else:
                out.append(("raise:same-class-as-list", z3.Implies(g, exc_same(payload, p2))))
        return out

    def covers(self, cx, ov, info):
        return [("returns", lambda k, p, s: k == "return")]
