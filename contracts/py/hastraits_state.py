"""C14: HasTraits.__setstate__ -- 'unpickled / copied objects ... stay live'.

Restoring a Traits >= 3 state (it carries __traits_version__): the static listeners and observers of the class are set up
BEFORE the values are assigned (so that restored values are seen by them exactly as assigned ones are), every key of the
state except the version marker is assigned through trait_set with the caller's notification flag, then the post-init
hooks, traits_init() and the 'inited' flag follow -- each step exactly once, in this order.  A failing step leaves the
later ones undone and propagates (no 'inited' flag on a half-restored object)."""
import z3

from vc.unit import Contract, register
from vc.pyvc.values import *  # noqa: F401,F403
from vc.pyvc.core import HObj, St, as_val, raise_

PATH = "traits/has_traits.py"
STEPS = ("_init_trait_listeners", "_init_trait_observers", "trait_set", "_post_init_trait_listeners", "_post_init_trait_observers",
         "traits_init", "_trait_set_inited")


def step(name):
    class Step(Contract):
        path = PATH
        qualname = "HasTraits." + name

        def summary(self, I, self_ref, args, kwargs, st, k):
            rec = (name, tuple(args), dict(kwargs))
            st2 = st.gset("steps", st.ghost.get("steps", ()) + (rec,))
            e = I.cx.fresh("exc", Exc)
            fails = z3.Bool("step_%s_fails" % name)
            return I.cx.branch(st2, fails, lambda s: [("raise", VExc(sym=e, origin=("step", name)), s.assume(*I.cx.exc_axioms(e)))],
                               lambda s: k(NONE, s))
    return Step()


@register
class HasTraitsSetState(Contract):
    path = PATH
    qualname = "HasTraits.__setstate__"
    properties = ("C14", "C19")
    class_paths = (PATH,)
    overloads = ("traits-3-state",)
    assumptions = ("A-PY", "the seven steps are used through summaries (each records its call and may raise)",
                   "state is a dict with string keys as written by __getstate__")

    def configure(self, cx, I, ov):
        cx.const("None")
        cx.contracts = dict(cx.contracts)
        for s in STEPS:
            cx.contracts[("HasTraits", s)] = step(s)

    def setup(self, cx, I, ov):
        st = St()
        self_ref, sref = VRef(cx.new_oid()), VRef(cx.new_oid())
        self.vals = {n: z3.Const("state_" + n, Val) for n in ("alpha", "beta")}
        fields = {n: VElem(t) for n, t in self.vals.items()}
        fields["__traits_version__"] = VElem(z3.Const("version", Val))
        st = st.assume(z3.Const("version", Val) != cx.const("None").t)
        st = st.put(sref.oid, HObj("obj", None, None, fields, {"is_state_dict": True}))
        st = st.put(self_ref.oid, HObj("obj", None, "HasTraits", {}))
        self.notify = z3.Bool("trait_change_notify")
        return st, [self_ref, VFunc("objdict", ref=sref), VBool(self.notify)], {}, dict(self_ref=self_ref)

    def post(self, cx, I, ov, info, kind, payload, st):
        steps = st.ghost.get("steps", ())
        names = [s[0] for s in steps]
        if kind == "raise":
            ok = payload.origin and payload.origin[0] == "step"
            return [("raise:only-a-failing-step-raises", z3.BoolVal(bool(ok)), dict(exception="%s %r" % (payload.cname or payload.sym, payload.origin))),
                    ("raise:steps-ran-in-order-up-to-the-failing-one", z3.BoolVal(names == list(STEPS[:len(names)]) and bool(ok) and names[-1] == payload.origin[1])),
                    ("raise:a-half-restored-object-is-not-marked-inited", z3.BoolVal("_trait_set_inited" not in names[:-1] and
                                                                                      (names[-1] == "_trait_set_inited" or "_trait_set_inited" not in names)))]
        out = [("post:every-step-exactly-once-in-order", z3.BoolVal(names == list(STEPS)))]
        ts = [s for s in steps if s[0] == "trait_set"]
        if ts:
            kw = ts[0][2]
            out.append(("post:listeners-and-observers-are-in-place-before-the-values-are-assigned",
                        z3.BoolVal(names.index("_init_trait_listeners") < names.index("trait_set") and names.index("_init_trait_observers") < names.index("trait_set"))))
            out.append(("post:every-state-entry-but-the-version-marker-is-assigned", z3.BoolVal(
                set(kw) == set(self.vals) | {"trait_change_notify"} and all(isinstance(kw[n], VElem) and kw[n].t.eq(self.vals[n]) for n in self.vals))))
            f = kw.get("trait_change_notify")
            out.append(("post:the-caller's-notification-flag-is-passed-on", f.t == self.notify if isinstance(f, VBool) else z3.BoolVal(False)))
        return out

    def covers(self, cx, ov, info):
        return [("restores", lambda k, p, s: k == "return"), ("fails-midway", lambda k, p, s: k == "raise")]


# ------------------------------------------------------------------------------------------------------------------
# clone_traits: the same discipline for copies (C14 'The copy is fully live', C12 'no read returns a stale value')
# ------------------------------------------------------------------------------------------------------------------
CLONE_STEPS = ("_init_trait_listeners", "_init_trait_observers", "copy_traits", "_post_init_trait_listeners", "_post_init_trait_observers",
               "traits_init", "_trait_set_inited")


@register
class HasTraitsCloneTraits(Contract):
    """clone_traits(traits, memo, copy): a NEW object of the same class is created without running __init__, registered in
    the memo under id(self) BEFORE any value is copied (cycles through the original resolve to the clone), its static
    listeners and declared observers are installed BEFORE copy_traits assigns the values (so dependent properties and
    handlers see every restored value), the values are carried over by copy_traits(self, traits, memo, copy) on the new
    object, then the post-init hooks, traits_init() and the 'inited' flag follow -- each step once, in this order; the
    requested copy mode is recorded in the memo for nested objects; the clone is returned."""
    path = PATH
    qualname = "HasTraits.clone_traits"
    properties = ("C14", "C12")
    class_paths = (PATH,)
    overloads = ("explicit-names",)
    assumptions = ("A-PY", "the steps are used through summaries (each records its call and may raise); explicit non-empty list of names")

    def configure(self, cx, I, ov):
        cx.const("None")
        cx.contracts = dict(cx.contracts)
        for s in CLONE_STEPS:
            cx.contracts[("HasTraits", s)] = step(s)
        self.new_obj = None

        def getattr_hook(I2, obj, name, st, k):
            # self.__new__(self.__class__): a fresh, uninitialised object of the same class
            if isinstance(obj, VRef) and name == "__class__":
                return k(VFunc("classof", ref=obj), st)
            return None
        cx.getattr_hook = getattr_hook
        orig_elem = cx.elem_attrs

        def new_hook(I2, fv, args, kwargs, st, k):
            return None
        cx.call_hook = new_hook

    def setup(self, cx, I, ov):
        st = St()
        self.self_ref = VRef(cx.new_oid())
        cx_self = self

        def open_fields(cx2, obj, name, st2):
            if name == "__class__":
                return VFunc("classof", ref=obj)
            if name == "__new__":
                def apply(I2, a, kw, s, kk):
                    ok = len(a) == 1 and isinstance(a[0], VFunc) and a[0].kind == "classof" and a[0].ref.oid == cx_self.self_ref.oid
                    r = VRef(I2.cx.new_oid())
                    s2 = s.put(r.oid, HObj("obj", None, "HasTraits", {})).gset("created", s.ghost.get("created", ()) + ((r.oid, ok, len(s.ghost.get("steps", ()))),))
                    return kk(r, s2)
                return VFunc("opaque", name="__new__", apply=apply)
            return None
        st = st.put(self.self_ref.oid, HObj("obj", None, "HasTraits", {}, {"open_fields": open_fields}))
        self.names = z3.Const("names", SeqV)
        tref = VRef(cx.new_oid())
        st = st.put(tref.oid, HObj("list", self.names)).assume(z3.Length(self.names) > 0)
        self.memo_ref = VRef(cx.new_oid())
        st = st.put(self.memo_ref.oid, HObj("dict", z3.Const("memo0", MapV)))
        self.copy = z3.Const("copy_mode", Val)

        def eq_hook(I2, op, a, b, st2, k):
            import ast as _ast
            for x, y in ((a, b), (b, a)):
                if isinstance(x, VRef) and isinstance(y, VStr):
                    return k(VBool(isinstance(op, _ast.NotEq)), st2)
            return None
        cx.eq_hook = eq_hook
        return st, [self.self_ref, tref, self.memo_ref, VElem(self.copy)], {}, dict(witness={})

    def post(self, cx, I, ov, info, kind, payload, st):
        steps = st.ghost.get("steps", ())
        names = [s[0] for s in steps]
        created = st.ghost.get("created", ())
        if kind == "raise":
            ok = payload.origin and payload.origin[0] == "step"
            return [("raise:only-a-failing-step-raises", z3.BoolVal(bool(ok)), dict(exception="%s %r" % (payload.cname or payload.sym, payload.origin))),
                    ("raise:steps-ran-in-order-up-to-the-failing-one", z3.BoolVal(names == list(CLONE_STEPS[:len(names)]) and bool(ok) and names[-1] == payload.origin[1]))]
        out = [("post:one-new-object-of-the-same-class-created-without-running-__init__", z3.BoolVal(len(created) == 1 and created[0][1])),
               ("post:every-step-exactly-once-in-order", z3.BoolVal(names == list(CLONE_STEPS)))]
        if len(created) == 1:
            noid = created[0][0]
            out.append(("post:the-clone-is-created-before-any-step-runs", z3.BoolVal(created[0][2] == 0)))
            out.append(("post:returns-the-clone", z3.BoolVal(isinstance(payload, VRef) and payload.oid == noid)))
            cp = [s for s in steps if s[0] == "copy_traits"]
            if cp:
                a = cp[0][1]
                kw = cp[0][2]
                out.append(("post:listeners-and-observers-are-in-place-before-the-values-are-copied",
                            z3.BoolVal(names.index("_init_trait_listeners") < names.index("copy_traits") and names.index("_init_trait_observers") < names.index("copy_traits"))))
                ok_args = (len(a) == 4 and isinstance(a[0], VRef) and a[0].oid == self.self_ref.oid and isinstance(a[2], VRef) and a[2].oid == self.memo_ref.oid
                           and isinstance(a[3], VElem) and a[3].t.eq(self.copy) and isinstance(a[1], VRef))
                out.append(("post:values-copied-from-the-original-with-the-caller's-names-memo-and-copy-mode", z3.BoolVal(bool(ok_args))))
                if ok_args:
                    out.append(("post:the-names-requested-are-the-names-copied", st.heap[a[1].oid].payload == self.names))
            # the memo: id(self) -> clone, recorded before copy_traits; the copy mode recorded for nested objects
            memo = st.heap[self.memo_ref.oid].payload
            idself = z3.Function("id_of", Val, z3.IntSort())(cx.ref_val(self.self_ref))
            key = cx.box_int(idself) if hasattr(cx, "box_int") else None
            if key is not None:
                kt = key.t if hasattr(key, "t") else key
                out.append(("post:the-clone-is-registered-in-the-memo-under-id(self)", memo[kt] == Opt.some(cx.ref_val(VRef(noid)))))
        return out

    def covers(self, cx, ov, info):
        return [("clones", lambda k, p, s: k == "return"), ("fails-midway", lambda k, p, s: k == "raise")]


@register
class HasTraitsGetStateFilter(Contract):
    """__getstate__ -- which traits are pickled.  'transient traits are back at their defaults' after unpickling because they were
    never written into the state: the state dictionary is collected by trait_get(transient=is_none) -- ONE metadata filter,
    keyed 'transient', whose test is the library's is_none (metadata absent) -- so a trait marked transient=True is left out and
    every trait without that mark is included.  CUT POINT: the first statement of the real __getstate__ (the delegate merge and the
    ISerializable check that follow only add to / veto the dictionary and are not under contract)."""
    path = PATH
    qualname = "HasTraits.__getstate__"
    properties = ("C14",)
    class_paths = (PATH,)
    assumptions = ("A-PY", "cut point: the statement that builds the state dictionary; trait_get is used as a summary")
    undecided_probe = dict(harness="hastraits", family="copy_traits")

    @property
    def cid(self):
        return "%s:%s<state filter cut point>" % (self.path, self.qualname)

    def segment(self, fn):
        import ast
        body = [s for s in fn.body if not (isinstance(s, ast.Expr) and isinstance(s.value, ast.Constant))]
        first = body[0] if body else None
        if not (isinstance(first, ast.Assign) and len(first.targets) == 1 and isinstance(first.targets[0], ast.Name) and first.targets[0].id == "result"):
            raise Unsupported("__getstate__ no longer starts by building `result`")
        returns = [n for n in ast.walk(fn) if isinstance(n, ast.Return)]
        if not all(isinstance(r.value, ast.Name) and r.value.id == "result" for r in returns) or not returns:
            raise Unsupported("__getstate__ no longer returns `result`")
        return [first]

    def configure(self, cx, I, ov):
        self.state = z3.Const("state_dictionary", Val)

        def trait_get(I2, o, st, k):
            return k(VFunc("opaque", name="trait_get", apply=lambda I3, a, kw, s, kk: kk(VElem(self.state), s.gset("query", s.ghost.get("query", ()) + ((tuple(a), dict(kw)),)))), st)
        cx.elem_attrs["trait_get"] = trait_get

    def segment_env(self, cx, I, ov):
        return St(), {"self": VElem(z3.Const("self_object", Val))}, dict(witness={})

    def post(self, cx, I, ov, info, kind, payload, st):
        if kind == "raise":
            return [("exc-free", z3.BoolVal(False))]
        q = st.ghost.get("query", ())
        out = [("post:the-state-is-collected-by-one-trait_get-query", z3.BoolVal(len(q) == 1))]
        if len(q) == 1:
            a, kw = q[0]
            f = kw.get("transient")
            ok = not a and set(kw) == {"transient"} and isinstance(f, VFunc) and f.kind == "repo" and f.name == "is_none"
            out.append(("post:the-only-filter-is-transient-metadata-absent-(is_none)", z3.BoolVal(bool(ok))))
            r = st.env.get("result")
            out.append(("post:that-dictionary-is-the-state", z3.BoolVal(isinstance(r, VElem) and r.t.eq(self.state))))
        return out

    def covers(self, cx, ov, info):
        return [("collects", lambda k, p, s: True)]
