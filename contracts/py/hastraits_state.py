"""C14: HasTraits.__setstate__ -- 'unpickled / copied objects ... stay live'.

Restoring a Traits >= 3 state (it carries __traits_version__): the static listeners and observers of the class are set up
BEFORE the values are assigned (so that restored values are seen by them exactly as assigned ones are), every key of the
state except the version marker is assigned through trait_set with the caller's notification flag, then the post-init
hooks, traits_init() and the 'inited' flag follow -- each step exactly once, in this order.  A failing step leaves the
later ones undone and propagates (no 'inited' flag on a half-restored object)."""
import z3

from vc.unit import Contract, register
from vc.pyvc.values import *  # noqa: F401,F403
from vc.pyvc.core import HObj, St, as_val, raise_

PATH = "traits/has_traits.py"
STEPS = ("_init_trait_listeners", "_init_trait_observers", "trait_set", "_post_init_trait_listeners", "_post_init_trait_observers",
         "traits_init", "_trait_set_inited")


def step(name):
    class Step(Contract):
        path = PATH
        qualname = "HasTraits." + name

        def summary(self, I, self_ref, args, kwargs, st, k):
            rec = (name, tuple(args), dict(kwargs))
            st2 = st.gset("steps", st.ghost.get("steps", ()) + (rec,))
            e = I.cx.fresh("exc", Exc)
            fails = z3.Bool("step_%s_fails" % name)
            return I.cx.branch(st2, fails, lambda s: [("raise", VExc(sym=e, origin=("step", name)), s.assume(*I.cx.exc_axioms(e)))],
                               lambda s: k(NONE, s))
    return Step()


@register
class HasTraitsSetState(Contract):
    path = PATH
    qualname = "HasTraits.__setstate__"
    properties = ("C14", "C19")
    class_paths = (PATH,)
    overloads = ("traits-3-state",)
    assumptions = ("A-PY", "the seven steps are used through summaries (each records its call and may raise)",
                   "state is a dict with string keys as written by __getstate__")

    def configure(self, cx, I, ov):
        cx.const("None")
        cx.contracts = dict(cx.contracts)
        for s in STEPS:
            cx.contracts[("HasTraits", s)] = step(s)

    def setup(self, cx, I, ov):
        st = St()
        self_ref, sref = VRef(cx.new_oid()), VRef(cx.new_oid())
        self.vals = {n: z3.Const("state_" + n, Val) for n in ("alpha", "beta")}
        fields = {n: VElem(t) for n, t in self.vals.items()}
        fields["__traits_version__"] = VElem(z3.Const("version", Val))
        st = st.assume(z3.Const("version", Val) != cx.const("None").t)
        st = st.put(sref.oid, HObj("obj", None, None, fields, {"is_state_dict": True}))
        st = st.put(self_ref.oid, HObj("obj", None, "HasTraits", {}))
        self.notify = z3.Bool("trait_change_notify")
        return st, [self_ref, VFunc("objdict", ref=sref), VBool(self.notify)], {}, dict(self_ref=self_ref)

    def post(self, cx, I, ov, info, kind, payload, st):
        steps = st.ghost.get("steps", ())
        names = [s[0] for s in steps]
        if kind == "raise":
            ok = payload.origin and payload.origin[0] == "step"
            return [("raise:only-a-failing-step-raises", z3.BoolVal(bool(ok)), dict(exception="%s %r" % (payload.cname or payload.sym, payload.origin))),
                    ("raise:steps-ran-in-order-up-to-the-failing-one", z3.BoolVal(names == list(STEPS[:len(names)]) and bool(ok) and names[-1] == payload.origin[1])),
                    ("raise:a-half-restored-object-is-not-marked-inited", z3.BoolVal("_trait_set_inited" not in names[:-1] and
                                                                                      (names[-1] == "_trait_set_inited" or "_trait_set_inited" not in names)))]
        out = [("post:every-step-exactly-once-in-order", z3.BoolVal(names == list(STEPS)))]
        ts = [s for s in steps if s[0] == "trait_set"]
        if ts:
            kw = ts[0][2]
            out.append(("post:listeners-and-observers-are-in-place-before-the-values-are-assigned",
                        z3.BoolVal(names.index("_init_trait_listeners") < names.index("trait_set") and names.index("_init_trait_observers") < names.index("trait_set"))))
            out.append(("post:every-state-entry-but-the-version-marker-is-assigned", z3.BoolVal(
                set(kw) == set(self.vals) | {"trait_change_notify"} and all(isinstance(kw[n], VElem) and kw[n].t.eq(self.vals[n]) for n in self.vals))))
            f = kw.get("trait_change_notify")
            out.append(("post:the-caller's-notification-flag-is-passed-on", f.t == self.notify if isinstance(f, VBool) else z3.BoolVal(False)))
        return out

    def covers(self, cx, ov, info):
        return [("restores", lambda k, p, s: k == "return"), ("fails-midway", lambda k, p, s: k == "raise")]
