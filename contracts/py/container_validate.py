"""C04 / C14: List.validate, Set.validate, Dict.validate -- whole-value assignment of a container trait.

'every element of a List(T) ... satisfies the inner trait ... and a List's length stays within minlen..maxlen ... also for
nested containers and after whole-value assignment' (C04); 'its (nested) container values still reject invalid items ...
shares no mutable container with the original' (C14, where restored values are assigned through setattr):

  * a value of the right builtin type (and, for lists, of a legal length) assigned to an attribute of an object is NOT stored
    itself: a FRESH TraitListObject / TraitSetObject / TraitDictObject is built from it, bound to exactly (this trait, the
    receiving object, the attribute name) -- the constructor (contract TraitListObject.__init__ etc.) validates every item for
    that owner and raises TraitError, constructing nothing, if one fails;
  * anything else -- wrong type, a list shorter than minlen or longer than maxlen -- is the TraitError of
    self.error(object, name, value);
  * without an object (validation of a default value) the value is handed back unchanged."""
import z3

from vc.unit import Contract, register
from vc.pyvc.values import *  # noqa: F401,F403
from vc.pyvc.core import HObj, St, as_val, raise_

PATH = "traits/trait_types.py"
is_inst = z3.Function("isinstance_of_builtin", Val, StrS, z3.BoolSort())
length = z3.Function("len_of", Val, z3.IntSort())


class _Error(Contract):
    path = "traits/base_trait_handler.py"
    qualname = "BaseTraitHandler.error"

    def summary(self, I, self_ref, args, kwargs, st, k):
        return raise_(st, "TraitError", origin=("self.error",) + tuple(args))


class _ContainerValidate(Contract):
    path = PATH
    properties = ("C04", "C14")
    class_paths = (PATH, "traits/trait_type.py", "traits/base_trait_handler.py")
    overloads = ("assigned-to-an-object", "no-object")
    builtin, wrapper = None, None
    assumptions = ("A-PY", "the wrapper constructor is used through its contract (TraitListObject.__init__ ...): it returns a fresh "
                   "wrapper bound to its arguments or raises", "BaseTraitHandler.error always raises TraitError (summary)")

    def configure(self, cx, I, ov):
        cx.const("None")
        self.value, self.obj = z3.Consts("value object", Val)
        self.wrapped = z3.Const("fresh_wrapper", Val)
        log = lambda st, rec: st.gset("log", st.ghost.get("log", ()) + (rec,))

        def isinstance_apply(I2, a, kw, st, k):
            t = a[1]
            nm = t.name if isinstance(t, VFunc) and t.kind in ("class", "opaque") else None
            if nm is None:
                raise Unsupported("isinstance against %r" % (t,))
            return k(VBool(is_inst(as_val(I2.cx, a[0], st), z3.StringVal(nm))), st)
        cx.module_globals["isinstance"] = VFunc("opaque", name="isinstance", apply=isinstance_apply)

        def len_hook(I2, x, st, k):
            if isinstance(x, VElem):
                return k(VInt(length(x.t)), st.assume(length(x.t) >= 0))
            return None
        cx.len_hook = len_hook

        def construct(I2, a, kw, st, k):
            st2 = log(st, ("construct",) + tuple(a))
            e = I2.cx.fresh("item_exc", Exc)
            fails = I2.cx.fresh("an_item_is_rejected", z3.BoolSort())
            return I2.cx.branch(st2, fails, lambda s: [("raise", VExc(sym=e, origin=("wrapper-constructor",)), s.assume(*I2.cx.exc_axioms(e)))],
                                lambda s: k(VElem(self.wrapped), s))
        cx.module_globals[self.wrapper] = VFunc("opaque", name=self.wrapper, apply=construct)
        cx.contracts = dict(cx.contracts)
        cx.contracts[("BaseTraitHandler", "error")] = _Error()

    def fields(self, cx):
        return {}

    def setup(self, cx, I, ov):
        NONE_T = cx.const("None").t
        st = St()
        self.self_ref = VRef(cx.new_oid())
        st = st.put(self.self_ref.oid, HObj("obj", None, self.qualname.split(".")[0], self.fields(cx)))
        self.name = z3.String("name")
        objv = NONE if ov == "no-object" else VElem(self.obj)
        st = st.assume(self.obj != NONE_T, self.wrapped != self.value)
        return st, [self.self_ref, objv, VStr(self.name), VElem(self.value)], {}, dict(witness={"len(value)": length(self.value)})

    def legal(self, cx):
        return is_inst(self.value, z3.StringVal(self.builtin))

    def post(self, cx, I, ov, info, kind, payload, st):
        log = st.ghost.get("log", ())
        cons = [r for r in log if r[0] == "construct"]
        legal = self.legal(cx)
        out = [("post:at-most-one-wrapper-is-built", z3.BoolVal(len(cons) <= 1))]
        if cons:
            a = cons[0][1:]
            ok = (len(a) == 4 and isinstance(a[0], VRef) and a[0].oid == self.self_ref.oid and isinstance(a[1], VElem) and a[1].t.eq(self.obj)
                  and isinstance(a[2], VStr) and a[2].t.eq(self.name) and isinstance(a[3], VElem) and a[3].t.eq(self.value))
            out.append(("post:the-wrapper-is-bound-to-this-trait-the-receiving-object-and-the-attribute-name-and-built-from-the-value", z3.BoolVal(bool(ok))))
            out.append(("post:a-wrapper-is-built-only-for-a-legal-value-assigned-to-an-object", z3.And(legal, z3.BoolVal(ov == "assigned-to-an-object"))))
        if kind == "raise":
            from_items = bool(payload.origin) and payload.origin[0] == "wrapper-constructor"
            from_error = payload.cname == "TraitError" and bool(payload.origin) and payload.origin[0] == "self.error"
            out.append(("raise:either-an-item-rejected-by-the-wrapper-or-the-TraitError-of-self.error", z3.BoolVal(from_items or from_error),
                        dict(exception="%s %r" % (payload.cname or payload.sym, payload.origin))))
            if from_error:
                _t, o, n, v = payload.origin
                out.append(("raise:an-illegal-value-is-rejected-naming-object-attribute-and-value", z3.And(
                    z3.Not(legal), z3.BoolVal(isinstance(n, VStr) and n.t.eq(self.name) and isinstance(v, VElem) and v.t.eq(self.value)))))
            return out
        r = as_val(cx, payload, st)
        out.append(("post:only-a-legal-value-is-accepted", legal))
        if ov == "assigned-to-an-object":
            out.append(("post:what-is-stored-is-the-fresh-wrapper-never-the-value-itself", z3.And(z3.BoolVal(len(cons) == 1), r == self.wrapped)))
        else:
            out.append(("post:without-an-object-the-value-is-handed-back-unchanged", z3.And(z3.BoolVal(not cons), r == self.value)))
        return out

    def covers(self, cx, ov, info):
        return [("accepts", lambda k, p, s: k == "return"), ("rejects", lambda k, p, s: k == "raise" and p.cname == "TraitError")]


@register
class ListValidate(_ContainerValidate):
    qualname = "List.validate"
    builtin, wrapper = "list", "TraitListObject"

    def fields(self, cx):
        self.minlen, self.maxlen = z3.Ints("minlen maxlen")
        return {"minlen": VInt(self.minlen), "maxlen": VInt(self.maxlen)}

    def legal(self, cx):
        n = length(self.value)
        return z3.And(is_inst(self.value, z3.StringVal("list")), self.minlen <= n, n <= self.maxlen)


@register
class SetValidate(_ContainerValidate):
    qualname = "Set.validate"
    builtin, wrapper = "set", "TraitSetObject"


@register
class DictValidate(_ContainerValidate):
    qualname = "Dict.validate"
    builtin, wrapper = "dict", "TraitDictObject"
