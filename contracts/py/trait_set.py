"""Contracts for traits/trait_set_object.py (C07, C04, C19).

Reference ("TraitSet refines set"): validate the items to be added (a rejected item propagates its
exception and nothing changes), then the builtin set operation on the validated items.  For `^=` /
symmetric_difference_update the reference is the documented one: members of the argument already in
the set are removed unvalidated, the others are validated and added (DESIGN 6 C07).
Event laws: removed is a subset of the previous contents, added is disjoint from them,
(previous - removed) | added is the new contents; an event is emitted iff the contents change.
"""
import z3

from vc.unit import Contract, register
from vc.pyvc.values import *  # noqa: F401,F403
from vc.pyvc.core import HObj, St, as_val, raise_
from vc.pyvc.builtins_model import ite
from spec.containers import Validator, exc_same
from contracts.py.trait_list import foreach_call_loop

PATH = "traits/trait_set_object.py"
X = z3.Const("x!set", Val)


class SEv:
    def __init__(self, removed, added, at):
        self.removed, self.added, self.at = removed, added, at


def set_event_laws(before, ev):
    x = z3.Const("x!law", Val)
    R, A, after = ev.removed, ev.added, ev.at
    return [
        ("post:removed-subset-of-previous", z3.ForAll([x], z3.Implies(R[x], before[x]))),
        ("post:added-disjoint-from-previous", z3.ForAll([x], z3.Implies(A[x], z3.Not(before[x])))),
        ("post:previous-minus-removed-plus-added-is-new", z3.ForAll(
            [x], after[x] == z3.Or(z3.And(before[x], z3.Not(R[x])), A[x]))),
    ]


def seteq(a, b):
    """extensional equality of two sets, stated pointwise (its negation then yields a witness element)"""
    x = z3.Const("x!eq", Val)
    return z3.ForAll([x], a[x] == b[x])


def make_set_self(cx, cls="TraitSet"):
    S = z3.Const("members", SetV)
    V = Validator(cx, "item")
    st = St()
    nref = VRef(cx.new_oid())
    st = st.put(nref.oid, HObj("list", z3.Const("notifiers", SeqV)))
    self_ref = VRef(cx.new_oid())
    st = st.put(self_ref.oid, HObj("set", S, cls, {"item_validator": V.as_value(), "notifiers": nref}))
    return st.gset("events", ()), self_ref, S, V


@register
class TSNotify(Contract):
    path = PATH
    qualname = "TraitSet.notify"
    properties = ("C07", "C02")
    assumptions = ("A-CB:notifier",)

    def configure(self, cx, I, ov):
        cx.on_loop = foreach_call_loop

    def setup(self, cx, I, ov):
        st, self_ref, S, V = make_set_self(cx)
        refs = []
        for nm in ("removed", "added"):
            r = VRef(cx.new_oid())
            st = st.put(r.oid, HObj("set", z3.Const(nm, SetV)))
            refs.append(r)
        return st.gset("calls", ()), [self_ref] + refs, {}, dict(self_ref=self_ref, refs=refs,
                                                                  notifiers=z3.Const("notifiers", SeqV))

    def post(self, cx, I, ov, info, kind, payload, st):
        calls = st.ghost["calls"]
        if not (len(calls) == 1 and calls[0][0] == "foreach"):
            return [("post:each-notifier-once-in-order", z3.BoolVal(False))]
        _, seq, args, kwargs, upto = calls[0]
        good = (len(args) == 3 and not kwargs and isinstance(args[0], VRef) and args[0].oid == info["self_ref"].oid
                and all(isinstance(a, VRef) and a.oid == r.oid for a, r in zip(args[1:], info["refs"])))
        out = [("post:each-notifier-once-in-order", z3.And(seq == info["notifiers"], z3.BoolVal(good)))]
        if kind == "return":
            out.append(("post:all-notifiers-called", upto == z3.Length(seq)))
        else:
            out.append(("raise:only-from-a-notifier", z3.BoolVal(isinstance(payload.origin, tuple) and payload.origin[0] == "notifier")))
        return out

    def summary(self, I, self_ref, args, kwargs, st, k):
        cx = I.cx
        vals = dict(zip(["removed", "added"], args))
        vals.update(kwargs)
        if set(vals) != {"removed", "added"}:
            return raise_(st, "TypeError")
        pl = []
        for nm in ("removed", "added"):
            v = vals[nm]
            if not (isinstance(v, VRef) and st.heap[v.oid].kind == "set"):
                raise Unsupported("notify with a non-set %s" % nm)
            pl.append(st.heap[v.oid].payload)
        ev = SEv(pl[0], pl[1], st.heap[self_ref.oid].payload)
        st2 = st.gset("events", st.ghost.get("events", ()) + (ev,))
        out = k(NONE, st2)
        nseq = st.heap[st.heap[self_ref.oid].fields["notifiers"].oid].payload
        e = cx.fresh("notifier_exc", Exc)
        out.append(("raise", VExc(sym=e, origin=("notifier",)), st2.assume(z3.Length(nseq) > 0, *cx.exc_axioms(e))))
        return out


def image(cx, V, U):
    """SetV term {val(x) for x in U} with its defining axioms (same function symbol the engine uses)."""
    xj = z3.Const("x!spec", Val)
    F = cx.image_fn(V.val(xj), xj)
    R = F(U)
    x, y = z3.Const("x!im", Val), z3.Const("y!im", Val)
    cx.axioms.append(z3.And(z3.ForAll([x], z3.Implies(U[x], R[V.val(x)])),
                            z3.ForAll([y], z3.Implies(R[y], z3.Exists([x], z3.And(U[x], V.val(x) == y))))))
    return R


class SetMutator(Contract):
    # the concrete oracle asked when the function leaves the verifier's subset (rewritten loop, new construct): random
    # operations against the builtin model on validated items, every clause of the statement evaluated on the real code
    undecided_probe = dict(harness="containers", family="set_probe", trials=4000)
    path = PATH
    properties = ("C07", "C04", "C19")
    cls = "TraitSet"
    assumptions = ("A-PY", "A-BUILTIN:set", "A-EQ", "A-CB:validator", "A-CB:notifier-does-not-mutate")

    def setup(self, cx, I, ov):
        st, self_ref, S, V = make_set_self(cx, self.cls)
        st, args, kwargs, info = self.args(cx, ov, st)
        info.update(S=S, V=V, self_ref=self_ref)
        info.setdefault("witness", {})["members"] = S
        info["concretise"] = lambda m: self.concretise(m, ov, info)
        return st, [self_ref] + args, kwargs, info

    def concretise(self, m, ov, info):
        from vc.concretise import Universe
        U = Universe(m)
        args = {}
        if "x" in info:
            args["value"] = U.val(info["x"])
        ops = [U.set_members(t, extra=[info["x"]] if "x" in info else ()) for t in info.get("operands", [])]
        members = U.set_members(info["S"], extra=[info["x"]] if "x" in info else ())
        for _ in range(2):
            for (i, v) in list(U.ids.values()):
                if U.bool(info["V"].ok(v)):
                    U.val(info["V"].val(v))
            members = U.set_members(info["S"])
            ops = [U.set_members(t) for t in info.get("operands", [])]
        args["operands"] = ops
        return dict(harness="containers", family="set", cls=self.cls, op=self.fname, ov=ov, members=members, args=args,
                    validator=U.validator_table(info["V"]))

    def set_operands(self, cx, st, n, prefix="arg", pytype=None):
        refs, terms = [], []
        for i in range(n):
            t = z3.Const("%s%d" % (prefix, i), SetV)
            r = VRef(cx.new_oid())
            # a frozenset operand behaves like a set for every set operation but is not an instance of `set`
            st = st.put(r.oid, HObj("set", t, None, None, {"pytype": pytype} if pytype else {}))
            refs.append(r)
            terms.append(t)
        return st, refs, terms

    def reference(self, cx, I, ov, info):
        """-> (rejected: z3 Bool 'some item to validate is rejected', match(sym) -> z3 Bool 'sym is the exception
        of a rejected item', outcomes [(kind, payload, guard, set_after)])"""
        raise NotImplementedError

    def post(self, cx, I, ov, info, kind, payload, st):
        return self.tag(self._post(cx, I, ov, info, kind, payload, st))

    def _post(self, cx, I, ov, info, kind, payload, st):
        S0 = info["S"]
        S1 = st.heap[info["self_ref"].oid].payload
        evs = st.ghost["events"]
        rejected, match, ref = self.reference(cx, I, ov, info)
        out = []
        notifier_exc = kind == "raise" and isinstance(payload.origin, tuple) and payload.origin[0] == "notifier"
        if kind == "return" or notifier_exc:
            out.append(("post:every-added-item-validated", z3.Not(rejected)))
            for (rk, rp, g, s_after) in ref:
                if rk == "raise":
                    out.append(("post:set-raises-here", z3.Not(g)))
                else:
                    xx = z3.Const("x!eq", Val)
                    out.append(("post:contents-as-set", z3.Implies(g, z3.ForAll([xx], S1[xx] == s_after[xx]))))
                    if kind == "return":
                        out.append(("post:result-as-set", z3.Implies(g, self.same_result(cx, info, payload, st, rp))))
            if len(evs) > 1:
                out.append(("post:at-most-one-event", z3.BoolVal(False)))
            elif len(evs) == 0:
                out.append(("post:event-when-contents-change", seteq(S1, S0)))
            else:
                out.append(("post:event-after-mutation", seteq(evs[0].at, S1)))
                out.append(("post:silent-when-nothing-changes", z3.Not(seteq(S1, S0))))
                out += set_event_laws(S0, evs[0])
        else:
            alts = [z3.And(rejected, match(payload.sym))] if payload.sym is not None else []
            for (rk, rp, g, s_after) in ref:
                if rk == "raise":
                    alts.append(z3.And(g, exc_same(payload, rp)))
            out.append(("raise:same-exception-as-set-or-validator", z3.Or(*alts) if alts else z3.BoolVal(False)))
            out.append(("raise:contents-unchanged", seteq(S1, S0)))
            out.append(("raise:no-event", z3.BoolVal(len(evs) == 0)))
        return out

    def tag(self, clauses):
        out = []
        own = tuple(p for p in self.properties if p in ("C05", "C06", "C07"))
        for cl in clauses:
            name = cl[0]
            if name.startswith("raise:"):
                props = own + ("C04", "C19")
            elif "validated" in name:
                props = own + ("C04",)
            else:
                props = own
            out.append((cl[0], cl[1], cl[2] if len(cl) > 2 else {}, props))
        return out

    def same_result(self, cx, info, payload, st, rp):
        if isinstance(rp, str) and rp == "self":
            return z3.BoolVal(isinstance(payload, VRef) and payload.oid == info["self_ref"].oid)
        if rp is None:
            return z3.BoolVal(isinstance(payload, VNone))
        try:
            return as_val(cx, payload, st) == rp
        except Unsupported:
            return z3.BoolVal(False)

    def covers(self, cx, ov, info):
        return [("returns-normally", lambda k, p, s: k == "return")]


NOREJ = (z3.BoolVal(False), lambda sym: z3.BoolVal(False))
T = z3.BoolVal(True)


def lam(f):
    return mk_lambda(X, f(X))


def rejected_in(V, U):
    x = z3.Const("x!rej", Val)
    return (z3.Exists([x], z3.And(U[x], z3.Not(V.ok(x)))),
            lambda sym: z3.Exists([x], z3.And(U[x], z3.Not(V.ok(x)), sym == V.exc(x))))


@register
class TSAdd(SetMutator):
    qualname = "TraitSet.add"

    def args(self, cx, ov, st):
        x = z3.Const("value", Val)
        return st, [VElem(x)], {}, dict(x=x, witness=dict(value=x))

    def reference(self, cx, I, ov, info):
        V, x, S = info["V"], info["x"], info["S"]
        return z3.Not(V.ok(x)), (lambda sym: sym == V.exc(x)), [("return", None, T, z3.Store(S, V.val(x), T))]


class _Raw1(SetMutator):
    def args(self, cx, ov, st):
        x = z3.Const("value", Val)
        return st, [VElem(x)], {}, dict(x=x, witness=dict(value=x))


@register
class TSDiscard(_Raw1):
    qualname = "TraitSet.discard"

    def reference(self, cx, I, ov, info):
        return NOREJ + ([("return", None, T, z3.Store(info["S"], info["x"], z3.BoolVal(False)))],)


@register
class TSRemove(_Raw1):
    qualname = "TraitSet.remove"

    def reference(self, cx, I, ov, info):
        S, x = info["S"], info["x"]
        return NOREJ + ([("return", None, S[x], z3.Store(S, x, z3.BoolVal(False))),
                         ("raise", VExc(cname="KeyError"), z3.Not(S[x]), S)],)


@register
class TSPop(SetMutator):
    qualname = "TraitSet.pop"

    def args(self, cx, ov, st):
        return st, [], {}, {}

    def reference(self, cx, I, ov, info):
        S = info["S"]
        e = z3.Function("set_pop_elem", SetV, Val)(S)
        return NOREJ + ([("return", e, S != EMPTY_SET, z3.Store(S, e, z3.BoolVal(False))),
                         ("raise", VExc(cname="KeyError"), S == EMPTY_SET, S)],)


@register
class TSClear(SetMutator):
    qualname = "TraitSet.clear"

    def args(self, cx, ov, st):
        return st, [], {}, {}

    def reference(self, cx, I, ov, info):
        return NOREJ + ([("return", None, T, EMPTY_SET)],)


class _VarArgs(SetMutator):
    overloads = ("one", "two")

    def args(self, cx, ov, st):
        st, refs, terms = self.set_operands(cx, st, 1 if ov == "one" else 2)
        return st, list(refs), {}, dict(operands=terms, witness={"arg%d" % i: t for i, t in enumerate(terms)})


@register
class TSUpdate(_VarArgs):
    qualname = "TraitSet.update"

    def reference(self, cx, I, ov, info):
        V, S, ops = info["V"], info["S"], info["operands"]
        U = lam(lambda x: z3.Or(*[o[x] for o in ops]))
        img = image(cx, V, U)
        rej, match = rejected_in(V, U)
        return rej, match, [("return", None, T, lam(lambda x: z3.Or(S[x], img[x])))]


@register
class TSDifferenceUpdate(_VarArgs):
    qualname = "TraitSet.difference_update"

    def reference(self, cx, I, ov, info):
        S, ops = info["S"], info["operands"]
        return NOREJ + ([("return", None, T, lam(lambda x: z3.And(S[x], z3.Not(z3.Or(*[o[x] for o in ops])))))],)


@register
class TSIntersectionUpdate(_VarArgs):
    qualname = "TraitSet.intersection_update"

    def reference(self, cx, I, ov, info):
        S, ops = info["S"], info["operands"]
        return NOREJ + ([("return", None, T, lam(lambda x: z3.And(S[x], *[o[x] for o in ops])))],)


class _InPlace(SetMutator):
    overloads = ("default", "frozenset-operand")

    def args(self, cx, ov, st):
        st, refs, terms = self.set_operands(cx, st, 1, "value", pytype="frozenset" if ov == "frozenset-operand" else None)
        return st, list(refs), {}, dict(operands=terms, witness=dict(value=terms[0]))


@register
class TSIOr(_InPlace):
    qualname = "TraitSet.__ior__"

    def reference(self, cx, I, ov, info):
        V, S, (O,) = info["V"], info["S"], info["operands"]
        img = image(cx, V, O)
        rej, match = rejected_in(V, O)
        return rej, match, [("return", "self", T, lam(lambda x: z3.Or(S[x], img[x])))]


@register
class TSIAnd(_InPlace):
    qualname = "TraitSet.__iand__"

    def reference(self, cx, I, ov, info):
        S, (O,) = info["S"], info["operands"]
        return NOREJ + ([("return", "self", T, lam(lambda x: z3.And(S[x], O[x])))],)


@register
class TSISub(_InPlace):
    qualname = "TraitSet.__isub__"

    def reference(self, cx, I, ov, info):
        S, (O,) = info["S"], info["operands"]
        return NOREJ + ([("return", "self", T, lam(lambda x: z3.And(S[x], z3.Not(O[x]))))],)


def _xor_reference(cx, info, result):
    """`^=`: for validators that are the identity on the items they accept from the operand (the non-coercing
    case) the result is exactly the builtin one, self ^ value.  For coercing validators the code's behaviour
    (members of the operand already present are removed unvalidated, the others validated and added unless
    present) is not uniquely determined by the statement; there only the event laws, failure atomicity and
    'whatever is new is a validated image of an operand item' (extra clause) are required."""
    V, S, (O,) = info["V"], info["S"], info["operands"]
    x = z3.Const("x!idn", Val)
    noncoercing = z3.ForAll([x], z3.Implies(z3.And(O[x], V.ok(x)), V.val(x) == x))
    raw_added = lam(lambda x: z3.And(O[x], z3.Not(S[x])))
    rej, match = rejected_in(V, raw_added)
    after = lam(lambda x: z3.Xor(S[x], O[x]))
    return rej, match, [("return", result, noncoercing, after)]


class _Xor(SetMutator):
    result = None

    def args(self, cx, ov, st):
        st, refs, terms = self.set_operands(cx, st, 1, "value", pytype="frozenset" if ov == "frozenset-operand" else None)
        return st, list(refs), {}, dict(operands=terms, witness=dict(value=terms[0]))

    def reference(self, cx, I, ov, info):
        return _xor_reference(cx, info, self.result)

    def _post(self, cx, I, ov, info, kind, payload, st):
        out = super()._post(cx, I, ov, info, kind, payload, st)
        if kind == "return":
            V, S0, (O,) = info["V"], info["S"], info["operands"]
            S1 = st.heap[info["self_ref"].oid].payload
            x, y = z3.Const("x!new", Val), z3.Const("y!new", Val)
            out.append(("post:new-members-are-validated-operand-items", z3.ForAll([x], z3.Implies(
                z3.And(S1[x], z3.Not(S0[x])), z3.Exists([y], z3.And(O[y], V.ok(y), V.val(y) == x))))))
            out.append(("post:only-operand-members-leave", z3.ForAll([x], z3.Implies(
                z3.And(S0[x], z3.Not(S1[x])), O[x]))))
        return out


@register
class TSIXor(_Xor):
    qualname = "TraitSet.__ixor__"
    result = "self"
    overloads = ("default", "frozenset-operand")


@register
class TSSymDiffUpdate(_Xor):
    qualname = "TraitSet.symmetric_difference_update"


@register
class TSInit(SetMutator):
    """TraitSet(value, item_validator=..., notifiers=...): the new set holds exactly the validated items of `value`; the validator
    handed in is the one used and kept; a rejected item propagates its exception; nobody is notified of the initial contents."""
    qualname = "TraitSet.__init__"
    overloads = ("validator-and-notifiers-given",)

    def setup(self, cx, I, ov):
        st, self_ref, S, V = make_set_self(cx, self.cls)
        st = st.assume(S == EMPTY_SET)
        h = st.heap[self_ref.oid]
        st = st.put(self_ref.oid, HObj(h.kind, h.payload, h.cls, {}, h.meta))         # no instance-level validator / notifiers yet
        st, refs, terms = self.set_operands(cx, st, 1, "value")
        nref = VRef(cx.new_oid())
        st = st.put(nref.oid, HObj("list", z3.Const("notifiers_given", SeqV)))
        info = dict(S=S, V=V, self_ref=self_ref, operands=terms, nref=nref, witness=dict(value=terms[0]))
        info["concretise"] = lambda m: None
        return st, [self_ref, refs[0]], {"item_validator": V.as_value(), "notifiers": nref}, info

    def reference(self, cx, I, ov, info):
        V, (O,) = info["V"], info["operands"]
        img = image(cx, V, O)
        rej, match = rejected_in(V, O)
        return rej, match, [("return", None, T, img)]

    def _post(self, cx, I, ov, info, kind, payload, st):
        out = [c for c in SetMutator._post(self, cx, I, ov, info, kind, payload, st) if "event" not in c[0] and "contents-unchanged" not in c[0]
               and "silent" not in c[0] and "delta" not in c[0]]
        out.append(("post:construction-notifies-nobody" if kind == "return" else "raise:construction-notifies-nobody", z3.BoolVal(len(st.ghost["events"]) == 0)))
        if kind == "return":
            f = st.heap[info["self_ref"].oid].fields
            iv = f.get("item_validator")
            out.append(("post:the-validator-handed-in-is-kept", z3.BoolVal(iv is not None and getattr(iv, "validator", None) is info["V"])))
            n = f.get("notifiers")
            out.append(("post:the-notifiers-handed-in-are-installed", z3.BoolVal(isinstance(n, VRef) and n.oid == info["nref"].oid)))
        return out

    def same_result(self, cx, info, payload, st, rp):
        return z3.BoolVal(True)
