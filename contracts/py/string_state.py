"""C14: String trait type -- _init / __getstate__ / __setstate__.

'a trait definition survives a pickle / deepcopy round trip validating exactly as before': String keeps two derived
attributes, `_validate` (the name of the validation method chosen from regex/minlen/maxlen) and `match` (the compiled
regex's matcher, which cannot be pickled and is dropped by __getstate__).  Representation invariant wf(self):
    _validate == choose(regex, minlen, maxlen)   and   regex != ""  =>  match is re.compile(regex).match
_init establishes wf; __getstate__ returns the instance dict without validate/match and leaves the object alone;
__setstate__(state) re-establishes wf for the restored regex/minlen/maxlen -- whatever `_validate` the state carries,
on a fresh object (pickle, copy) as well as on an already initialised one."""
import z3

from vc.unit import Contract, register
from vc.pyvc.values import *  # noqa: F401,F403
from vc.pyvc.core import HObj, St, as_val, raise_

PATH = "traits/trait_types.py"
compiled = z3.Function("re_compile", Val, Val)
match_of = z3.Function("match_method_of", Val, Val)
MAXSIZE = z3.Int("sys_maxsize")


def choose(regex, minlen, maxlen):
    unbounded = z3.And(minlen == 0, maxlen == MAXSIZE)
    return z3.If(regex != z3.StringVal(""),
                 z3.If(unbounded, z3.StringVal("validate_regex"), z3.StringVal("validate_all")),
                 z3.If(unbounded, z3.StringVal("validate_str"), z3.StringVal("validate_len")))


class _StringBase(Contract):
    path = PATH
    properties = ("C14",)
    class_paths = (PATH, "traits/trait_type.py", "traits/base_trait_handler.py")
    assumptions = ("A-PY", "re.compile(p) is a function of the pattern text; .match of the compiled pattern a function of it",
                   "sys.maxsize is an unspecified integer constant")

    def configure(self, cx, I, ov):
        cx.const("None")
        cx.elem_attrs["match"] = lambda I2, o, st, k: k(VElem(match_of(o.t)), st)

    def base_state(self, cx):
        st = St()
        sysm, rem = VRef(cx.new_oid()), VRef(cx.new_oid())

        def re_compile(I2, a, kw, s, k):
            (p,) = a
            if not (isinstance(p, VStr) and p.t is not None):
                raise Unsupported("re.compile of %r" % (p,))
            e = I2.cx.fresh("exc", Exc)
            b = I2.cx.fresh("bad_pattern", z3.BoolSort())
            return I2.cx.branch(s, b, lambda s1: [("raise", VExc(sym=e, origin=("re.compile",)), s1.assume(*I2.cx.exc_axioms(e)))],
                                lambda s2: k(VElem(compiled(I2.cx.box_str(p.t))), s2))
        st = st.put(sysm.oid, HObj("obj", None, "module", {"maxsize": VInt(MAXSIZE)}))
        st = st.put(rem.oid, HObj("obj", None, "module", {"compile": VFunc("opaque", name="re.compile", apply=re_compile)}))
        cx.module_globals["sys"] = sysm
        cx.module_globals["re"] = rem
        return st

    def wf(self, cx, st, self_ref, regex, minlen, maxlen, prefix="post:"):
        f = st.heap[self_ref.oid].fields
        out = []
        v = f.get("_validate")
        out.append((prefix + "_validate-names-the-method-for-regex-and-length-bounds",
                    v.t == choose(regex, minlen, maxlen) if isinstance(v, VStr) and v.t is not None else z3.BoolVal(False)))
        m = f.get("match")
        want = match_of(compiled(cx.box_str(regex)))
        out.append((prefix + "match-is-the-matcher-of-the-current-regex",
                    z3.Implies(regex != z3.StringVal(""), as_val(cx, m, st) == want if m is not None else z3.BoolVal(False))))
        for n, t in (("regex", regex), ("minlen", minlen), ("maxlen", maxlen)):
            x = f.get(n)
            out.append((prefix + "%s-kept" % n, (x.t == t) if isinstance(x, (VStr, VInt)) and x.t is not None else z3.BoolVal(False)))
        return out


@register
class StringInit(_StringBase):
    qualname = "String._init"
    overloads = ("fresh", "stale-derived-attributes")

    def setup(self, cx, I, ov):
        st = self.base_state(cx)
        self_ref = VRef(cx.new_oid())
        regex, minlen, maxlen = z3.String("regex"), z3.Int("minlen"), z3.Int("maxlen")
        fields = {"regex": VStr(regex), "minlen": VInt(minlen), "maxlen": VInt(maxlen)}
        if ov != "fresh":
            fields["_validate"] = VStr(z3.String("stale_validate"))
            fields["match"] = VElem(z3.Const("stale_match", Val))
        st = st.put(self_ref.oid, HObj("obj", None, "String", fields))
        return st, [self_ref], {}, dict(self_ref=self_ref, r=(regex, minlen, maxlen), witness=dict(regex=regex, minlen=minlen, maxlen=maxlen))

    def post(self, cx, I, ov, info, kind, payload, st):
        if kind == "raise":
            ok = payload.origin == ("re.compile",)
            return [("post:only-a-bad-pattern-raises", z3.BoolVal(ok), dict(exception="%s %r" % (payload.cname or payload.sym, payload.origin)))]
        return self.wf(cx, st, info["self_ref"], *info["r"])

    def covers(self, cx, ov, info):
        return [("initialises", lambda k, p, s: k == "return")]


@register
class StringGetState(_StringBase):
    qualname = "String.__getstate__"
    overloads = ("with-matcher", "without-matcher")

    def setup(self, cx, I, ov):
        st = self.base_state(cx)
        self_ref = VRef(cx.new_oid())
        fields = {"regex": VStr(z3.String("regex")), "minlen": VInt(z3.Int("minlen")), "maxlen": VInt(z3.Int("maxlen")),
                  "_validate": VStr(z3.String("validate_name")), "_metadata": VElem(z3.Const("metadata", Val)),
                  "default_value": VElem(z3.Const("default_value", Val))}
        if ov == "with-matcher":
            fields["match"] = VElem(z3.Const("matcher", Val))
        st = st.put(self_ref.oid, HObj("obj", None, "String", fields))
        return st, [self_ref], {}, dict(self_ref=self_ref, fields0=dict(fields))

    def post(self, cx, I, ov, info, kind, payload, st):
        if kind == "raise":
            return [("exc-free", z3.BoolVal(False), dict(exception="%s %r" % (payload.cname or payload.sym, payload.origin)))]
        if not (isinstance(payload, VFunc) and payload.kind == "objdict"):
            return [("post:returns-a-state-dict", z3.BoolVal(False))]
        f = st.heap[payload.ref.oid].fields
        exp = {k: v for k, v in info["fields0"].items() if k not in ("validate", "match")}
        return [("post:state-is-the-instance-dict-without-validate-and-match", z3.BoolVal(set(f) == set(exp) and all(f[k] is exp[k] for k in exp))),
                ("post:state-keeps-regex-and-length-bounds", z3.BoolVal(all(n in f for n in ("regex", "minlen", "maxlen")))),
                ("frame:object-unchanged", z3.BoolVal(st.heap[info["self_ref"].oid].fields == info["fields0"]))]

    def covers(self, cx, ov, info):
        return [("returns", lambda k, p, s: k == "return")]


@register
class StringSetState(_StringBase):
    qualname = "String.__setstate__"
    inline = (("String", "_init"),)
    overloads = ("fresh-object/state-from-getstate", "fresh-object/state-without-_validate", "initialised-object/state-from-getstate")

    def setup(self, cx, I, ov):
        st = self.base_state(cx)
        self_ref, sref = VRef(cx.new_oid()), VRef(cx.new_oid())
        regex, minlen, maxlen = z3.String("regex"), z3.Int("minlen"), z3.Int("maxlen")
        state = {"regex": VStr(regex), "minlen": VInt(minlen), "maxlen": VInt(maxlen), "_metadata": VElem(z3.Const("metadata", Val))}
        if not ov.endswith("without-_validate"):
            # what __getstate__ of a well-formed String hands out: the method name chosen for these settings, no matcher
            vn = z3.String("pickled_validate")
            state["_validate"] = VStr(vn)
            st = st.assume(vn == choose(regex, minlen, maxlen))
        own = {}
        if ov.startswith("initialised"):
            own = {"regex": VStr(z3.String("old_regex")), "minlen": VInt(z3.Int("old_minlen")), "maxlen": VInt(z3.Int("old_maxlen")),
                   "_validate": VStr(z3.String("old_validate")), "match": VElem(z3.Const("old_match", Val))}
        st = st.put(sref.oid, HObj("obj", None, None, state, {"is_state_dict": True}))
        st = st.put(self_ref.oid, HObj("obj", None, "String", own))
        return st, [self_ref, VFunc("objdict", ref=sref)], {}, dict(
            self_ref=self_ref, r=(regex, minlen, maxlen), witness=dict(regex=regex, minlen=minlen, maxlen=maxlen),
            concretise=lambda m: dict(harness="cvalidators", family="string_state",
                                      regex_set=m.eval(z3.Length(regex), model_completion=True).as_long() > 0,
                                      bounded=not z3.is_true(m.eval(z3.And(minlen == 0, maxlen == MAXSIZE), model_completion=True))))

    def post(self, cx, I, ov, info, kind, payload, st):
        if kind == "raise":
            ok = payload.origin == ("re.compile",)
            return [("post:only-a-bad-pattern-raises", z3.BoolVal(ok), dict(exception="%s %r" % (payload.cname or payload.sym, payload.origin)))]
        return self.wf(cx, st, info["self_ref"], *info["r"], prefix="post:restored:")

    def covers(self, cx, ov, info):
        return [("restores", lambda k, p, s: k == "return")]
