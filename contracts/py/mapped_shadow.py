"""C01 -- the mapped shadow value.  Map.post_setattr / PrefixMap.post_setattr (what runs after a value was accepted and
stored) and TraitCompound._post_setattr (the compound's dispatcher over its mapped members).

C01 says an assignment either raises TraitError without effect or stores the value together with its mapped shadow, and that no
exception other than TraitError / the value's own conversion protocol surfaces.  post_setattr runs AFTER the store: inside a
compound trait (Either(Map({...}), Int), Trait(None, {...}) ...) the accepted value need not be a key of this member's map at
all -- another member accepted it.  The compound's dispatcher moves on to the next mapped member exactly when a member raises
TraitError; so the member's contract is: a value that is not a key is answered by TraitError (never KeyError / TypeError of
the dictionary lookup, which would surface from an assignment that has already stored the value)."""
import z3

from vc.unit import Contract, register
from vc.pyvc.values import *  # noqa: F401,F403
from vc.pyvc.core import HObj, St, as_val, raise_

PATH = "traits/trait_types.py"
HPATH = "traits/trait_handlers.py"


class _MappedPostSetattr(Contract):
    path = PATH
    properties = ("C01", "C19")
    class_paths = (PATH,)
    overloads = ("default",)
    assumptions = ("A-PY", "self.map[value]: found (the mapped value) / KeyError (not a key) / TypeError (unhashable value)",
                   "setattr(object, name + '_', v) runs the shadow trait's machinery: returns or raises anything")

    def configure(self, cx, I, ov):
        self.map, self.mapped = z3.Const("the_map", Val), z3.Const("mapped_value", Val)
        self.found, self.unhashable = z3.Bool("value_is_a_key"), z3.Bool("value_is_unhashable")

        def getitem_hook(I2, obj, key, st, k):
            if isinstance(obj, VElem) and obj.t.eq(self.map):
                st = st.gset("lookups", st.ghost.get("lookups", 0) + 1)
                return I2.cx.branch(st, self.unhashable, lambda s: raise_(s, "TypeError", origin=("lookup",)),
                                    lambda s: I2.cx.branch(s, self.found, lambda s2: k(VElem(self.mapped), s2), lambda s2: raise_(s2, "KeyError", origin=("lookup",))))
            return None
        cx.getitem_hook = getitem_hook

        def dyn_setattr(I2, args, st, k):
            st2 = st.gset("stores", tuple(st.ghost.get("stores", ())) + (tuple(args),))
            e = cx.fresh("shadow_exc", Exc)
            return k(NONE, st2) + [("raise", VExc(sym=e, origin=("shadow-setattr",)), st2.assume(*cx.exc_axioms(e)))]
        cx.dyn_setattr_hook = dyn_setattr

    def setup(self, cx, I, ov):
        st = St()
        self_ref = VRef(cx.new_oid())
        st = st.put(self_ref.oid, HObj("obj", None, self.qualname.split(".")[0], {"map": VElem(self.map)}))
        obj, value = z3.Consts("object value", Val)
        name = z3.String("name")
        return st, [self_ref, VElem(obj), VStr(name), VElem(value)], {}, dict(
            obj=obj, name=name, value=value, witness={"value is a key": self.found, "value unhashable": self.unhashable},
            concretise=lambda m: dict(harness="pyvalidators", family="mapped_shadow"))

    def post(self, cx, I, ov, info, kind, payload, st):
        stores = st.ghost.get("stores", ())
        is_key = z3.And(self.found, z3.Not(self.unhashable))
        out = []
        if kind == "return":
            ok = len(stores) == 1
            shadow = z3.BoolVal(False)
            if ok:
                o, n, v = stores[0]
                shadow = z3.And(as_val(cx, o, st) == info["obj"], isinstance(n, VStr) and n.t == z3.Concat(info["name"], z3.StringVal("_")),
                                as_val(cx, v, st) == self.mapped)
            out.append(("post:returns-only-for-a-key-after-storing-map[value]-under-name_", z3.And(is_key, shadow)))
        else:
            from_shadow = payload.origin and payload.origin[0] == "shadow-setattr"
            if from_shadow:
                out.append(("post:a-failure-of-the-shadow-assignment-happens-only-for-a-key", is_key))
            else:
                out.append(("post:a-value-that-is-not-a-key-is-answered-by-TraitError-(the-compound-moves-on)-never-by-the-lookup's-KeyError/TypeError",
                            z3.And(z3.Not(is_key), z3.BoolVal(payload.cname == "TraitError"))))
                out.append(("post:nothing-stored-for-a-value-that-is-not-a-key", z3.BoolVal(len(stores) == 0)))
        return out

    def covers(self, cx, ov, info):
        return [("maps", lambda k, p, s: k == "return"), ("not-a-key", lambda k, p, s: k == "raise" and not (p.origin and p.origin[0] == "shadow-setattr"))]

    def summary(self, I, self_ref, args, kwargs, st, k):
        raise NotImplementedError


@register
class MapPostSetattr(_MappedPostSetattr):
    qualname = "Map.post_setattr"


@register
class PrefixMapPostSetattr(_MappedPostSetattr):
    qualname = "PrefixMap.post_setattr"


@register
class CompoundPostSetattr(Contract):
    """TraitCompound._post_setattr: the mapped members are tried in order; the first whose post_setattr does not raise
    TraitError ends the dispatch; when every one raises TraitError the value itself becomes the shadow value.  Members meet
    the contract above (TraitError for a value that is not theirs), so nothing but a failure of a shadow assignment surfaces."""
    path = HPATH
    qualname = "TraitCompound._post_setattr"
    properties = ("C01", "C19")
    class_paths = (HPATH,)
    overloads = ("two-mapped-members",)
    assumptions = ("A-PY", "bounded shape: two mapped members (the loop is unrolled over a concrete list of two symbolic members)",
                   "a member's post_setattr returns, raises TraitError (value not its own) or raises something else (failure of the shadow assignment)")

    def configure(self, cx, I, ov):
        self.out = [z3.Int("member_%d_outcome" % i) for i in range(2)]      # 0 returns, 1 TraitError, 2 other

        def call_hook(I2, fv, args, kwargs, st, k):
            if isinstance(fv, VConst) and fv.name.startswith("member-post-setattr-"):
                i = int(fv.name.rsplit("-", 1)[1])
                st2 = st.gset("calls", tuple(st.ghost.get("calls", ())) + ((i, tuple(args)),))
                e = cx.fresh("member_exc", Exc)
                return (I2.cx.branch(st2, self.out[i] == 0, lambda s: k(NONE, s), lambda s: I2.cx.branch(
                    s, self.out[i] == 1, lambda s2: raise_(s2, "TraitError", origin=("member", i)),
                    lambda s2: [("raise", VExc(sym=e, origin=("member-other", i)), s2.assume(*cx.exc_axioms(e), z3.Not(cx.exc_isa_sym(e, "TraitError"))))])))
            return None
        cx.call_hook = call_hook

        def dyn_setattr(I2, args, st, k):
            st2 = st.gset("stores", tuple(st.ghost.get("stores", ())) + (tuple(args),))
            return k(NONE, st2)
        cx.dyn_setattr_hook = dyn_setattr

    def setup(self, cx, I, ov):
        st = St().assume(*[z3.And(0 <= o, o <= 2) for o in self.out])
        self_ref = VRef(cx.new_oid())
        members = VTuple([cx.const("member-post-setattr-0"), cx.const("member-post-setattr-1")])
        st = st.put(self_ref.oid, HObj("obj", None, "TraitCompound", {"post_setattrs": members}))
        obj, value = z3.Consts("object value", Val)
        name = z3.String("name")
        return st, [self_ref, VElem(obj), VStr(name), VElem(value)], {}, dict(obj=obj, name=name, value=value,
                                                                                 witness={"outcome0": self.out[0], "outcome1": self.out[1]})

    def post(self, cx, I, ov, info, kind, payload, st):
        calls = st.ghost.get("calls", ())
        stores = st.ghost.get("stores", ())
        o0, o1 = self.out
        n_expected = z3.If(o0 != 1, 1, 2)
        out = [("post:members-tried-in-order-until-one-does-not-raise-TraitError", z3.And(z3.BoolVal([c[0] for c in calls] == list(range(len(calls)))), n_expected == len(calls)))]
        if kind == "return":
            fallback = z3.And(o0 == 1, o1 == 1)
            out.append(("post:returns-iff-a-member-handled-it-or-all-declined", z3.Or(o0 == 0, z3.And(o0 == 1, o1 == 0), fallback)))
            if stores:
                o, n, v = stores[0]
                good = z3.And(as_val(cx, o, st) == info["obj"], n.t == z3.Concat(info["name"], z3.StringVal("_")) if isinstance(n, VStr) else z3.BoolVal(False),
                              as_val(cx, v, st) == info["value"])
                out.append(("post:the-value-itself-becomes-the-shadow-exactly-when-every-member-declined", z3.And(fallback, z3.BoolVal(len(stores) == 1), good)))
            else:
                out.append(("post:the-value-itself-becomes-the-shadow-exactly-when-every-member-declined", z3.Not(fallback)))
        else:
            out.append(("post:only-a-member's-non-TraitError-failure-surfaces", z3.BoolVal(bool(payload.origin and payload.origin[0] == "member-other"))))
            out.append(("post:nothing-stored-by-the-dispatcher-then", z3.BoolVal(len(stores) == 0)))
        return out

    def covers(self, cx, ov, info):
        return [("handled", lambda k, p, s: k == "return"), ("surfaces", lambda k, p, s: k == "raise")]


# ------------------------------------------------------------------------------------------------------------------
# C03: which alternative of a compound answers (Python level)
# ------------------------------------------------------------------------------------------------------------------
class _CompoundValidate(Contract):
    path = HPATH
    properties = ("C03", "C01")
    class_paths = (HPATH, "traits/trait_handler.py", "traits/base_trait_handler.py")
    overloads = ("two-alternatives",)
    field = None
    assumptions = ("A-PY", "bounded shape: two alternatives in the list walked (a concrete list of two symbolic validators)",
                   "an alternative's validate returns a value, raises TraitError (declines) or raises something else",
                   "BaseTraitHandler.error always raises TraitError (summary)")

    def configure(self, cx, I, ov):
        from contracts.py.validators_py import ErrorSummary
        self.out = {}
        self.res = {}
        for grp in ("fast", "slow"):
            for i in range(2):
                self.out[(grp, i)] = z3.Int("%s_alternative_%d_outcome" % (grp, i))       # 0 accepts, 1 TraitError, 2 other
                self.res[(grp, i)] = z3.Const("%s_alternative_%d_result" % (grp, i), Val)
        cx.contracts = dict(cx.contracts)
        cx.contracts[("BaseTraitHandler", "error")] = ErrorSummary()

        def call_hook(I2, fv, args, kwargs, st, k):
            if isinstance(fv, VConst) and fv.name.startswith("alt-"):
                _a, grp, i = fv.name.split("-")
                key = (grp, int(i))
                st2 = st.gset("calls", tuple(st.ghost.get("calls", ())) + ((key, tuple(args)),))
                e = cx.fresh("alt_exc", Exc)
                return I2.cx.branch(st2, self.out[key] == 0, lambda s: k(VElem(self.res[key]), s), lambda s: I2.cx.branch(
                    s, self.out[key] == 1, lambda s2: raise_(s2, "TraitError", origin=("alt",) + key),
                    lambda s2: [("raise", VExc(sym=e, origin=("alt-other",) + key), s2.assume(*cx.exc_axioms(e), z3.Not(cx.exc_isa_sym(e, "TraitError"))))]))
            return None
        cx.call_hook = call_hook

    def setup(self, cx, I, ov):
        st = St().assume(*[z3.And(0 <= o, o <= 2) for o in self.out.values()])
        self_ref = VRef(cx.new_oid())
        fields = {"validates": VTuple([cx.const("alt-fast-0"), cx.const("alt-fast-1")]), "slow_validates": VTuple([cx.const("alt-slow-0"), cx.const("alt-slow-1")])}
        st = st.put(self_ref.oid, HObj("obj", None, "TraitCompound", fields))
        obj, value = z3.Consts("object value", Val)
        name = z3.String("name")
        return st, [self_ref, VElem(obj), VStr(name), VElem(value)], {}, dict(obj=obj, name=name, value=value, witness={str(k_): v for k_, v in self.out.items()})

    def order(self):
        raise NotImplementedError

    def post(self, cx, I, ov, info, kind, payload, st):
        calls = st.ghost.get("calls", ())
        order = self.order()
        # expected number of alternatives asked: up to and including the first that does not decline
        n_exp = z3.IntVal(len(order))
        for j in reversed(range(len(order))):
            n_exp = z3.If(self.out[order[j]] != 1, j + 1, n_exp)
        asked = [c[0] for c in calls]
        out = [("post:alternatives-asked-in-declaration-order-(fast-before-slow)-until-one-does-not-decline",
                z3.And(z3.BoolVal(asked == order[:len(asked)]), n_exp == len(asked))),
               ("post:every-alternative-is-given-the-object-the-name-and-the-value", z3.And(*[
                   z3.And(as_val(cx, a[0], st) == info["obj"], a[1].t == info["name"], as_val(cx, a[2], st) == info["value"]) if len(a) == 3 and isinstance(a[1], VStr) else z3.BoolVal(False)
                   for (_k, a) in calls]) if calls else z3.BoolVal(True))]
        all_decline = z3.And(*[self.out[k_] == 1 for k_ in order])
        if kind == "return":
            first = z3.BoolVal(False)
            for j in reversed(range(len(order))):
                first = z3.If(self.out[order[j]] == 0, as_val(cx, payload, st) == self.res[order[j]], z3.If(self.out[order[j]] == 1, first, z3.BoolVal(False)))
            out.append(("post:accepted-with-the-result-of-the-FIRST-accepting-alternative", first))
        elif payload.cname == "TraitError" and payload.origin and payload.origin[0] == "self.error":
            out.append(("post:rejected-with-the-compound's-own-TraitError-exactly-when-every-alternative-declined", all_decline))
        else:
            out.append(("post:only-an-alternative's-own-non-TraitError-exception-passes-through", z3.BoolVal(bool(payload.origin and payload.origin[0] == "alt-other"))))
        return out

    def covers(self, cx, ov, info):
        return [("accepts", lambda k, p, s: k == "return"), ("rejects", lambda k, p, s: k == "raise" and p.cname == "TraitError")]


@register
class CompoundValidate(_CompoundValidate):
    """TraitCompound.validate: the fast alternatives in order, then the slow ones in order; the first that does not raise
    TraitError answers; the compound's own TraitError iff all declined."""
    qualname = "TraitCompound.validate"
    inline = ("TraitCompound.slow_validate",)

    def order(self):
        return [("fast", 0), ("fast", 1), ("slow", 0), ("slow", 1)]


@register
class CompoundSlowValidate(_CompoundValidate):
    """TraitCompound.slow_validate (what the compiled validate_trait_complex calls for its slow entry): the slow alternatives
    in order only."""
    qualname = "TraitCompound.slow_validate"

    def order(self):
        return [("slow", 0), ("slow", 1)]
