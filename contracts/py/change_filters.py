"""The notification filters (C02): _change_accepted (static and on_trait_change wrappers) and ctrait_prevent_event
(observe).  Spec counts(mode, old, new) from the statement: 'equality: not identical and compares unequal'; never
for the first read of a default (old is Uninitialized).  A comparison that raises -- in == / != itself or when its
result is converted to bool -- counts as a change, and the filter itself never raises ('an exception ... neither
undoes the assignment nor prevents any other handler from being called').

A-EQ is *not* assumed here: `old != new` on arbitrary values has four outcomes (raises; returns an object whose
truth value raises; truthy; falsy)."""
import z3

from vc.unit import Contract, register
from vc.pyvc.values import *  # noqa: F401,F403
from vc.pyvc.core import St, raise_
from vc.pyvc import source

CONST = source.module_constants  # noqa


def comparison_mode_equality():
    """value of ComparisonMode.equality, read from traits/constants.py"""
    import ast
    src, tree = source.load_module("traits/constants.py")
    for n in ast.walk(tree):
        if isinstance(n, ast.ClassDef) and n.name == "ComparisonMode":
            for b in n.body:
                if isinstance(b, ast.Assign) and getattr(b.targets[0], "id", None) == "equality":
                    return ast.literal_eval(b.value)
    raise Unsupported("ComparisonMode.equality not found")


class FourValuedCompare:
    def __init__(self, cx, opname):
        self.raises = z3.Function(opname + "_raises", Val, Val, z3.BoolSort())
        self.result = z3.Function(opname + "_result", Val, Val, Val)
        self.bool_raises = z3.Function("bool_raises", Val, z3.BoolSort())
        self.truth = z3.Function("truth_of", Val, z3.BoolSort())
        self.exc = z3.Function(opname + "_exc", Val, Val, Exc)
        self.bexc = z3.Function("bool_exc", Val, Exc)

    def install(self, cx, node_type):
        import ast

        def eq_hook(I, op, a, b, st, k):
            if not isinstance(op, node_type) or not isinstance(a, (VElem, VConst)) or not isinstance(b, (VElem, VConst)):
                return None
            out = I.cx.branch(st, z3.Not(self.raises(a.t, b.t)), lambda s: k(VElem(self.result(a.t, b.t)), s), lambda s: [])
            e = self.exc(a.t, b.t)
            out += I.cx.branch(st, self.raises(a.t, b.t), lambda s: [("raise", VExc(sym=e, origin=("compare",)),
                                                                     s.assume(*I.cx.exc_axioms(e), I.cx.exc_isa_sym(e, "Exception")))], lambda s: [])
            return out

        def bool_hook(I, x, st, k):
            if not isinstance(x, VElem):
                return None
            out = I.cx.branch(st, z3.Not(self.bool_raises(x.t)), lambda s: k(VBool(self.truth(x.t)), s), lambda s: [])
            e = self.bexc(x.t)
            out += I.cx.branch(st, self.bool_raises(x.t), lambda s: [("raise", VExc(sym=e, origin=("bool",)),
                                                                     s.assume(*I.cx.exc_axioms(e), I.cx.exc_isa_sym(e, "Exception")))], lambda s: [])
            return out
        cx.eq_hook = eq_hook
        cx.bool_hook = bool_hook

    def compares_true(self, a, b):
        """the comparison says 'true' without raising anywhere"""
        r = self.result(a, b)
        return z3.And(z3.Not(self.raises(a, b)), z3.Not(self.bool_raises(r)), self.truth(r))

    def raises_somewhere(self, a, b):
        return z3.Or(self.raises(a, b), self.bool_raises(self.result(a, b)))


def filter_concretiser(self, cx, info, function):
    def conc(m):
        ev = lambda t: m.eval(t, model_completion=True)
        old, new = info["old"], info["new"]
        r = self.cmp.result(old, new)
        ttype, cm, eqv = self.tm
        return dict(harness="notif", family="filter", function=function,
                    old_is_Uninitialized=z3.is_true(ev(old == cx.const("Uninitialized").t)),
                    compare_raises=z3.is_true(ev(self.cmp.raises(old, new))), bool_raises=z3.is_true(ev(self.cmp.bool_raises(r))),
                    compare_true=z3.is_true(ev(self.cmp.truth(r))), trait_is_value_trait=z3.is_true(ev(ttype == z3.StringVal("trait"))),
                    comparison_mode=ev(cm).as_long())
    return conc


def install_trait_model(cx):
    ttype = z3.String("trait_type")
    cm = z3.Int("comparison_mode")
    trait = z3.Const("the_ctrait", Val)
    cx.elem_attrs["type"] = lambda I, o, st, k: k(VStr(ttype), st)
    cx.elem_attrs["comparison_mode"] = lambda I, o, st, k: k(VInt(cm), st)
    ret_trait = lambda I, o, st, k: k(VFunc("opaque", name="_trait", apply=lambda I2, a, kw, s, kk: kk(VElem(trait), s)), st)
    cx.elem_attrs["_trait"] = ret_trait
    cx.elem_attrs["trait"] = ret_trait
    eqv = comparison_mode_equality()

    def getattr_hook(I, obj, name, st, k):
        if isinstance(obj, VFunc) and obj.kind == "repo" and obj.name == "TraitKind" and name == "trait":
            return k(VFunc("repo", name="TraitKind.trait", module="traits.constants", node=None), st)
        if isinstance(obj, VFunc) and obj.kind == "repo" and obj.name == "TraitKind.trait" and name == "name":
            return k(VStr(const="trait"), st)
        if isinstance(obj, VFunc) and obj.kind == "repo" and obj.name == "ComparisonMode" and name == "equality":
            return k(VInt(eqv), st)
        return None
    cx.getattr_hook = getattr_hook
    return ttype, cm, eqv


@register
class ChangeAccepted(Contract):
    path = "traits/trait_notifiers.py"
    qualname = "_change_accepted"
    properties = ("C02", "C10", "C19")
    assumptions = ("A-PY", "four-valued model of == / != on arbitrary values")

    def configure(self, cx, I, ov):
        import ast
        self.cmp = FourValuedCompare(cx, "ne")
        self.cmp.install(cx, ast.NotEq)
        self.tm = install_trait_model(cx)

    def setup(self, cx, I, ov):
        obj, old, new = z3.Consts("object old new", Val)
        cx.const("Uninitialized")
        info0 = dict(old=old, new=new)
        return St(), [VElem(obj), VStr(z3.String("name")), VElem(old), VElem(new)], {}, dict(
            old=old, new=new, concretise=filter_concretiser(self, cx, info0, "_change_accepted"), witness=dict(old_is_Uninitialized=old == cx.const("Uninitialized").t,
                                           ne_raises=self.cmp.raises(old, new),
                                           bool_of_result_raises=self.cmp.bool_raises(self.cmp.result(old, new)),
                                           trait_type=self.tm[0], comparison_mode=self.tm[1]))

    def post(self, cx, I, ov, info, kind, payload, st):
        if kind == "raise":
            return [("exc-free:filter-never-raises", z3.BoolVal(False), dict(exception="%s %r" % (payload.cname or payload.sym, payload.origin)))]
        old, new = info["old"], info["new"]
        ttype, cm, eqv = self.tm
        uninit = old == cx.const("Uninitialized").t
        eqmode = z3.And(ttype == z3.StringVal("trait"), cm == eqv)
        counts = z3.If(uninit, False, z3.If(eqmode, z3.Or(self.cmp.raises_somewhere(old, new), self.cmp.compares_true(old, new)), True))
        if not isinstance(payload, VBool):
            return [("post:returns-a-bool", z3.BoolVal(False))]
        return [("post:accepts-iff-the-assignment-counts-as-a-change", payload.t == counts)]

    def covers(self, cx, ov, info):
        return [("accepts", lambda k, p, s: k == "return" and isinstance(p, VBool) and p.t),
                ("filters", lambda k, p, s: k == "return" and isinstance(p, VBool) and z3.Not(p.t))]


@register
class CTraitPreventEvent(Contract):
    path = "traits/observation/_has_traits_helpers.py"
    qualname = "ctrait_prevent_event"
    properties = ("C02", "C10", "C08")
    assumptions = ChangeAccepted.assumptions

    def configure(self, cx, I, ov):
        import ast
        self.cmp = FourValuedCompare(cx, "eq")
        self.cmp.install(cx, ast.Eq)
        self.tm = install_trait_model(cx)
        old, new, obj = z3.Consts("old new object", Val)
        cx.elem_attrs["old"] = lambda I2, o, st, k: k(VElem(old), st)
        cx.elem_attrs["new"] = lambda I2, o, st, k: k(VElem(new), st)
        cx.elem_attrs["object"] = lambda I2, o, st, k: k(VElem(obj), st)
        cx.elem_attrs["name"] = lambda I2, o, st, k: k(VStr(z3.String("name")), st)

    def setup(self, cx, I, ov):
        old, new = z3.Consts("old new", Val)
        cx.const("Uninitialized")
        info0 = dict(old=old, new=new)
        return St(), [VElem(z3.Const("event", Val))], {}, dict(old=old, new=new,
                                                              concretise=filter_concretiser(self, cx, info0, "ctrait_prevent_event"), witness=dict(
            old_is_Uninitialized=old == cx.const("Uninitialized").t, eq_raises=self.cmp.raises(old, new),
            bool_of_result_raises=self.cmp.bool_raises(self.cmp.result(old, new)), trait_type=self.tm[0], comparison_mode=self.tm[1]))

    def post(self, cx, I, ov, info, kind, payload, st):
        if kind == "raise":
            return [("exc-free:filter-never-raises", z3.BoolVal(False), dict(exception="%s %r" % (payload.cname or payload.sym, payload.origin)))]
        old, new = info["old"], info["new"]
        ttype, cm, eqv = self.tm
        uninit = old == cx.const("Uninitialized").t
        eqmode = z3.And(ttype == z3.StringVal("trait"), cm == eqv)
        # prevented iff it does not count: default read, or equality mode and `old == new` is (without raising) true
        prevented = z3.If(uninit, True, z3.If(eqmode, self.cmp.compares_true(old, new), False))
        if not isinstance(payload, VBool):
            return [("post:returns-a-bool", z3.BoolVal(False))]
        return [("post:prevents-iff-the-assignment-does-not-count-as-a-change", payload.t == prevented)]

    def covers(self, cx, ov, info):
        return [("prevents", lambda k, p, s: k == "return" and isinstance(p, VBool) and p.t),
                ("lets-through", lambda k, p, s: k == "return" and isinstance(p, VBool) and z3.Not(p.t))]
