"""Contracts for the observer event factories (C06/C05/C07 'delivers the corresponding change event',
C08 kind clause).  The factories are called once per notifier with the *same* removed/added/changed
objects every other notifier of that emission receives, so besides the merge law they must not modify
their arguments (frame)."""
import z3

from vc.unit import Contract, register
from vc.pyvc.values import *  # noqa: F401,F403
from vc.pyvc.core import HObj, St
from vc.pyvc.builtins_model import ite
from vc.pyvc import loops


@register
class DictEventFactory(Contract):
    path = "traits/observation/_dict_change_event.py"
    qualname = "dict_event_factory"
    properties = ("C06", "C08")
    inline = (("DictChangeEvent", "__init__"),)
    assumptions = ("A-PY", "A-BUILTIN:dict")

    def configure(self, cx, I, ov):
        def inv(done, view, st):
            info = self._info
            y = z3.Const("y!inv", Val)
            return [("added-merged-for-visited-keys", view["added"] == mk_lambda(y, ite(done[y], info["M"][y], info["A"][y])))]
        cx.on_loop = loops.make_hook({0: loops.LoopSpec("for key in changed", ["added"], inv, over="members")})

    def setup(self, cx, I, ov):
        M, R, A, C = [z3.Const(n, MapV) for n in ("contents", "removed", "added", "changed")]
        st = St()
        refs = {}
        for nm, t in (("trait_dict", M), ("removed", R), ("added", A), ("changed", C)):
            r = VRef(cx.new_oid())
            st = st.put(r.oid, HObj("dict", t))
            refs[nm] = r
        k = z3.Const("k!pre", Val)
        # precondition = the emitted event is faithful (C06): changed keys are still present
        st = st.assume(z3.ForAll([k], z3.Implies(C[k] != Opt.none, M[k] != Opt.none)))
        info = dict(M=M, R=R, A=A, C=C, refs=refs, witness=dict(contents=M, removed=R, added=A, changed=C))
        self._info = info

        def conc(m):
            from vc.concretise import Universe
            U = Universe(m)
            d = {nm: sorted(U.map_entries(t).items()) for nm, t in (("changed", C), ("contents", M), ("removed", R), ("added", A))}
            # keep the precondition: changed keys are present in the dict
            cont = dict(d["contents"])
            for k, v in d["changed"]:
                cont.setdefault(k, v + 100)
            d["contents"] = sorted(cont.items())
            return dict(harness="containers", family="dict_event_factory", **d)
        info["concretise"] = conc
        return st, [refs["trait_dict"], refs["removed"], refs["added"], refs["changed"]], {}, info

    def post(self, cx, I, ov, info, kind, payload, st):
        if kind == "raise":
            return [("exc-free", z3.BoolVal(False))]
        if not (isinstance(payload, VRef) and st.heap[payload.oid].cls == "DictChangeEvent"):
            return [("post:returns-a-DictChangeEvent", z3.BoolVal(False))]
        f = st.heap[payload.oid].fields
        M, R, A, C, refs = info["M"], info["R"], info["A"], info["C"], info["refs"]
        y = z3.Const("y!post", Val)
        out = [("post:object-is-the-dict", z3.BoolVal(isinstance(f.get("object"), VRef) and f["object"].oid == refs["trait_dict"].oid))]
        try:
            er, ea = st.heap[f["removed"].oid].payload, st.heap[f["added"].oid].payload
        except Exception:
            return out + [("post:event-fields", z3.BoolVal(False))]
        out.append(("post:removed-merges-changed-old-values", z3.ForAll([y], er[y] == ite(C[y] != Opt.none, C[y], R[y]))))
        out.append(("post:added-merges-changed-new-values", z3.ForAll([y], ea[y] == ite(C[y] != Opt.none, M[y], A[y]))))
        # frame: the arguments are shared with every other notifier of the same emission
        for nm, t in (("removed", R), ("added", A), ("changed", C), ("trait_dict", M)):
            out.append(("frame:argument-%s-not-modified" % nm, st.heap[refs[nm].oid].payload == t))
        return out

    def covers(self, cx, ov, info):
        return [("returns", lambda k, p, s: k == "return")]


class _SimpleFactory(Contract):
    properties = ("C08",)
    cls = None
    argnames = ()

    def setup(self, cx, I, ov):
        st = St()
        args, refs = [], {}
        for nm in self.argnames:
            if nm == "index":
                v = VInt(z3.Int("index"))
            else:
                v = VRef(cx.new_oid())
                st = st.put(v.oid, HObj("obj", None, "opaque_" + nm))
            args.append(v)
            refs[nm] = v
        return st, args, {}, dict(refs=refs)

    def post(self, cx, I, ov, info, kind, payload, st):
        if kind == "raise":
            return [("exc-free", z3.BoolVal(False))]
        if not (isinstance(payload, VRef) and st.heap[payload.oid].cls == self.cls):
            return [("post:returns-the-event-class", z3.BoolVal(False))]
        f = st.heap[payload.oid].fields
        out = []
        names = dict(zip(self.argnames, ("object",) + self.argnames[1:]))
        for arg, field in names.items():
            v, w = info["refs"][arg], f.get(field)
            same = (isinstance(v, VRef) and isinstance(w, VRef) and v.oid == w.oid) or (v is w)
            out.append(("post:field-%s-is-the-argument" % field, z3.BoolVal(bool(same))))
        return out


@register
class ListEventFactory(_SimpleFactory):
    path = "traits/observation/_list_change_event.py"
    qualname = "list_event_factory"
    properties = ("C05", "C08")
    cls = "ListChangeEvent"
    inline = (("ListChangeEvent", "__init__"),)
    argnames = ("trait_list", "index", "removed", "added")


@register
class SetEventFactory(_SimpleFactory):
    path = "traits/observation/_set_change_event.py"
    qualname = "set_event_factory"
    properties = ("C07", "C08")
    cls = "SetChangeEvent"
    inline = (("SetChangeEvent", "__init__"),)
    argnames = ("trait_set", "removed", "added")
