"""C08 (per-operation delta contracts): the maintainer that re-hooks the downstream graph when an observed trait changes.

observer_change_handler(event, graph, handler, target, dispatcher): the downstream graph is detached from the old value
and attached to the new value -- each exactly once, in that order, each only if the value is observable (not Undefined,
Uninitialized or None); a NotifierNotFound while detaching from an old value that never had notifiers (a default) is
absorbed, any other failure propagates.  The whole-history statement of C08 follows from these deltas only with an
induction over histories that is NOT machine-checked (DESIGN 6 C08)."""
import z3

from vc.unit import Contract, register
from vc.pyvc.values import *  # noqa: F401,F403
from vc.pyvc.core import HObj, St, as_val, raise_


@register
class ObserverChangeHandler(Contract):
    path = "traits/observation/_has_traits_helpers.py"
    qualname = "observer_change_handler"
    properties = ("C08", "C12")
    assumptions = ("A-PY", "add_or_remove_notifiers through the contract of _AddOrRemoveNotifier.__call__ (C09)")

    def configure(self, cx, I, ov):
        old, new = z3.Consts("event_old event_new", Val)
        cx.elem_attrs["old"] = lambda I2, o, st, k: k(VElem(old), st)
        cx.elem_attrs["new"] = lambda I2, o, st, k: k(VElem(new), st)
        for n in ("Undefined", "Uninitialized", "None"):
            cx.const(n)
        cx.module_globals["UNOBSERVABLE_VALUES"] = VTuple([cx.const("Undefined"), cx.const("Uninitialized"), NONE])
        cx.module_globals["NotifierNotFound"] = VExcClass("NotifierNotFound")

        def repo_call(I2, fv, args, kwargs, st, k):
            if fv.name != "add_or_remove_notifiers":
                return None
            rec = ("walk", as_val(I2.cx, kwargs["object"], st), as_val(I2.cx, kwargs["graph"], st), kwargs["remove"],
                   tuple(sorted(kwargs)))
            st2 = st.gset("walks", st.ghost.get("walks", ()) + (rec,))
            out = k(NONE, st2)
            out.append(("raise", VExc(cname="NotifierNotFound", origin=("walk",)), st2.gset("nnf", st2.ghost.get("nnf", 0) + 1)))
            e = I2.cx.fresh("walk_exc", Exc)
            out.append(("raise", VExc(sym=e, origin=("walk-other",)), st2.assume(
                *I2.cx.exc_axioms(e), z3.Not(I2.cx.exc_isa_sym(e, "NotifierNotFound")))))
            return out
        cx.repo_call_hook = repo_call

        def builtin_hook(I2, name, args, kwargs, st, k):
            if name == "all" and len(args) == 1 and isinstance(args[0], VGen):
                # all(<pure test> for x in <Python-level tuple>): the conjunction
                gen = args[0]
                g = gen.node.generators[0]

                def k_it(it, st2):
                    items = I2.concrete_items(it, st2)
                    if items is None:
                        raise Unsupported("all() over a symbolic iterable")
                    conj = []

                    def go(i, st3):
                        if i == len(items):
                            return k(VBool(z3.And(*conj) if conj else z3.BoolVal(True)), st3.with_env(st.env))
                        from vc.pyvc.core import truth
                        return I2.assign(g.target, items[i], st3, lambda s4: I2.ev(gen.node.elt, s4, lambda v, s5: (
                            conj.append(truth(I2.cx, v, s5)) or go(i + 1, s5))))
                    return go(0, st2)
                return I2.ev(g.iter, st.with_env(gen.env), k_it)
            return None
        cx.builtin_hook = builtin_hook

    def setup(self, cx, I, ov):
        args = [VElem(z3.Const(n, Val)) for n in ("event", "graph", "handler", "target", "dispatcher")]
        return St(), args, {}, dict(graph=args[1].t, witness={})

    def post(self, cx, I, ov, info, kind, payload, st):
        old, new = z3.Consts("event_old event_new", Val)
        skip = [cx.const("Undefined").t, cx.const("Uninitialized").t, cx.const("None").t]
        obs_old = z3.And(*[old != s for s in skip])
        obs_new = z3.And(*[new != s for s in skip])
        walks = st.ghost.get("walks", ())
        removes = [w for w in walks if isinstance(w[3], VBool) and z3.is_true(z3.simplify(w[3].t))]
        adds = [w for w in walks if isinstance(w[3], VBool) and z3.is_false(z3.simplify(w[3].t))]
        out = [("post:at-most-one-detach-and-one-attach", z3.BoolVal(len(removes) <= 1 and len(adds) <= 1 and len(walks) == len(removes) + len(adds)))]
        out.append(("post:detached-from-the-old-value-iff-observable", z3.BoolVal(bool(removes)) == obs_old))
        for w in removes:
            out.append(("post:detach-is-for-the-old-value-and-the-downstream-graph", z3.And(w[1] == old, w[2] == info["graph"])))
        for w in adds:
            out.append(("post:attach-is-for-the-new-value-and-the-downstream-graph", z3.And(w[1] == new, w[2] == info["graph"])))
        if removes and adds:
            out.append(("post:detach-before-attach", z3.BoolVal(walks.index(removes[0]) < walks.index(adds[0]))))
        if kind == "return":
            out.append(("post:attached-to-the-new-value-iff-observable", z3.BoolVal(bool(adds)) == obs_new))
        else:
            # what may escape: a failure of the attach step, or a failure of the detach step other than NotifierNotFound
            absorbed_ok = not (payload.cname == "NotifierNotFound" and not adds)
            out.append(("raise:NotifierNotFound-of-the-detach-step-is-absorbed", z3.BoolVal(absorbed_ok)))
        return out

    def covers(self, cx, ov, info):
        return [("rehooks", lambda k, p, s: k == "return" and len(s.ghost.get("walks", ())) == 2)]


# ---------------------------------------------------------------------------------------------
# list items: every removed item is detached once, every added item attached once (as multisets, duplicates
# counted), all detaches before all attaches
# ---------------------------------------------------------------------------------------------
from vc.pyvc import loops                                     # noqa: E402
from contracts.py.observe_core import bag, bag_axioms, bag_inc, ZERO, BAG     # noqa: E402


@register
class ListItemsChangeHandler(Contract):
    path = "traits/observation/_list_item_observer.py"
    qualname = "_observer_change_handler"
    properties = ("C08", "C12")
    undecided_probe = dict(harness="observe", family="reachability", trials=150)
    assumptions = ("A-PY", "add_or_remove_notifiers through the contract of _AddOrRemoveNotifier.__call__ (C09); a failing walk propagates")

    def configure(self, cx, I, ov):
        removed, added = z3.Const("event_removed", SeqV), z3.Const("event_added", SeqV)
        self.removed, self.added = removed, added

        def lst(seq):
            def h(I2, o, st, k):
                r = VRef(cx.new_oid())
                return k(r, st.put(r.oid, HObj("list", seq)))
            return h
        cx.elem_attrs["removed"] = lst(removed)
        cx.elem_attrs["added"] = lst(added)

        def repo_call(I2, fv, args, kwargs, st, k):
            if fv.name != "add_or_remove_notifiers":
                return None
            obj = as_val(I2.cx, kwargs["object"], st)
            rem = kwargs["remove"]
            key = "detached" if z3.is_true(z3.simplify(rem.t)) else "attached"
            other = "attached" if key == "detached" else "detached"
            st2 = st.gset(key, bag_inc(st.ghost[key], obj)).gset("order_ok", z3.And(st.ghost["order_ok"], (
                st.ghost["attached"] == ZERO) if key == "detached" else z3.BoolVal(True)))
            st2 = st2.gset("n_" + key, st.ghost["n_" + key] + 1)
            st2 = st2.gset("graph_ok", z3.And(st.ghost["graph_ok"], as_val(I2.cx, kwargs["graph"], st) == z3.Const("graph", Val)))
            out = k(NONE, st2)
            e = I2.cx.fresh("walk_exc", Exc)
            out.append(("raise", VExc(sym=e, origin=("walk",)), st.assume(*I2.cx.exc_axioms(e))))
            return out
        cx.repo_call_hook = repo_call

        def inv_for(seq, key):
            def inv(i, view, st):
                pre = z3.Extract(seq, 0, i)
                bag_axioms(cx, pre)
                nxt = z3.Extract(seq, 0, i + 1)
                bag_axioms(cx, nxt)
                cx.axioms.append(z3.Implies(z3.And(0 <= i, i < z3.Length(seq)), z3.And(z3.Extract(nxt, 0, i) == pre, nxt[i] == seq[i], z3.Length(nxt) == i + 1)))
                cx.axioms.append(z3.Extract(seq, 0, z3.Length(seq)) == seq)
                # the count clause is implied by the bag clause; it is stated apart because it is linear and so fails with a model
                return [("one-walk-per-item-so-far", st.ghost["n_" + key] == i),
                        ("%s-is-the-prefix-processed" % key, st.ghost[key] == bag(pre)), ("order", st.ghost["order_ok"]), ("graph", st.ghost["graph_ok"])]
            return inv
        cx.on_loop = loops.make_hook({
            0: loops.LoopSpec("for removed_item in event.removed", [], inv_for(removed, "detached"), ghost=["detached", "n_detached", "order_ok", "graph_ok"]),
            1: loops.LoopSpec("for added_item in event.added", [], inv_for(added, "attached"), ghost=["attached", "n_attached", "order_ok", "graph_ok"])})

    def setup(self, cx, I, ov):
        args = [VElem(z3.Const(n, Val)) for n in ("event", "graph", "handler", "target", "dispatcher")]
        st = St().gset("detached", ZERO).gset("attached", ZERO).gset("order_ok", z3.BoolVal(True)).gset("graph_ok", z3.BoolVal(True))
        st = st.gset("n_detached", z3.IntVal(0)).gset("n_attached", z3.IntVal(0))
        bag_axioms(cx, self.removed)
        bag_axioms(cx, self.added)
        return st, args, {}, dict(witness=dict(removed=self.removed, added=self.added))

    def post(self, cx, I, ov, info, kind, payload, st):
        if kind == "raise":
            return [("raise:only-a-failing-walk", z3.BoolVal(isinstance(payload.origin, tuple) and payload.origin[0] == "walk"))]
        return [("post:every-removed-item-detached-once", st.ghost["detached"] == bag(self.removed)),
                ("post:every-added-item-attached-once", st.ghost["attached"] == bag(self.added)),
                ("post:all-detaches-before-any-attach", st.ghost["order_ok"]),
                ("post:always-the-downstream-graph", st.ghost["graph_ok"])]

    def covers(self, cx, ov, info):
        return [("rehooks", lambda k, p, s: k == "return")]


def _item_maintainer(path_, removed_iter, added_iter, what):
    class _M(ListItemsChangeHandler):
        __doc__ = "%s: every value that left is detached once, every value that arrived attached once (multisets), all detaches first" % what
        path = path_

        def configure(self, cx, I, ov):
            ListItemsChangeHandler.configure(self, cx, I, ov)
            spec0, spec1 = loops.LoopSpec, loops.LoopSpec
            # same invariants, the loop headers of this maintainer
            hook_specs = cx.on_loop.__closure__
            removed, added = self.removed, self.added
            if ".values()" in removed_iter:
                # event.removed / event.added are mappings: the loop runs over their values
                def mapping(seq):
                    def h(I2, o, st, k):
                        def values(I3, a, kw, s, kk):
                            r = VRef(I3.cx.new_oid())
                            return kk(r, s.put(r.oid, HObj("list", seq)))
                        return k(VFunc("valueview", values=VFunc("opaque", name="values", apply=values)), st)
                    return h
                cx.elem_attrs["removed"] = mapping(removed)
                cx.elem_attrs["added"] = mapping(added)

                def getattr_hook(I2, obj, name, st, k):
                    if isinstance(obj, VFunc) and obj.kind == "valueview" and name == "values":
                        return k(obj.values, st)
                    return None
                cx.getattr_hook = getattr_hook

            def inv_for(seq, key):
                def inv(i, view, st):
                    pre = z3.Extract(seq, 0, i)
                    bag_axioms(cx, pre)
                    nxt = z3.Extract(seq, 0, i + 1)
                    bag_axioms(cx, nxt)
                    cx.axioms.append(z3.Implies(z3.And(0 <= i, i < z3.Length(seq)), z3.And(z3.Extract(nxt, 0, i) == pre, nxt[i] == seq[i], z3.Length(nxt) == i + 1)))
                    cx.axioms.append(z3.Extract(seq, 0, z3.Length(seq)) == seq)
                    return [("one-walk-per-item-so-far", st.ghost["n_" + key] == i),
                            ("%s-is-the-prefix-processed" % key, st.ghost[key] == bag(pre)), ("order", st.ghost["order_ok"]), ("graph", st.ghost["graph_ok"])]
                return inv
            cx.on_loop = loops.make_hook({
                0: loops.LoopSpec("for removed_item in %s" % removed_iter, [], inv_for(removed, "detached"), ghost=["detached", "n_detached", "order_ok", "graph_ok"]),
                1: loops.LoopSpec("for added_item in %s" % added_iter, [], inv_for(added, "attached"), ghost=["attached", "n_attached", "order_ok", "graph_ok"])})
    _M.__name__ = "Maintainer_" + what.replace(" ", "_")
    return register(_M)


_item_maintainer("traits/observation/_set_item_observer.py", "event.removed", "event.added", "set items")
_item_maintainer("traits/observation/_dict_item_observer.py", "event.removed.values()", "event.added.values()", "dict values")
