"""C03 (Python side): the validate methods of the trait types that also validate through a compiled fast validator,
proved against the SAME per-kind specification (spec/validators.py) as the compiled validator of that kind
(contracts/c/validators.py), plus the data lemma that ties a trait type's `fast_validate` descriptor to the C table entry.

Value theory (A-PROTO, stated in spec/validators.py): values are opaque objects of sort Val; `type(v)` is type_of(v);
isinstance(v, T) is the relation inst(v, T) with type(v) is T => isinstance(v, T); the conversion protocols --
operator.index(v), T(v) for the builtin types, ctraits._validate_float / _validate_complex_number (= the C functions
validate_float / validate_complex_number, used through the contract proved for them on the C side), callable(v) -- each
either return an object or raise an arbitrary exception, and are recorded, in order, as the path's conversion events."""
import ast

import z3

from vc.unit import Contract, register
from vc.pyvc.values import *  # noqa: F401,F403
from vc.pyvc.core import HObj, St, as_val, raise_
from spec import validators as S

PATH = "traits/trait_types.py"
type_of = z3.Function("type_of", Val, Val)
inst = z3.Function("isinstance", Val, Val, z3.BoolSort())
is_callable = z3.Function("callable", Val, z3.BoolSort())
TYPES = {}


def tconst(name):
    if name not in TYPES:
        TYPES[name] = z3.Const("type:" + name, Val)
    return TYPES[name]


class ErrorSummary(Contract):
    """BaseTraitHandler.error(object, name, value): always raises TraitError describing (object, name, value)."""
    path = "traits/base_trait_handler.py"
    qualname = "BaseTraitHandler.error"

    def summary(self, I, self_ref, args, kwargs, st, k):
        return raise_(st, "TraitError", origin=("self.error",) + tuple(args))


class PyValidator(Contract):
    path = PATH
    properties = ("C03", "C01")
    class_paths = (PATH, "traits/trait_type.py", "traits/base_trait_handler.py")
    kind = None                # name of the ValidateTrait member the class's fast_validate starts with
    c_function = None          # the compiled validator proved against the same spec
    type_names = ("int", "float", "complex", "str", "bytes", "bool", "numpy.bool_", "NoneType")
    assumptions = ("A-PY", "A-PROTO: the value's conversion protocols are the same on both sides (spec/validators.py)",
                   "BaseTraitHandler.error always raises TraitError (summary)",
                   "ctraits._validate_float/_validate_complex_number are the C functions validate_float/validate_complex_number (contracts proved on the C side)")

    # -- value theory -------------------------------------------------------------------------------------------------
    def ev_record(self, st, c):
        return st.gset("conv", tuple(st.ghost.get("conv", ())) + (c,))

    def protocol_call(self, I, st, what, arg_t, k, result_facts=lambda r: [], conv_type=None):
        """an opaque conversion: returns a fresh object (with result_facts) or raises a fresh symbolic exception"""
        cx = I.cx
        r = cx.fresh("conv_" + what.replace("-", "_"), Val)
        e = cx.fresh("exc", Exc)
        fails = cx.fresh("raises_" + what.replace("-", "_"), z3.BoolSort())
        ev_ok = S.Conv(what, arg_t, True, result=r)
        ev_ok.conv_type = conv_type
        ev_bad = S.Conv(what, arg_t, False, is_type_error=cx.exc_isa_sym(e, "TypeError"), is_value_error=cx.exc_isa_sym(e, "ValueError"), exc=e)
        ev_bad.conv_type = conv_type
        return cx.branch(st, fails,
                         lambda s: [("raise", VExc(sym=e, origin=("conversion", what)), self.ev_record(s.assume(*cx.exc_axioms(e)), ev_bad))],
                         lambda s: k(VElem(r), self.ev_record(s.assume(*(list(result_facts(r)) + self.facts(r))), ev_ok)))

    def configure(self, cx, I, ov):
        T = tconst
        cx.axioms.append(z3.Distinct(*[T(n) for n in self.type_names]))
        NONE_T = cx.const("None").t
        cx.axioms.append(z3.Not(is_callable(NONE_T)))          # None is not callable

        def facts(x):
            """ground instances, for one object x, of the typing facts of the builtin types named by the validators: an object
            is an instance of its type; bool is a final subclass of int; the other builtin types named here are unrelated
            (an exact instance of one is an instance of no other); None is the only instance of NoneType"""
            out = [inst(x, type_of(x)), z3.Implies(inst(x, T("bool")), z3.And(inst(x, T("int")), type_of(x) == T("bool"))),
                   (type_of(x) == T("NoneType")) == (x == NONE_T), z3.Implies(inst(x, T("NoneType")), x == NONE_T)]
            for a in ("float", "complex", "str", "bytes", "bool", "int"):
                for b in ("float", "complex", "str", "bytes", "bool", "int", "numpy.bool_"):
                    if a != b and not (a == "bool" and b == "int"):
                        out.append(z3.Implies(type_of(x) == T(a), z3.Not(inst(x, T(b)))))
            return out
        self.facts = facts

        def type_apply(I2, a, kw, st, k):
            return k(VElem(type_of(as_val(I2.cx, a[0], st))), st)
        cx.module_globals["type"] = VFunc("opaque", name="type", apply=type_apply)

        def tys(v):
            if isinstance(v, VConst) and v.name.startswith("type:"):
                return [v.t]
            if isinstance(v, VElem):
                return [v.t]
            if isinstance(v, VTuple):
                return [t for i in v.items for t in tys(i)]
            raise Unsupported("isinstance against %r" % (v,))

        def isinstance_apply(I2, a, kw, st, k):
            v = as_val(I2.cx, a[0], st)
            return k(VBool(z3.Or(*[inst(v, t) for t in tys(a[1])])), st)
        cx.module_globals["isinstance"] = VFunc("opaque", name="isinstance", apply=isinstance_apply)
        cx.module_globals["callable"] = VFunc("opaque", name="callable", apply=lambda I2, a, kw, st, k: k(VBool(is_callable(as_val(I2.cx, a[0], st))), st))
        for n in ("int", "float", "complex", "str", "bytes", "bool"):
            cx.module_globals[n] = VConst("type:" + n, T(n))
        cx.module_globals["bool_"] = VConst("type:numpy.bool_", T("numpy.bool_"))
        cx.module_globals["_BOOL_TYPES"] = VTuple((cx.module_globals["bool"], cx.module_globals["bool_"]))

        def call_hook(I2, fv, args, kwargs, st, k):
            if isinstance(fv, VConst) and fv.name.startswith("type:") and len(args) == 1 and not kwargs:
                tn = fv.name[5:]
                what = "int" if (tn == "int" and st.ghost.get("normalising")) else "call-type"
                a0 = as_val(I2.cx, args[0], st)
                # T(x) for x of exactly the (immutable builtin) type T is x itself and runs no code of x's type (CPython)
                return I2.cx.branch(st, type_of(a0) == fv.t, lambda s: k(VElem(a0), s),
                                    lambda s: self.protocol_call(I2, s, what, a0, k, result_facts=lambda r: [type_of(r) == fv.t], conv_type=tn))
            return None
        cx.call_hook = call_hook

        def index_apply(I2, a, kw, st, k):
            # operator.index(v): v.__index__() -- an int instance (not necessarily exact), or raises
            def k2(r, s):
                s2 = s.gset("normalising", True)
                return k(r, s2)
            return self.protocol_call(I2, st, "index", as_val(I2.cx, a[0], st), k2, result_facts=lambda r: [inst(r, T("int"))])

        def getattr_hook(I2, obj, name, st, k):
            if isinstance(obj, VFunc) and obj.kind == "opaque-module" and obj.name == "operator" and name == "index":
                return k(VFunc("opaque", name="operator.index", apply=index_apply), st)
            return None
        cx.getattr_hook = getattr_hook
        cx.module_globals["operator"] = VFunc("opaque-module", name="operator")

        def c_convert(what, tn):
            """ctraits.validate_float / validate_complex_number through their C contract: an object of exactly the type is
            returned as is; an instance of a subclass yields a new object of exactly the type with the same number (its C
            field is read, no protocol runs); anything else is converted once: a new object of exactly the type, or an error"""
            num = z3.Function(tn + "_val", Val, z3.Float64() if tn == "float" else Val)

            def apply(I2, a, kw, st, k):
                v = as_val(I2.cx, a[0], st)

                def sub(s):
                    r = I2.cx.fresh("exact_" + tn, Val)
                    return k(VElem(r), s.assume(type_of(r) == T(tn), num(r) == num(v), *self.facts(r)))
                return I2.cx.branch(st, type_of(v) == T(tn), lambda s: k(VElem(v), s),
                                    lambda s: I2.cx.branch(s, inst(v, T(tn)), sub,
                                                           lambda s2: self.protocol_call(I2, s2, what, v, k, result_facts=lambda r: [type_of(r) == T(tn)])))
            return VFunc("opaque", name="_validate_" + what, apply=apply)
        cx.module_globals["_validate_float"] = c_convert("float", "float")
        cx.module_globals["_validate_complex_number"] = c_convert("complex", "complex")
        cx.elem_attrs["__class__"] = lambda I2, obj, st, k: k(VElem(type_of(obj.t)), st)
        cx.contracts = dict(cx.contracts)
        cx.contracts[("BaseTraitHandler", "error")] = ErrorSummary()

    # -- the unit -----------------------------------------------------------------------------------------------------
    def fields(self, cx, ov):
        return {}

    def setup(self, cx, I, ov):
        st = St()
        self_ref = VRef(cx.new_oid())
        obj, value = z3.Consts("object value", Val)
        name = z3.String("name")
        st = st.put(self_ref.oid, HObj("obj", None, self.qualname.split(".")[0], self.fields(cx, ov)))
        st = st.assume(*(self.facts(value) + self.facts(obj)))
        return st, [self_ref, VElem(obj), VStr(name), VElem(value)], {}, dict(
            self_ref=self_ref, obj=obj, name=name, value=value,
            witness={"type(value)": type_of(value), "value is None": value == cx.const("None").t},
            concretise=lambda m: dict(harness="pyvalidators", family=self.qualname))

    def obs(self, cx, info, kind, payload, st):
        o = type("Obs", (), {})()
        o.side = "py"
        o.value = info["value"]
        o.conv = list(st.ghost.get("conv", ()))
        is_err = kind == "raise" and payload.cname == "TraitError" and payload.origin and payload.origin[0] == "self.error"
        o.accepted = z3.BoolVal(kind == "return")
        o.trait_error = z3.BoolVal(bool(is_err))
        o.propagated = z3.BoolVal(kind == "raise" and not is_err)
        o.result = as_val(cx, payload, st) if kind == "return" else info["value"]
        o.same = lambda a, b: a == b
        o.exact = lambda x, tn: type_of(x) == tconst(tn)
        o.inst = lambda x, tn: inst(x, tconst(tn))
        o.is_none = lambda x: x == cx.const("None").t
        o.callable = lambda x: is_callable(x)
        o.carries = lambda r, ev: r == ev.result
        o.same_number = lambda a, b: z3.Or(*[z3.And(inst(b, tconst(tn)), z3.Function(tn + "_val", Val, z3.Float64() if tn == "float" else Val)(a) ==
                                                   z3.Function(tn + "_val", Val, z3.Float64() if tn == "float" else Val)(b)) for tn in ("float", "complex")])
        o.equal_bool = lambda a, b: a == b
        o.conv_type_is = lambda ev, tn: z3.BoolVal(getattr(ev, "conv_type", None) == tn)
        o.error_is = lambda ev: z3.BoolVal(kind == "raise" and payload.sym is not None and ev.exc is not None and payload.sym.eq(ev.exc))
        o.error_args = None
        if is_err:
            _tag, ob, n, val = payload.origin
            o.error_args = z3.And(as_val(cx, ob, st) == info["obj"], n.t == info["name"], as_val(cx, val, st) == info["value"])
        return o

    def spec(self, o, cx, ov, info):
        raise NotImplementedError

    def post(self, cx, I, ov, info, kind, payload, st):
        o = self.obs(cx, info, kind, payload, st)
        out = [(n.replace("spec:", "post:spec:"), g) for (n, g) in self.spec(o, cx, ov, info)]
        if kind == "raise" and payload.cname == "TraitError":
            out.append(("post:rejection-names-the-object-the-attribute-and-the-offending-value", o.error_args if o.error_args is not None else z3.BoolVal(False)))
        return out

    def covers(self, cx, ov, info):
        return [("accepts", lambda k, p, s: k == "return"), ("rejects-with-TraitError", lambda k, p, s: k == "raise" and p.cname == "TraitError")]


@register
class BaseIntValidate(PyValidator):
    qualname = "BaseInt.validate"
    kind, c_function = "int", "validate_trait_integer"
    inline = ((None, "_validate_int"),)

    def spec(self, o, cx, ov, info):
        return S.spec_int(o)

    def covers(self, cx, ov, info):
        return PyValidator.covers(self, cx, ov, info) + [("propagates-the-conversion-error", lambda k, p, s: k == "raise" and p.cname is None)]


@register
class BaseFloatValidate(PyValidator):
    qualname = "BaseFloat.validate"
    kind, c_function = "float", "validate_trait_float"

    def spec(self, o, cx, ov, info):
        return S.spec_float(o)

    def covers(self, cx, ov, info):
        return PyValidator.covers(self, cx, ov, info) + [("propagates-the-conversion-error", lambda k, p, s: k == "raise" and p.cname is None)]


@register
class BaseComplexValidate(PyValidator):
    qualname = "BaseComplex.validate"
    kind, c_function = "complex_number", "validate_trait_complex_number"

    def spec(self, o, cx, ov, info):
        return S.spec_complex(o)


@register
class BaseStrValidate(PyValidator):
    qualname = "BaseStr.validate"
    kind, c_function = "coerce", "validate_trait_coerce_type"

    def spec(self, o, cx, ov, info):
        return S.spec_instance_of(o, ["str"])


@register
class BaseBytesValidate(PyValidator):
    qualname = "BaseBytes.validate"
    kind, c_function = "coerce", "validate_trait_coerce_type"

    def spec(self, o, cx, ov, info):
        return S.spec_instance_of(o, ["bytes"])


@register
class BaseBoolValidate(PyValidator):
    qualname = "BaseBool.validate"
    kind, c_function = "coerce", "validate_trait_coerce_type"

    def spec(self, o, cx, ov, info):
        return S.spec_bool(o, True)


def _cast(qual, tname, catches):
    class _C(PyValidator):
        qualname = qual
        kind, c_function = "cast", "validate_trait_cast_type"

        def spec(self, o, cx, ov, info):
            return S.spec_cast(o, tname, catches)
    _C.__name__ = qual.replace(".", "_")
    return register(_C)


for _q, _t, _c in (("BaseCInt.validate", "int", "value+type"), ("BaseCFloat.validate", "float", "value+type"),
                   ("BaseCComplex.validate", "complex", "value+type"), ("BaseCStr.validate", "str", "all"),
                   ("BaseCBytes.validate", "bytes", "all"), ("BaseCBool.validate", "bool", "all")):
    _cast(_q, _t, _c)


@register
class ThisValidate(PyValidator):
    """This / self: the C validator tests PyObject_TypeCheck(value, Py_TYPE(object)); the Python method
    isinstance(value, object.__class__)."""
    qualname = "This.validate"
    kind, c_function = "self_type", "validate_trait_self_type"

    def spec(self, o, cx, ov, info):
        o.inst = lambda x, tn: inst(x, type_of(info["obj"])) if tn == "<type(object)>" else inst(x, tconst(tn))
        return S.spec_instance_of(o, ["<type(object)>"])


@register
class ThisValidateNone(ThisValidate):
    qualname = "This.validate_none"

    def spec(self, o, cx, ov, info):
        o.inst = lambda x, tn: inst(x, type_of(info["obj"])) if tn == "<type(object)>" else inst(x, tconst(tn))
        return S.spec_instance_of(o, ["<type(object)>"], none_ok=o.is_none(o.value))


@register
class BaseCallableValidate(PyValidator):
    """Callable: the descriptor the trait type installs is (callable, allow_none); the Python method must decide alike."""
    qualname = "BaseCallable.validate"
    kind, c_function = "callable", "validate_trait_callable"

    def fields(self, cx, ov):
        self.allow_none = z3.Bool("allow_none")
        # the descriptor built by Callable.__init__ (read as data by the lemma below) and the attribute a repair may add
        return {"fast_validate": VTuple((cx.const("ValidateTrait.callable"), VBool(self.allow_none))), "allow_none": VBool(self.allow_none)}

    def spec(self, o, cx, ov, info):
        return S.spec_callable(o, self.allow_none)


# ------------------------------------------------------------------------------------------------------------------
# Range(float) / Range(int): BaseRange.float_validate against the spec shared with in_float_range /
# validate_trait_float_range (IEEE comparison); BaseRange.int_validate has no compiled counterpart (C01 only)
# ------------------------------------------------------------------------------------------------------------------
F64 = z3.Float64()
float_val = z3.Function("float_val", Val, F64)     # the same function the conversion model uses
int_val = z3.Function("int_val", Val, z3.IntSort())


class _RangeValidate(PyValidator):
    numeric = None       # 'float' | 'int'

    def configure(self, cx, I, ov):
        PyValidator.configure(self, cx, I, ov)
        num = float_val if self.numeric == "float" else int_val
        if self.numeric == "float":
            OPS = {ast.Lt: z3.fpLT, ast.LtE: z3.fpLEQ, ast.Gt: z3.fpGT, ast.GtE: z3.fpGEQ}
        else:
            OPS = {ast.Lt: lambda a, b: a < b, ast.LtE: lambda a, b: a <= b, ast.Gt: lambda a, b: a > b, ast.GtE: lambda a, b: a >= b}

        def compare_hook(I2, op, a, b, st, k):
            # comparison of two objects of exactly the numeric type: the builtin ordering, no code of the value's type runs
            if type(op) in OPS and isinstance(a, (VElem, VConst)) and isinstance(b, (VElem, VConst)):
                return k(VBool(OPS[type(op)](num(a.t), num(b.t))), st)
            return None
        cx.compare_hook = compare_hook

    def fields(self, cx, ov):
        NONE_T = cx.const("None").t
        self.low, self.high = z3.Const("low", Val), z3.Const("high", Val)
        self.exl, self.exh = z3.Bool("exclude_low"), z3.Bool("exclude_high")
        return {"_low": VElem(self.low), "_high": VElem(self.high), "_exclude_low": VBool(self.exl), "_exclude_high": VBool(self.exh)}

    def setup(self, cx, I, ov):
        st, args, kw, info = PyValidator.setup(self, cx, I, ov)
        NONE_T = cx.const("None").t
        T = tconst(self.numeric)
        # wf of a static range (BaseRange.__init__ converts both bounds to the range's type): a bound is None or exactly of the type
        st = st.assume(z3.Or(self.low == NONE_T, type_of(self.low) == T), z3.Or(self.high == NONE_T, type_of(self.high) == T),
                       *(self.facts(self.low) + self.facts(self.high)))
        info["witness"].update({"low": self.low, "high": self.high, "exclude_low": self.exl, "exclude_high": self.exh})
        return st, args, kw, info

    def spec(self, o, cx, ov, info):
        NONE_T = cx.const("None").t
        conv = S.spec_float(o) if self.numeric == "float" else S.spec_int(o)
        # the conversion clauses that speak of acceptance are conditional on the range test: keep the protocol clauses only
        keep = [c for c in conv if not any(t in c[0] for t in ("stored-as-is", "accepted-with", "no-rejection-without", "subclass-instance"))]
        num = float_val if self.numeric == "float" else int_val
        if self.numeric == "float":
            inr = lambda v: S.in_float_range(num(v), self.low == NONE_T, num(self.low), self.exl, self.high == NONE_T, num(self.high), self.exh)
        else:
            inr = lambda v: z3.And(z3.Or(self.low == NONE_T, z3.If(self.exl, num(self.low) < num(v), num(self.low) <= num(v))),
                                   z3.Or(self.high == NONE_T, z3.If(self.exh, num(self.high) > num(v), num(self.high) >= num(v))))
        converted_ok = bool(o.conv) and all(c.ok for c in o.conv)
        exact = o.exact(o.value, self.numeric)
        out = keep + [
            ("spec:result-lies-in-the-declared-range", z3.Implies(o.accepted, inr(o.result)), {"result": num(o.result)}),
            ("spec:exact-%s-accepted-iff-in-range-and-stored-as-is" % self.numeric, z3.Implies(exact, z3.And(o.accepted == inr(o.value), z3.Implies(o.accepted, o.same(o.result, o.value)))), {"value": num(o.value)}),
            ("spec:out-of-range-is-TraitError", z3.Implies(z3.And(z3.Not(o.accepted), z3.BoolVal(not S._failed(o))), o.trait_error))]
        if self.numeric == "float":
            sub = z3.And(o.inst(o.value, "float"), z3.Not(exact))
            out.append(("spec:subclass-instance-accepted-iff-its-number-is-in-range-and-replaced-by-an-exact-float", z3.Implies(sub, z3.And(
                z3.BoolVal(not o.conv), o.accepted == inr(o.value), z3.Implies(o.accepted, o.same_number(o.result, o.value))))))
        if converted_ok:
            out.append(("spec:a-converted-value-is-accepted-iff-the-converted-number-is-in-range", z3.Implies(z3.Not(exact), z3.And(
                o.accepted == inr(o.conv[-1].result), z3.Implies(o.accepted, o.carries(o.result, o.conv[-1]))))))
        return out

    def post(self, cx, I, ov, info, kind, payload, st):
        o = self.obs(cx, info, kind, payload, st)
        out = []
        for cl in self.spec(o, cx, ov, info):
            out.append((cl[0].replace("spec:", "post:spec:"),) + tuple(cl[1:]))
        if kind == "raise" and payload.cname == "TraitError":
            out.append(("post:rejection-names-the-object-the-attribute-and-the-offending-value", o.error_args if o.error_args is not None else z3.BoolVal(False)))
        return out


@register
class FloatRangeValidate(_RangeValidate):
    qualname = "BaseRange.float_validate"
    kind, c_function = "float_range", "validate_trait_float_range"
    numeric = "float"


@register
class IntRangeValidate(_RangeValidate):
    qualname = "BaseRange.int_validate"
    properties = ("C01",)
    kind, c_function = None, None
    numeric = "int"
    inline = ((None, "_validate_int"),)


@register
class MapValidate(PyValidator):
    """Map.validate: accepts exactly the keys of the map (a membership test that does not raise TypeError), returns the value
    itself, anything else is a TraitError -- the clauses of validate_trait_map on the C side (a dictionary lookup that fails or
    raises rejects).  Which dictionary: see MapInit below."""
    qualname = "Map.validate"
    kind = "map"
    c_function = "validate_trait_map"
    assumptions = PyValidator.assumptions + ("`value in self.map` is the dictionary's lookup: found / not found / TypeError (unhashable value); other exceptions of a key's __eq__/__hash__ propagate on both sides",)

    def configure(self, cx, I, ov):
        PyValidator.configure(self, cx, I, ov)
        self.found, self.unhashable = z3.Bool("value_is_a_key"), z3.Bool("lookup_raises_TypeError")

        def contains_hook(I2, cont, item, st, k):
            if isinstance(cont, VElem) and cont.t.eq(self.map):
                st = st.gset("lookups", st.ghost.get("lookups", 0) + 1)
                return I2.cx.branch(st, self.unhashable, lambda s: raise_(s, "TypeError", origin=("unhashable",)), lambda s: k(VBool(self.found), s))
            return None
        cx.contains_hook = contains_hook

    def fields(self, cx, ov):
        self.map = z3.Const("the_map", Val)
        return {"map": VElem(self.map)}

    def spec(self, o, cx, ov, info):
        ok = z3.And(z3.Not(self.unhashable), self.found)
        return [("spec:accepts-iff-key-of-the-map", o.accepted == ok),
                ("spec:stores-the-value-itself", z3.Implies(o.accepted, o.same(o.result, o.value))),
                ("spec:rejection-is-TraitError", z3.Implies(z3.Not(o.accepted), o.trait_error))]

    def post(self, cx, I, ov, info, kind, payload, st):
        return PyValidator.post(self, cx, I, ov, info, kind, payload, st) + [
            ("post:exactly-one-lookup-in-the-map", z3.BoolVal(st.ghost.get("lookups", 0) == 1))]


@register
class BaseEnumValidate(PyValidator):
    """BaseEnum.validate (static enumeration): accepts exactly the members of self.values (one membership test), returns the
    value itself, TraitError otherwise -- the clauses of validate_trait_enum on the C side."""
    qualname = "BaseEnum.validate"
    kind = "enum"
    c_function = "validate_trait_enum"
    assumptions = PyValidator.assumptions + ("`value in self.values` is the tuple's membership test: member / not a member; an exception of an element's __eq__ propagates on both sides and is not modelled",)

    def configure(self, cx, I, ov):
        PyValidator.configure(self, cx, I, ov)
        self.member = z3.Bool("value_is_a_member")

        def contains_hook(I2, cont, item, st, k):
            if isinstance(cont, VElem) and cont.t.eq(self.values):
                return k(VBool(self.member), st.gset("lookups", st.ghost.get("lookups", 0) + 1))
            return None
        cx.contains_hook = contains_hook

    def fields(self, cx, ov):
        self.values = z3.Const("the_values", Val)
        return {"values": VElem(self.values), "name": cx.const("None")}

    def spec(self, o, cx, ov, info):
        return [("spec:accepts-iff-member-of-the-enumeration", o.accepted == self.member),
                ("spec:stores-the-value-itself", z3.Implies(o.accepted, o.same(o.result, o.value))),
                ("spec:rejection-is-TraitError", z3.Implies(z3.Not(o.accepted), o.trait_error))]

    def post(self, cx, I, ov, info, kind, payload, st):
        return PyValidator.post(self, cx, I, ov, info, kind, payload, st) + [
            ("post:exactly-one-membership-test", z3.BoolVal(st.ghost.get("lookups", 0) == 1))]


@register
class TupleValidate(PyValidator):
    """Tuple.validate (typed members; bounded shape: two members): a tuple of the right length is accepted iff every member
    trait accepts its item -- items validated in order, validation stops at the first failure -- and the result is the tuple of
    the validated items; a TraitError of a member rejects the whole value with TraitError; any other exception of a member
    passes through; anything that is not a tuple of that length is rejected (the clauses of validate_trait_tuple)."""
    qualname = "Tuple.validate"
    kind = "tuple"
    c_function = "validate_trait_tuple"
    overloads = ("right-length", "wrong-length", "not-a-tuple")
    assumptions = PyValidator.assumptions + ("bounded shape: two member traits; a member's validate returns a value, raises TraitError or raises something else",)

    def configure(self, cx, I, ov):
        PyValidator.configure(self, cx, I, ov)
        self.out = [z3.Int("member_%d_outcome" % i) for i in range(2)]          # 0 accepts, 1 TraitError, 2 other exception
        self.items = [z3.Const("item_%d" % i, Val) for i in range(2)]
        self.validated = [z3.Const("validated_item_%d" % i, Val) for i in range(2)]
        self.members = [z3.Const("member_trait_%d" % i, Val) for i in range(2)]

        def validate_attr(I2, o, st, k):
            idx = [i for i, m in enumerate(self.members) if o.t.eq(m)]
            if not idx:
                return None
            i = idx[0]

            def apply(I3, a, kw, s, kk):
                s = s.gset("member_calls", tuple(s.ghost.get("member_calls", ())) + ((i, tuple(a)),))
                e = cx.fresh("member_exc", Exc)
                return I3.cx.branch(s, self.out[i] == 0, lambda s1: kk(VElem(self.validated[i]), s1), lambda s1: I3.cx.branch(
                    s1, self.out[i] == 1, lambda s2: raise_(s2, "TraitError", origin=("member", i)),
                    lambda s2: [("raise", VExc(sym=e, origin=("member-other", i)), s2.assume(*cx.exc_axioms(e), z3.Not(cx.exc_isa_sym(e, "TraitError"))))]))
            return k(VFunc("opaque", name="member.validate", apply=apply), st)
        cx.elem_attrs["validate"] = validate_attr

    def fields(self, cx, ov):
        return {"no_type_check": VBool(z3.BoolVal(False)), "types": VTuple([VElem(m) for m in self.members])}

    def setup(self, cx, I, ov):
        st, args, kw, info = PyValidator.setup(self, cx, I, ov)
        st = st.assume(*[z3.And(0 <= o, o <= 2) for o in self.out])
        if ov == "right-length":
            args[3] = VTuple([VElem(x) for x in self.items])
        elif ov == "wrong-length":
            args[3] = VTuple([VElem(self.items[0])])
        # isinstance(value, tuple): true exactly for the tuple overloads (the value is then a known tuple of symbolic items)
        cx.module_globals["isinstance"] = VFunc("opaque", name="isinstance", apply=lambda I2, a, kw2, s, k: k(VBool(z3.BoolVal(isinstance(a[0], VTuple))), s))
        info["witness"].update({"outcome0": self.out[0], "outcome1": self.out[1]})
        info["concretise"] = lambda m: None
        return st, args, kw, info

    def post(self, cx, I, ov, info, kind, payload, st):
        calls = st.ghost.get("member_calls", ())
        is_err = kind == "raise" and payload.cname == "TraitError" and payload.origin and payload.origin[0] == "self.error"
        if ov != "right-length":
            return [("post:not-a-tuple-of-the-declared-length-is-rejected-with-TraitError", z3.BoolVal(bool(is_err))),
                    ("post:no-member-is-asked", z3.BoolVal(len(calls) == 0))]
        o0, o1 = self.out
        out = [("post:members-asked-in-order-each-with-its-own-item-stopping-at-the-first-failure",
                z3.And(z3.BoolVal([c[0] for c in calls] == list(range(len(calls)))), z3.If(o0 == 0, 2, 1) == len(calls),
                       *[as_val(cx, c[1][2], st) == self.items[c[0]] for c in calls if len(c[1]) == 3]))]
        if kind == "return":
            r = payload.items if isinstance(payload, VTuple) else None
            good = r is not None and len(r) == 2
            out.append(("post:accepted-iff-both-members-accept", z3.And(o0 == 0, o1 == 0)))
            out.append(("post:the-result-is-the-tuple-of-the-validated-items", z3.And(*[as_val(cx, r[i], st) == self.validated[i] for i in range(2)]) if good else z3.BoolVal(False)))
        elif is_err:
            out.append(("post:TraitError-exactly-when-the-first-failing-member-raised-TraitError", z3.Or(o0 == 1, z3.And(o0 == 0, o1 == 1))))
            out.append(("post:rejection-names-the-object-the-attribute-and-the-offending-value", z3.BoolVal(True)))
        else:
            out.append(("post:another-exception-is-the-member's-own-passed-through", z3.And(z3.BoolVal(bool(payload.origin and payload.origin[0] == "member-other")), z3.Or(o0 == 2, z3.And(o0 == 0, o1 == 2)))))
        return out

    def covers(self, cx, ov, info):
        if ov == "right-length":
            return [("accepts", lambda k, p, s: k == "return"), ("rejects-with-TraitError", lambda k, p, s: k == "raise" and p.cname == "TraitError")]
        return [("rejects-with-TraitError", lambda k, p, s: k == "raise" and p.cname == "TraitError")]


@register
class MapInit(Contract):
    """Map.__init__ -- WHICH dictionary each side consults.  The compiled validator looks the value up in the dictionary of the
    fast_validate descriptor, the Python validate in self.map: the two agree for every history (the application may keep a
    reference to the dictionary and change it later) only if they are THE SAME OBJECT -- the one the caller handed in.
    CUT POINT: the statements of __init__ before the default value is worked out."""
    path = PATH
    qualname = "Map.__init__"
    properties = ("C03",)
    class_paths = (PATH,)
    assumptions = ("A-PY", "cut point: the leading assignments of Map.__init__ (default-value selection and TraitType.__init__ are not under contract)",
                   "ValidateTrait.map is the enum member linked to validate_trait_map by the fast_validate data lemma")
    undecided_probe = dict(harness="pyvalidators", family="Map.__init__")

    @property
    def cid(self):
        return "%s:%s<descriptor cut point>" % (self.path, self.qualname)

    def segment(self, fn):
        body = [s for s in fn.body if not (isinstance(s, ast.Expr) and isinstance(s.value, ast.Constant))]
        head = []
        for s_ in body:
            if not isinstance(s_, (ast.Assign, ast.AnnAssign, ast.Expr)):
                break
            head.append(s_)
        if not head:
            raise Unsupported("Map.__init__ no longer starts with its attribute assignments")
        return head

    def configure(self, cx, I, ov):
        self.map = z3.Const("map_argument", Val)
        cx.module_globals["ValidateTrait"] = VElem(z3.Const("ValidateTrait", Val))
        cx.elem_attrs["map"] = lambda I2, o, st, k: k(cx.const("ValidateTrait.map"), st)

    def segment_env(self, cx, I, ov):
        st = St()
        self.self_ref = VRef(cx.new_oid())
        st = st.put(self.self_ref.oid, HObj("obj", None, "Map", {}))
        return st, {"self": self.self_ref, "map": VElem(self.map), "metadata": VElem(z3.Const("metadata", Val))}, dict(
            witness={}, concretise=lambda m: dict(harness="pyvalidators", family="Map.__init__"))

    def post(self, cx, I, ov, info, kind, payload, st):
        if kind == "raise":
            return [("exc-free", z3.BoolVal(False))]
        f = st.heap[self.self_ref.oid].fields
        m, fv = f.get("map"), f.get("fast_validate")
        same_m = isinstance(m, VElem) and m.t.eq(self.map)
        items = None
        if isinstance(fv, VRef) and st.heap[fv.oid].kind == "tuple":
            items = st.heap[fv.oid].payload
        elif isinstance(fv, VTuple):
            items = fv.items
        ok_fv = isinstance(items, (list, tuple)) and len(items) == 2 and isinstance(items[0], VConst) and items[0].name == "ValidateTrait.map" \
            and isinstance(items[1], VElem) and items[1].t.eq(self.map)
        return [("post:self.map-is-the-dictionary-handed-in-(not-a-copy)", z3.BoolVal(bool(same_m))),
                ("post:the-compiled-validator-is-given-that-same-dictionary", z3.BoolVal(bool(ok_fv)))]

    def covers(self, cx, ov, info):
        return [("assigns", lambda k, p, s: True)]


# ------------------------------------------------------------------------------------------------------------------
# the data lemma: the descriptor a trait type hands to the compiled core selects the compiled validator that was proved
# against the same specification as the type's Python validate method
# ------------------------------------------------------------------------------------------------------------------
@register
class FastValidateLink(Contract):
    """For every class of traits/trait_types.py that sets a `fast_validate` descriptor: its first item is a member of
    ValidateTrait (traits/constants.py) whose number selects, in the validate_handlers table of ctraits.c (read from the
    clang AST on this run), the compiled validator that the contract of the class's Python validate method names as its
    counterpart -- and the type named by a coerce / cast descriptor is the type the Python method tests / calls."""
    lang = "data"
    path = PATH
    qualname = "<module>.fast_validate descriptors"
    properties = ("C03",)
    assumptions = ("the ValidateTrait enum, the class attributes and the C table are read from the sources on every run",)

    def data_obligations(self, ov):
        import hashlib
        from vc.pyvc import source
        from vc.cvc import front
        from vc.solve import Obligation
        from vc.unit import BY_ID
        src, tree, funcs, classes = source.index_module(PATH)
        csrc, ctree, _f, cclasses = source.index_module("traits/constants.py")
        kinds = {}
        for n in ast.walk(ctree):
            if isinstance(n, ast.ClassDef) and n.name == "ValidateTrait":
                for b in n.body:
                    if isinstance(b, ast.Assign) and isinstance(b.value, ast.Constant) and isinstance(b.value.value, int):
                        kinds[b.targets[0].id] = b.value.value
        table = front.table("validate_handlers")
        cls_nodes = {n.name: n for n in tree.body if isinstance(n, ast.ClassDef)}
        module_assigns = {}
        for n in ast.walk(tree):
            if isinstance(n, ast.Assign) and len(n.targets) == 1 and isinstance(n.targets[0], ast.Name):
                module_assigns.setdefault(n.targets[0].id, []).append(n.value)

        def find(cls, name):
            n = cls_nodes.get(cls)
            if n is None:
                return None
            for b in n.body:
                if isinstance(b, ast.FunctionDef) and b.name == name:
                    return cls
            for bb in n.bases:
                if isinstance(bb, ast.Name):
                    r = find(bb.id, name)
                    if r:
                        return r
            return None
        by_method = {c.qualname: c for c in BY_ID.values() if isinstance(c, PyValidator)}
        obs = []
        name0 = "%s[%s]" % (self.cid, ov)

        def ob(clause, ok, detail):
            obs.append(Obligation("%s/lemma:%s" % (name0, clause), [], z3.BoolVal(bool(ok)), kind="lemma", props=self.properties,
                                  witness={"detail": detail}))
        seen = 0
        for cname, node in cls_nodes.items():
            descs = []
            for b in ast.walk(node):
                if isinstance(b, ast.Assign) and any((isinstance(t, ast.Name) and t.id == "fast_validate" and b in node.body) or
                                                     (isinstance(t, ast.Attribute) and t.attr == "fast_validate" and isinstance(t.value, ast.Name) and t.value.id == "self")
                                                     for t in b.targets):
                    descs.append(b.value)
            for d in descs:
                vals = [d]
                if isinstance(d, ast.Name) and d.id in module_assigns:
                    vals = module_assigns[d.id]            # e.g. bool_fast_validate: every definition must agree
                for v in vals:
                    if not (isinstance(v, ast.Tuple) and v.elts and isinstance(v.elts[0], ast.Attribute) and isinstance(v.elts[0].value, ast.Name)
                            and v.elts[0].value.id == "ValidateTrait"):
                        continue            # descriptors computed at run time (Range, Enum, Tuple, Instance: args / tuple(...))
                    kname = v.elts[0].attr
                    owner = find(cname, "validate")
                    meth = "%s.validate" % owner if owner else None
                    contract = by_method.get(meth)
                    if contract is None:
                        continue            # no Python validate under contract for this class (listed in DESIGN as not covered)
                    seen += 1
                    k = kinds.get(kname)
                    tag = "%s.fast_validate=%s" % (cname, ast.unparse(v))
                    ob("%s:descriptor-kind-is-the-kind-of-the-Python-contract" % cname, kname == contract.kind, tag)
                    ob("%s:kind-selects-the-compiled-validator-proved-against-the-same-spec" % cname,
                       k is not None and 0 <= k < len(table) and table[k] == contract.c_function, "%s -> %r -> %r" % (tag, k, table[k] if k is not None and k < len(table) else None))
                    if kname in ("coerce", "cast") and len(v.elts) >= 2:
                        tn = ast.unparse(v.elts[1])
                        meth_node = next(b for b in cls_nodes[owner].body if isinstance(b, ast.FunctionDef) and b.name == "validate")
                        names = {n.id for n in ast.walk(meth_node) if isinstance(n, ast.Name)}
                        ob("%s:type-of-the-descriptor-is-the-type-the-Python-method-uses" % cname,
                           tn in names or (tn == "bool" and "_BOOL_TYPES" in names), "%s; names used by %s: %s" % (tag, meth, sorted(names)))
        ob("some-descriptor-linked", seen >= 12, "%d descriptors linked" % seen)
        sha = hashlib.sha256((src + csrc).encode()).hexdigest()
        cx = type("DataCx", (), dict(axioms=[], hints=[], notes=[], distinct_consts_axiom=lambda self: []))()
        return cx, obs, dict(sha=sha, paths=1, lines=(1, None))


# ------------------------------------------------------------------------------------------------------------------
# PrefixList (Python-only validation: no fast_validate descriptor): prefix uniqueness
# ------------------------------------------------------------------------------------------------------------------
class _PrefixList(Contract):
    path = PATH
    properties = ("C01",)
    class_paths = (PATH, "traits/trait_type.py", "traits/base_trait_handler.py")
    overloads = ("three-values",)
    assumptions = ("A-PY", "bounded shape: a value list of three (symbolic, arbitrary) strings; z3 strings",
                   "representation invariant from __init__: _values_as_set holds exactly the members of values",
                   "BaseTraitHandler.error always raises TraitError (summary)")
    undecided_probe = dict(harness="pyvalidators", family="prefix_list")

    def configure(self, cx, I, ov):
        self.vals = [z3.String("legal_value_%d" % i) for i in range(3)]
        self.value = z3.String("value")
        cx.contracts = dict(cx.contracts)
        cx.contracts[("BaseTraitHandler", "error")] = ErrorSummary()

    def self_ref(self, cx, st):
        ref = VRef(cx.new_oid())
        tup = VTuple([VStr(v) for v in self.vals])
        st = st.put(ref.oid, HObj("obj", None, "PrefixList", {"values": tup, "_values_as_set": tup}))
        return ref, st

    def expected(self):
        """(accepted, result): member -> itself; else the unique legal value it is a prefix of"""
        v = self.value
        member = z3.Or(*[v == x for x in self.vals])
        pre = [z3.PrefixOf(v, x) for x in self.vals]
        count = z3.Sum(*[z3.If(p, 1, 0) for p in pre])
        unique = count == 1
        completion = z3.If(pre[0], self.vals[0], z3.If(pre[1], self.vals[1], self.vals[2]))
        return z3.Or(member, unique), z3.If(member, v, completion)


@register
class PrefixListComplete(_PrefixList):
    """PrefixList._complete_value: a member is returned as it is; otherwise the UNIQUE member of THIS trait's values that the
    value is a prefix of; otherwise (no member, or several) ValueError.  Nothing but this trait's own values decides."""
    qualname = "PrefixList._complete_value"

    def setup(self, cx, I, ov):
        ref, st = self.self_ref(cx, St())
        return st, [ref, VStr(self.value)], {}, dict(witness={"value": self.value, "values": z3.Concat(self.vals[0], z3.StringVal("|"), self.vals[1], z3.StringVal("|"), self.vals[2])},
                                                      concretise=lambda m: dict(harness="pyvalidators", family="prefix_list"))

    def post(self, cx, I, ov, info, kind, payload, st):
        acc, res = self.expected()
        if kind == "raise":
            return [("raise:only-ValueError-and-only-for-no-or-several-completions", z3.And(z3.BoolVal(payload.cname == "ValueError"), z3.Not(acc)))]
        r = as_val(cx, payload, st)
        return [("post:returns-only-when-a-member-or-a-unique-completion-exists", acc),
                ("post:the-result-is-the-member-itself-or-the-unique-completion-among-THIS-trait's-values", r == cx.box_str(res))]

    def covers(self, cx, ov, info):
        return [("completes", lambda k, p, s: k == "return"), ("refuses", lambda k, p, s: k == "raise")]


@register
class PrefixListValidate(_PrefixList):
    """PrefixList.validate: a str is completed (see _complete_value) or rejected with TraitError; anything else is rejected."""
    qualname = "PrefixList.validate"
    overloads = ("str-value", "other-value")
    inline = ("PrefixList._complete_value",)

    def setup(self, cx, I, ov):
        ref, st = self.self_ref(cx, St())
        obj = z3.Const("object", Val)
        other = z3.Const("non_string_value", Val)
        if ov == "other-value":
            cx.module_globals["isinstance"] = VFunc("opaque", name="isinstance", apply=lambda I2, a, kw, s, k: k(VBool(z3.BoolVal(False)), s))
        value = VStr(self.value) if ov == "str-value" else VElem(other)
        return st, [ref, VElem(obj), VStr(z3.String("name")), value], {}, dict(witness={"value": self.value}, concretise=lambda m: dict(harness="pyvalidators", family="prefix_list"))

    def post(self, cx, I, ov, info, kind, payload, st):
        acc, res = self.expected()
        if ov == "other-value":
            return [("post:a-non-string-is-rejected-with-TraitError", z3.BoolVal(kind == "raise" and payload.cname == "TraitError"))]
        if kind == "raise":
            return [("raise:TraitError-exactly-for-no-or-several-completions", z3.And(z3.BoolVal(payload.cname == "TraitError"), z3.Not(acc)))]
        r = as_val(cx, payload, st)
        return [("post:accepted-only-when-a-member-or-a-unique-completion-exists", acc),
                ("post:stores-the-member-itself-or-the-unique-completion-among-THIS-trait's-values", r == cx.box_str(res))]

    def covers(self, cx, ov, info):
        if ov == "other-value":
            return [("rejects", lambda k, p, s: k == "raise")]
        return [("accepts", lambda k, p, s: k == "return"), ("rejects", lambda k, p, s: k == "raise")]
