"""C13 (Python side): HasTraits.__prefix_trait__ -- 'else the wildcard trait with the longest matching prefix'.

The class's prefix table prefix_traits['*'] is a list of prefixes sorted by length, longest first (table invariant,
established by update_traits_class_dict / _add_class_trait: assumed here), so the first prefix of the list that is a
prefix of the name is the longest one.  Proved by loop invariant for any table length and any name: the trait returned
is (a clone of) the trait registered for the longest prefix p with name.startswith(p) -- in particular for name == p."""
import z3

from vc.unit import Contract, register
from vc.pyvc.values import *  # noqa: F401,F403
from vc.pyvc.core import HObj, St, as_val, raise_
from vc.pyvc import loops

PATH = "traits/has_traits.py"
unbox = z3.Function("unbox_str", Val, z3.StringSort())
origin = z3.Function("origin_trait", Val, Val)          # the trait a (possibly cloned) result stands for


@register
class PrefixTrait(Contract):
    path = PATH
    qualname = "HasTraits.__prefix_trait__"
    properties = ("C13",)
    class_paths = (PATH,)
    overloads = ("ordinary-name",)
    assumptions = ("A-PY", "z3/cvc5 strings", "prefix table sorted by length, longest first, every entry registered in the table dict",
                   "_clone_trait(t) is a trait with the same definition as t; handler lookup helpers are opaque")

    def configure(self, cx, I, ov):
        PL = z3.Const("prefix_list", SeqV)
        PT = z3.Const("prefix_traits", MapV)
        self.PL, self.PT = PL, PT
        name = z3.String("name")
        self.name = name
        cx.const("None")

        def repo_call(I2, fv, args, kwargs, st, k):
            if fv.name == "_get_method":
                m = I2.cx.fresh("method", Val)
                return I2.cx.branch(st, z3.Bool("has_static_handler_%d" % len(st.ghost.get("gm", ()))),
                                    lambda s: k(VElem(m), s.assume(m != I2.cx.const("None").t).gset("gm", s.ghost.get("gm", ()) + (1,))),
                                    lambda s: k(NONE, s.gset("gm", s.ghost.get("gm", ()) + (0,))))
            if fv.name == "_add_event_handlers" or fv.name == "_add_notifiers":
                return k(NONE, st)
            if fv.name == "_clone_trait":
                t = as_val(I2.cx, args[0], st)
                c = I2.cx.fresh("clone", Val)
                return k(VElem(c), st.assume(origin(c) == origin(t), c != I2.cx.const("None").t))
            return None
        cx.repo_call_hook = repo_call
        cx.elem_attrs["_notifiers"] = lambda I2, o, st, k: k(VFunc("opaque", name="_notifiers", apply=lambda I3, a, kw, s, kk: kk(VElem(I3.cx.fresh("nl", Val)), s)), st)

        def inv(i, view, st):
            j = z3.Int("j!pt")
            # hint (a theorem of strings, instantiated at the current table entry): p == name[:len(p)]  <=>  p is a prefix of name
            p_ = unbox(PL[i])
            cx.axioms.append((p_ == z3.SubString(name, 0, z3.Length(p_))) == z3.PrefixOf(p_, name))
            cx.hints.append("string lemma: p == name[:len(p)] <=> PrefixOf(p, name), at the loop index")
            return [("no-earlier-prefix-matches", z3.ForAll([j], z3.Implies(z3.And(0 <= j, j < i), z3.Not(z3.PrefixOf(unbox(PL[j]), name)))))]
        cx.on_loop = loops.make_hook({0: loops.LoopSpec("for prefix in prefix_traits['*']", [], inv)})

        def unpack_elem_as_str(I2, obj, name_, st, k):
            return None
        # the loop variable is an element of the prefix list: a boxed string
        orig_assign = I.assign

        def assign(tgt, v, st, k):
            import ast
            if isinstance(tgt, ast.Name) and tgt.id == "prefix" and isinstance(v, VElem):
                v = VStr(unbox(v.t))
            return orig_assign(tgt, v, st, k)
        I.assign = assign

    def setup(self, cx, I, ov):
        PL, PT, name = self.PL, self.PT, self.name
        st = St()
        plist, ptab, klass, self_ref = [VRef(cx.new_oid()) for _ in range(4)]
        st = st.put(plist.oid, HObj("list", PL)).put(ptab.oid, HObj("dict", PT))
        st = st.put(klass.oid, HObj("obj", None, "opaque_class", {"__name__": VStr(z3.String("class_name"))}))
        st = st.put(self_ref.oid, HObj("obj", None, "HasTraits", {"__prefix_traits__": ptab, "__class__": klass}))
        j, j2 = z3.Ints("j!pre j2!pre")
        n = z3.Length(PL)
        star = cx.box_str(z3.StringVal("*"))
        st = st.assume(
            PT[star] == Opt.some(cx.ref_val(plist)),
            # table invariant: sorted by length, longest first; every listed prefix has a (non-None) trait registered; round trip
            z3.ForAll([j, j2], z3.Implies(z3.And(0 <= j, j < j2, j2 < n), z3.Length(unbox(PL[j])) >= z3.Length(unbox(PL[j2])))),
            z3.ForAll([j], z3.Implies(z3.And(0 <= j, j < n), z3.And(PT[PL[j]] != Opt.none, Opt.get(PT[PL[j]]) != cx.const("None").t,
                                                                    cx.box_str(unbox(PL[j])) == PL[j], unbox(PL[j]) != z3.StringVal("*"),
                                                                    unbox(PL[j]) != z3.StringVal("@")))),
            # ... and the empty prefix (the class default) is always listed
            z3.Exists([j], z3.And(0 <= j, j < n, unbox(PL[j]) == z3.StringVal(""))),
            # an ordinary name: not a dunder, not ending with an underscore (mapped-shadow branch), at least one character
            z3.Length(name) >= 1, z3.Not(z3.SuffixOf(z3.StringVal("_"), name)),
            z3.Not(z3.And(z3.PrefixOf(z3.StringVal("__"), name), z3.SuffixOf(z3.StringVal("__"), name))))
        return st, [self_ref, VStr(name), VInt(z3.Int("is_set"))], {}, dict(witness=dict(name=name, prefix_list=PL))

    def post(self, cx, I, ov, info, kind, payload, st):
        PL, PT, name = self.PL, self.PT, self.name
        n = z3.Length(PL)
        j = z3.Int("j!post")
        some_match = z3.Exists([j], z3.And(0 <= j, j < n, z3.PrefixOf(unbox(PL[j]), name)))
        if kind == "raise":
            return [("exc-free", z3.BoolVal(False), dict(exception="%s %r" % (payload.cname or payload.sym, payload.origin)))]
        if isinstance(payload, VNone):
            return [("post:no-trait-only-when-no-prefix-matches", z3.Not(some_match))]
        r = as_val(cx, payload, st)
        i = st.ghost.get("__loop_index__")          # the table position at which the function returned (witness)
        if i is None:
            return [("post:returns-from-the-table-search", z3.BoolVal(False))]
        # the winner: a matching prefix such that no matching prefix is longer, and the result stands for its trait
        return [("post:governed-by-a-matching-prefix", z3.And(0 <= i, i < n, z3.PrefixOf(unbox(PL[i]), name))),
                ("post:result-is-the-trait-registered-for-that-prefix", origin(r) == origin(Opt.get(PT[PL[i]]))),
                ("post:no-matching-prefix-is-longer", z3.ForAll([j], z3.Implies(
                    z3.And(0 <= j, j < n, z3.PrefixOf(unbox(PL[j]), name)), z3.Length(unbox(PL[j])) <= z3.Length(unbox(PL[i])))))]

    def covers(self, cx, ov, info):
        return [("resolves", lambda k, p, s: k == "return" and not isinstance(p, VNone))]


# ------------------------------------------------------------------------------------------------------------------
# the table __prefix_trait__ scans: sorted longest prefix first WHEN THE CLASS IS FINISHED
# ------------------------------------------------------------------------------------------------------------------
@register
class PrefixTableSortedLast(Contract):
    """'else the wildcard trait with the longest matching prefix': HasTraits.__prefix_trait__ (contract above) returns the trait
    of the FIRST matching entry of prefix_traits['*'], which is the longest match only if that list is sorted by decreasing
    length.  The list is filled in several places of update_traits_class_dict (own wildcards, every base class's list, the ""
    catch-all) and, for add_class_trait, in _add_class_trait.  Ordering lemma, decided on the AST of the real functions on every
    run: in each of the two functions the LAST modification of the list, at the function's top level (or, for
    _add_class_trait, in the same block as the append), is `.sort(key=len, reverse=True)` -- nothing is added afterwards, and the
    list stored under '*' is that very list object.  (list.sort(key=len, reverse=True) orders by decreasing length: A-BUILTIN.)"""
    lang = "data"
    path = "traits/has_traits.py"
    qualname = "<prefix table ordering in update_traits_class_dict / _add_class_trait>"
    properties = ("C13",)
    assumptions = ("A-BUILTIN: list.sort(key=len, reverse=True) sorts by decreasing length", "syntactic analysis of the two functions' ASTs")

    def data_obligations(self, ov):
        import ast
        import hashlib
        from vc.pyvc import source
        from vc.solve import Obligation
        src, tree, funcs, classes = source.index_module(self.path)
        obs = []
        name0 = "%s[%s]" % (self.cid, ov)

        def ob(clause, ok, detail):
            obs.append(Obligation("%s/lemma:%s" % (name0, clause), [], z3.BoolVal(bool(ok)), kind="lemma", props=self.properties, witness={"detail": detail},
                                  concretise=lambda m: dict(harness="hastraits", family="prefix_order")))

        def mutations(fn, var):
            """(line, kind, node, parents) of every statement that changes the list bound to `var`"""
            out = []
            parents = {}
            for p in ast.walk(fn):
                for c in ast.iter_child_nodes(p):
                    parents[c] = p
            for n in ast.walk(fn):
                if isinstance(n, ast.Call) and isinstance(n.func, ast.Attribute) and isinstance(n.func.value, ast.Name) and n.func.value.id == var \
                        and n.func.attr in ("append", "extend", "insert", "sort", "remove", "pop", "clear", "reverse"):
                    out.append((n.lineno, n.func.attr, n, parents))
                if isinstance(n, ast.AugAssign) and isinstance(n.target, ast.Name) and n.target.id == var:
                    out.append((n.lineno, "augassign", n, parents))
            return sorted(out, key=lambda t: t[0])

        def is_sort_desc(call):
            kw = {k.arg: ast.unparse(k.value) for k in call.keywords}
            return call.func.attr == "sort" and not call.args and kw == {"key": "len", "reverse": "True"}
        # update_traits_class_dict
        fn = funcs.get("update_traits_class_dict")
        if fn is None:
            ob("update_traits_class_dict-found", False, "function missing")
        else:
            muts = mutations(fn, "prefix_list")
            last = muts[-1] if muts else None
            ok_last = last is not None and is_sort_desc(last[2])
            ob("update_traits_class_dict:the-last-modification-of-the-prefix-list-is-the-descending-length-sort", ok_last,
               "modifications in order: %s" % [(m[0], m[1]) for m in muts])
            if last is not None:
                stmt = last[3].get(last[2])
                top = stmt is not None and isinstance(stmt, ast.Expr) and last[3].get(stmt) is fn
                ob("update_traits_class_dict:that-sort-runs-unconditionally-at-the-end-of-the-merge", top, "the sort statement is a top-level statement of the function: %s" % top)
            binds = [n for n in ast.walk(fn) if isinstance(n, ast.Assign) and any(ast.unparse(t) == "prefix_traits['*']" for t in n.targets)]
            ob("update_traits_class_dict:the-list-published-under-'*'-is-the-list-that-is-sorted",
               len(binds) == 1 and ast.unparse(binds[0].value) == "prefix_list", "bindings of prefix_traits['*']: %s" % [ast.unparse(b) for b in binds])
            rebinds = [n for n in ast.walk(fn) if isinstance(n, ast.Assign) and any(isinstance(t, ast.Name) and t.id == "prefix_list" for t in n.targets)]
            ob("update_traits_class_dict:the-list-is-created-once", len(rebinds) == 1, "assignments to prefix_list: %s" % [ast.unparse(r) for r in rebinds])
        # _add_class_trait
        fn2 = funcs.get("_add_class_trait") or funcs.get("MetaHasTraits._add_class_trait") or next((f for q, f in funcs.items() if q.endswith("_add_class_trait")), None)
        if fn2 is None:
            ob("_add_class_trait-found", False, "function missing")
        else:
            muts = mutations(fn2, "prefix_list")
            ok = bool(muts) and is_sort_desc(muts[-1][2]) and all(m[1] in ("append", "sort") for m in muts)
            same_block = bool(muts) and len({id(m[3].get(m[3].get(m[2]))) for m in muts}) == 1
            ob("_add_class_trait:a-prefix-added-later-is-followed-by-the-same-sort-in-the-same-block", ok and same_block,
               "modifications in order: %s" % [(m[0], m[1]) for m in muts])
        sha = hashlib.sha256(src.encode()).hexdigest()
        cx = type("DataCx", (), dict(axioms=[], hints=[], notes=[], distinct_consts_axiom=lambda self: []))()
        return cx, obs, dict(sha=sha, paths=1, lines=(1, None))
