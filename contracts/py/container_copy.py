"""Copy / pickle support of the stand-alone container classes (C07 'copying yields an equal set that still
validates', C14 stand-alone containers).

A-CB for copying: `copy.deepcopy` of an item is an opaque pure function dc(x); the deep copy of a validator is a
validator that accepts the copies of items the original accepted and is the identity on them (a copy of a valid
item is valid) -- without this no copy of a validating container could be required to be 'equal'."""
import z3

from vc.unit import Contract, register
from vc.pyvc.values import *  # noqa: F401,F403
from vc.pyvc.core import HObj, St, as_val, raise_
from spec.containers import Validator
from contracts.py.trait_set import make_set_self
from contracts.py.trait_list import make_list_self

DC = z3.Function("deepcopy", Val, Val)


def install_copy_hook(cx, originals):
    """originals: dict name -> Validator of the object being copied; deepcopy(validator) is a new Validator
    'copied_<name>'."""
    copies = {}

    def hook(I, name, args, st, k):
        if name != "copy.deepcopy":
            return None
        x = args[0]
        if isinstance(x, VFunc) and x.kind == "opaque" and getattr(x, "validator", None) is not None:
            v = x.validator
            if v.name not in copies:
                c = Validator(cx, "copied_" + v.name)
                y = z3.Const("y!dc", Val)
                cx.axioms.append(z3.ForAll([y], z3.Implies(v.ok(y), z3.And(c.ok(DC(y)), c.val(DC(y)) == DC(y)))))
                copies[v.name] = c
            return k(copies[v.name].as_value(), st)
        if isinstance(x, (VElem, VConst)):
            return k(VElem(DC(x.t)), st)
        return None
    cx.copy_hook = hook
    return copies


class _DeepCopy(Contract):
    properties = ("C07", "C14")
    assumptions = ("A-PY", "A-BUILTIN", "A-CB:deepcopy-of-valid-item-is-valid")

    def covers(self, cx, ov, info):
        return [("returns-a-copy", lambda k, p, s: k == "return")]


@register
class TSDeepCopy(_DeepCopy):
    path = "traits/trait_set_object.py"
    qualname = "TraitSet.__deepcopy__"
    inline = (("TraitSet", "__init__"), ("TraitSet", "__new__"))

    def configure(self, cx, I, ov):
        cx.module_globals["_validate_everything"] = Validator(cx, "everything").as_value()

    def setup(self, cx, I, ov):
        st, self_ref, S, V = make_set_self(cx)
        x = z3.Const("x!inv", Val)
        # representation invariant of a TraitSet: every member has been accepted by the validator
        st = st.assume(z3.ForAll([x], z3.Implies(S[x], z3.Exists([z3.Const("w!inv", Val)], z3.And(
            V.ok(z3.Const("w!inv", Val)), V.val(z3.Const("w!inv", Val)) == x)))))
        # ... and validated items stay valid (validators are idempotent on their own results: A-CB for copies)
        st = st.assume(z3.ForAll([x], z3.Implies(S[x], V.ok(x))))
        self.copies = install_copy_hook(cx, {"item": V})
        memo = VElem(z3.Const("memo", Val))

        def conc(m):
            from vc.concretise import Universe
            U = Universe(m)
            return dict(harness="containers", family="set_copy", members=U.set_members(S) or [1])
        return st, [self_ref, memo], {}, dict(S=S, V=V, self_ref=self_ref, witness=dict(members=S), concretise=conc)

    def post(self, cx, I, ov, info, kind, payload, st):
        if kind == "raise":
            return [("exc-free", z3.BoolVal(False), dict(exception="%s %r" % (payload.cname or payload.sym, payload.origin)))]
        S = info["S"]
        if not (isinstance(payload, VRef) and st.heap[payload.oid].cls == "TraitSet" and payload.oid != info["self_ref"].oid):
            return [("post:returns-a-new-TraitSet", z3.BoolVal(False))]
        h = st.heap[payload.oid]
        x, y = z3.Const("x!dc", Val), z3.Const("y!dc", Val)
        out = [("post:members-are-the-copies", z3.ForAll([y], h.payload[y] == z3.Exists([x], z3.And(S[x], DC(x) == y))))]
        v = h.fields.get("item_validator")
        out.append(("post:still-validates-with-the-copied-validator",
                    z3.BoolVal(isinstance(v, VFunc) and getattr(v, "validator", None) is self.copies.get("item"))))
        n = h.fields.get("notifiers")
        out.append(("post:notifiers-empty", st.heap[n.oid].payload == EMPTY_SEQ if isinstance(n, VRef) else z3.BoolVal(False)))
        out.append(("frame:original-unchanged", st.heap[info["self_ref"].oid].payload == S))
        return out


@register
class TLDeepCopy(_DeepCopy):
    path = "traits/trait_list_object.py"
    qualname = "TraitList.__deepcopy__"
    properties = ("C14",)
    inline = (("TraitList", "__init__"), ("TraitList", "__new__"))

    def configure(self, cx, I, ov):
        cx.module_globals["_validate_everything"] = Validator(cx, "everything").as_value()

    def setup(self, cx, I, ov):
        st, self_ref, s0, V = make_list_self(cx)
        j = z3.Int("j!inv")
        st = st.assume(z3.ForAll([j], z3.Implies(z3.And(0 <= j, j < z3.Length(s0)), V.ok(s0[j]))))
        self.copies = install_copy_hook(cx, {"item": V})
        return st, [self_ref, VElem(z3.Const("memo", Val))], {}, dict(s0=s0, V=V, self_ref=self_ref, witness=dict(items=s0))

    def post(self, cx, I, ov, info, kind, payload, st):
        if kind == "raise":
            return [("exc-free", z3.BoolVal(False))]
        s0 = info["s0"]
        if not (isinstance(payload, VRef) and st.heap[payload.oid].cls == "TraitList" and payload.oid != info["self_ref"].oid):
            return [("post:returns-a-new-TraitList", z3.BoolVal(False))]
        h = st.heap[payload.oid]
        j = z3.Int("j!dc")
        out = [("post:items-are-the-copies", z3.And(z3.Length(h.payload) == z3.Length(s0), z3.ForAll(
            [j], z3.Implies(z3.And(0 <= j, j < z3.Length(s0)), h.payload[j] == DC(s0[j])))))]
        v = h.fields.get("item_validator")
        out.append(("post:still-validates-with-the-copied-validator",
                    z3.BoolVal(isinstance(v, VFunc) and getattr(v, "validator", None) is self.copies.get("item"))))
        n = h.fields.get("notifiers")
        out.append(("post:notifiers-empty", st.heap[n.oid].payload == EMPTY_SEQ if isinstance(n, VRef) else z3.BoolVal(False)))
        out.append(("frame:original-unchanged", st.heap[info["self_ref"].oid].payload == s0))
        return out


class _GetState(Contract):
    properties = ("C14",)
    maker = None
    drops = ("notifiers",)

    def setup(self, cx, I, ov):
        st, self_ref = self.maker(cx)[:2]
        return st, [self_ref], {}, dict(self_ref=self_ref, fields0=dict(st.heap[self_ref.oid].fields))

    def post(self, cx, I, ov, info, kind, payload, st):
        if kind == "raise":
            return [("exc-free", z3.BoolVal(False))]
        if not (isinstance(payload, VFunc) and payload.kind == "objdict"):
            return [("post:returns-a-state-dict", z3.BoolVal(False))]
        f = st.heap[payload.ref.oid].fields
        exp = {k: v for k, v in info["fields0"].items() if k not in self.drops}
        return [("post:state-is-the-instance-dict-without-transients", z3.BoolVal(set(f) == set(exp) and all(f[k] is exp[k] for k in exp))),
                ("frame:object-unchanged", z3.BoolVal(st.heap[info["self_ref"].oid].fields == info["fields0"]))]


class _SetState(Contract):
    properties = ("C14",)
    maker = None

    def setup(self, cx, I, ov):
        st, self_ref = self.maker(cx)[:2]
        # the state handed to __setstate__: a dict with an arbitrary validator entry and (possibly) stale notifiers
        sref = VRef(cx.new_oid())
        stale = VRef(cx.new_oid())
        st = st.put(stale.oid, HObj("list", z3.Const("pickled_notifiers", SeqV)))
        V2 = Validator(cx, "restored")
        fields = {self.vfield: V2.as_value()}
        if ov == "stale-notifiers":
            fields["notifiers"] = stale
        st = st.put(sref.oid, HObj("obj", None, None, fields, {"is_state_dict": True}))
        return st, [self_ref, VFunc("objdict", ref=sref)], {}, dict(self_ref=self_ref, V2=V2)

    overloads = ("plain", "stale-notifiers")

    def post(self, cx, I, ov, info, kind, payload, st):
        if kind == "raise":
            return [("exc-free", z3.BoolVal(False))]
        f = st.heap[info["self_ref"].oid].fields
        n = f.get("notifiers")
        v = f.get(self.vfield)
        return [("post:notifiers-restored-empty", st.heap[n.oid].payload == EMPTY_SEQ if isinstance(n, VRef) and st.heap[n.oid].payload is not None
                 else z3.BoolVal(isinstance(n, VRef) and st.heap[n.oid].meta.get("pyitems") == ())),
                ("post:validator-restored", z3.BoolVal(isinstance(v, VFunc) and getattr(v, "validator", None) is info["V2"]))]


def _mk(fn):
    return staticmethod(lambda cx: fn(cx))


@register
class TSGetState(_GetState):
    path = "traits/trait_set_object.py"
    qualname = "TraitSet.__getstate__"
    properties = ("C07", "C14")
    maker = _mk(make_set_self)


@register
class TSSetState(_SetState):
    path = "traits/trait_set_object.py"
    qualname = "TraitSet.__setstate__"
    properties = ("C07", "C14")
    maker = _mk(make_set_self)
    vfield = "item_validator"


@register
class TLGetState(_GetState):
    path = "traits/trait_list_object.py"
    qualname = "TraitList.__getstate__"
    maker = _mk(make_list_self)


@register
class TLSetState(_SetState):
    path = "traits/trait_list_object.py"
    qualname = "TraitList.__setstate__"
    maker = _mk(make_list_self)
    vfield = "item_validator"


def _make_dict(cx):
    from contracts.py.trait_dict import make_dict_self
    return make_dict_self(cx)


@register
class TDGetState(_GetState):
    path = "traits/trait_dict_object.py"
    qualname = "TraitDict.__getstate__"
    properties = ("C14",)
    maker = _mk(_make_dict)


@register
class TDSetState(_SetState):
    path = "traits/trait_dict_object.py"
    qualname = "TraitDict.__setstate__"
    properties = ("C14",)
    maker = _mk(_make_dict)
    vfield = "key_validator"


# ------------------------------------------------------------------------------------------------------------------
# the owner-bound container objects: TraitListObject / TraitDictObject / TraitSetObject.__deepcopy__
# ------------------------------------------------------------------------------------------------------------------
class _OwnedDeepCopy(Contract):
    """<Container>Object.__deepcopy__: ONE construction of the same class from (self.trait, None, self.name, <the deep copies
    of the current contents>) -- the constructor validates length bounds and items against the WHOLE value, so the copy must be
    built from the complete copied contents in one step (an empty or partial start can be refused by the trait's bounds, and
    copy_traits swallows that refusal: the attribute would silently fall back to its default) -- detached from any owner
    (object None: notifiers are transient), the original untouched."""
    properties = ("C14",)
    cls_name = None
    assumptions = ("A-PY", "copy.deepcopy of an item is an opaque pure function; the constructor is a summary (own contract: TraitListObject.__init__ ...)")
    undecided_probe = dict(harness="hastraits", family="owned_container_copy")

    def configure(self, cx, I, ov):
        self.trait = z3.Const("trait", Val)
        self.name = z3.String("name")

        def hook(I2, name, args, st, k):
            if name != "copy.deepcopy":
                return None
            x = args[0]
            st = st.gset("copied", st.ghost.get("copied", 0) + 1)
            if isinstance(x, (VElem, VConst)):
                return k(VElem(DC(x.t)), st)
            if isinstance(x, VTuple):
                return k(VTuple([VElem(DC(as_val(cx, i, st))) for i in x.items]), st)
            return None
        cx.copy_hook = hook

        def construct_hook(I2, cname, args, kwargs, st, k):
            if cname != self.cls_name:
                return None
            r = VRef(cx.new_oid())
            st2 = st.put(r.oid, HObj("obj", None, cname, {}))
            return k(r, st2.gset("constructed", tuple(st2.ghost.get("constructed", ())) + ((r, tuple(args), dict(kwargs)),)))
        cx.construct_hook = construct_hook

    def covers(self, cx, ov, info):
        return [("returns-a-copy", lambda k, p, s: k == "return")]

    def base_post(self, cx, info, kind, payload, st):
        if kind == "raise":
            return None, [("exc-free", z3.BoolVal(False), dict(exception="%s %r" % (payload.cname or payload.sym, payload.origin)))]
        made = st.ghost.get("constructed", ())
        out = [("post:exactly-one-construction-of-the-same-class", z3.BoolVal(len(made) == 1))]
        if len(made) != 1:
            return None, out
        r, args, kw = made[0]
        allargs = dict(zip(("trait", "object", "name", "value"), args))
        allargs.update(kw)
        out.append(("post:the-result-is-that-new-object", z3.BoolVal(isinstance(payload, VRef) and payload.oid == r.oid)))
        t, o, n = allargs.get("trait"), allargs.get("object"), allargs.get("name")
        out.append(("post:bound-to-the-same-trait-and-name-and-to-no-owner", z3.And(
            as_val(cx, t, st) == self.trait if t is not None else z3.BoolVal(False), z3.BoolVal(isinstance(o, VNone)),
            n.t == self.name if isinstance(n, VStr) and n.t is not None else z3.BoolVal(False))))
        return allargs.get("value"), out


@register
class TLODeepCopy(_OwnedDeepCopy):
    path = "traits/trait_list_object.py"
    qualname = "TraitListObject.__deepcopy__"
    cls_name = "TraitListObject"

    def setup(self, cx, I, ov):
        st, self_ref, s0, V = make_list_self(cx, "TraitListObject", {"trait": VElem(self.trait), "name": VStr(self.name)})
        return st, [self_ref, VElem(z3.Const("memo", Val))], {}, dict(s0=s0, self_ref=self_ref, witness=dict(items=s0),
                                                                      concretise=lambda m: dict(harness="hastraits", family="owned_container_copy"))

    def post(self, cx, I, ov, info, kind, payload, st):
        value, out = self.base_post(cx, info, kind, payload, st)
        s0 = info["s0"]
        if value is not None:
            j = z3.Int("j!odc")
            sq = st.heap[value.oid].payload if isinstance(value, VRef) and st.heap[value.oid].kind == "list" else None
            out.append(("post:constructed-from-the-deep-copies-of-ALL-current-items-in-order", z3.And(z3.Length(sq) == z3.Length(s0), z3.ForAll(
                [j], z3.Implies(z3.And(0 <= j, j < z3.Length(s0)), sq[j] == DC(s0[j])))) if sq is not None else z3.BoolVal(False)))
        if kind == "return":
            out.append(("frame:original-unchanged", st.heap[info["self_ref"].oid].payload == s0))
            out.append(("post:nothing-is-added-to-the-copy-after-its-construction", z3.BoolVal(
                isinstance(payload, VRef) and st.heap[payload.oid].kind == "obj" and not st.ghost.get("mutated_after"))))
        return out
