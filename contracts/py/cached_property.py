"""C12: cached / observed properties (traits/has_traits.py).

cached_property wrapper: 'between two relevant changes a cached getter runs at most once however often the property is
read' -- the wrapper returns the cache entry when there is one (the getter is not called) and otherwise calls the getter
exactly once, stores and returns its result; a failing getter stores nothing.
observe-state handler: a dependency change drops the cache entry (so no read returns a value cached before the change)
and announces the change through trait_property_changed(name, old) with old = the dropped value (or Undefined)."""
import z3

from vc.unit import Contract, register
from vc.pyvc.values import *  # noqa: F401,F403
from vc.pyvc.core import HObj, St, as_val, raise_

PATH = "traits/has_traits.py"


def instance_with_dict(cx, st):
    D = z3.Const("instance_dict", MapV)
    dref = VRef(cx.new_oid())
    st = st.put(dref.oid, HObj("dict", D))
    cx.elem_attrs["__dict__"] = lambda I, o, s, k: k(dref, s)
    return st, D, dref


@register
class CachedPropertyWrapper(Contract):
    path = PATH
    qualname = "cached_property.<locals>.decorator"
    properties = ("C12", "C19")
    assumptions = ("A-PY", "A-BUILTIN:dict", "A-CB: the getter is an opaque callable that may raise")

    def configure(self, cx, I, ov):
        cx.const("Undefined")

    def setup(self, cx, I, ov):
        st, D, dref = instance_with_dict(cx, St())
        name = z3.String("cache_name")
        computed = z3.Const("computed", Val)
        inst = z3.Const("instance", Val)

        def getter(I2, args, kwargs, s, k):
            s = s.gset("getter_calls", s.ghost.get("getter_calls", 0) + 1)
            e = I2.cx.fresh("getter_exc", Exc)
            return k(VElem(computed), s) + [("raise", VExc(sym=e, origin=("getter",)), s.assume(*I2.cx.exc_axioms(e)))]
        # a getter never returns the Undefined sentinel (it is the 'no value' marker of the cache)
        st = st.assume(computed != cx.const("Undefined").t)
        closure = {"name": VStr(name), "function": VFunc("opaque", name="getter", apply=getter), "Undefined": cx.const("Undefined")}
        ntok = cx.box_str(name)
        return st, [VElem(inst)], {}, dict(D=D, dref=dref, ntok=ntok, computed=computed, closure_env=closure,
                                           witness=dict(cached=D[ntok] != Opt.none))

    def post(self, cx, I, ov, info, kind, payload, st):
        D0, ntok = info["D"], info["ntok"]
        D1 = st.heap[info["dref"].oid].payload
        U = cx.const("Undefined").t
        cached = z3.And(D0[ntok] != Opt.none, Opt.get(D0[ntok]) != U)
        calls = st.ghost.get("getter_calls", 0)
        k2 = z3.Const("k!cache", Val)
        if kind == "raise":
            return [("raise:only-the-getter's-error", z3.BoolVal(isinstance(payload.origin, tuple) and payload.origin[0] == "getter")),
                    ("raise:failing-getter-caches-nothing", z3.ForAll([k2], D1[k2] == D0[k2]))]
        r = as_val(cx, payload, st)
        return [("post:cached-value-returned-without-calling-the-getter", z3.Implies(cached, z3.And(r == Opt.get(D0[ntok]), z3.BoolVal(calls == 0)))),
                ("post:getter-runs-exactly-once-on-a-miss", z3.Implies(z3.Not(cached), z3.BoolVal(calls == 1))),
                ("post:miss-stores-and-returns-the-computed-value", z3.Implies(z3.Not(cached), z3.And(
                    r == info["computed"], D1[ntok] == Opt.some(info["computed"])))),
                ("frame:only-the-cache-entry-changes", z3.ForAll([k2], z3.Implies(k2 != ntok, D1[k2] == D0[k2]))),
                ("post:getter-called-at-most-once", z3.BoolVal(calls <= 1))]

    def covers(self, cx, ov, info):
        return [("hit", lambda k, p, s: k == "return" and s.ghost.get("getter_calls", 0) == 0),
                ("miss", lambda k, p, s: k == "return" and s.ghost.get("getter_calls", 0) == 1)]


@register
class PropertyObserveHandler(Contract):
    path = PATH
    qualname = "_create_property_observe_state.<locals>.handler"
    properties = ("C12",)
    overloads = ("cached", "uncached")
    assumptions = ("A-PY", "A-BUILTIN:dict", "trait_property_changed(name, old) recomputes the property and notifies (C contract, assumed)")

    def configure(self, cx, I, ov):
        cx.const("Undefined")

        def tpc(I2, o, st, k):
            def apply(I3, a, kw, s, kk):
                return kk(NONE, s.gset("announced", s.ghost.get("announced", ()) + (tuple(a),)))
            return k(VFunc("opaque", name="trait_property_changed", apply=apply), st)
        cx.elem_attrs["trait_property_changed"] = tpc

    def setup(self, cx, I, ov):
        st, D, dref = instance_with_dict(cx, St())
        pname = z3.String("property_name")
        prefix = z3.String("TraitsCache")
        closure = {"cached": VBool(ov == "cached"), "property_name": VStr(pname), "TraitsCache": VStr(prefix), "Undefined": cx.const("Undefined")}
        ctok = cx.box_str(z3.Concat(prefix, pname))
        return st, [VElem(z3.Const("instance", Val)), VElem(z3.Const("event", Val))], {}, dict(
            D=D, dref=dref, ctok=ctok, pname=pname, closure_env=closure, witness=dict(cached_entry_present=D[ctok] != Opt.none))

    def post(self, cx, I, ov, info, kind, payload, st):
        if kind == "raise":
            return [("exc-free", z3.BoolVal(False), dict(exception="%s %r" % (payload.cname or payload.sym, payload.origin)))]
        D0, ctok = info["D"], info["ctok"]
        D1 = st.heap[info["dref"].oid].payload
        ann = st.ghost.get("announced", ())
        U = cx.const("Undefined").t
        out = [("post:change-announced-exactly-once", z3.BoolVal(len(ann) == 1))]
        if len(ann) == 1:
            a = ann[0]
            okname = isinstance(a[0], VStr) and a[0].t is not None
            out.append(("post:announced-for-the-property", a[0].t == info["pname"] if okname else z3.BoolVal(False)))
            old = as_val(cx, a[1], st) if len(a) > 1 else None
            if ov == "cached":
                out.append(("post:old-is-the-dropped-cache-value", old == z3.If(D0[ctok] != Opt.none, Opt.get(D0[ctok]), U) if old is not None else z3.BoolVal(False)))
            else:
                out.append(("post:old-is-Undefined-without-a-cache", old == U if old is not None else z3.BoolVal(False)))
        k2 = z3.Const("k!cache", Val)
        if ov == "cached":
            out.append(("post:cache-entry-dropped", D1[ctok] == Opt.none))
            out.append(("frame:only-the-cache-entry-changes", z3.ForAll([k2], z3.Implies(k2 != ctok, D1[k2] == D0[k2]))))
        else:
            out.append(("frame:instance-dict-untouched", z3.ForAll([k2], D1[k2] == D0[k2])))
        return out

    def covers(self, cx, ov, info):
        return [("handles", lambda k, p, s: k == "return")]
