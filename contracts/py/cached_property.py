"""C12: cached / observed properties (traits/has_traits.py).

cached_property wrapper: 'between two relevant changes a cached getter runs at most once however often the property is
read' -- the wrapper returns the cache entry when there is one (the getter is not called) and otherwise calls the getter
exactly once, stores and returns its result; a failing getter stores nothing.
observe-state handler: a dependency change drops the cache entry (so no read returns a value cached before the change)
and announces the change through trait_property_changed(name, old) with old = the dropped value (or Undefined)."""
import z3

from vc.unit import Contract, register
from vc.pyvc.values import *  # noqa: F401,F403
from vc.pyvc.core import HObj, St, as_val, raise_

PATH = "traits/has_traits.py"


def instance_with_dict(cx, st):
    D = z3.Const("instance_dict", MapV)
    dref = VRef(cx.new_oid())
    st = st.put(dref.oid, HObj("dict", D))
    cx.elem_attrs["__dict__"] = lambda I, o, s, k: k(dref, s)
    return st, D, dref


@register
class CachedPropertyWrapper(Contract):
    path = PATH
    qualname = "cached_property.<locals>.decorator"
    properties = ("C12", "C19")
    assumptions = ("A-PY", "A-BUILTIN:dict", "A-CB: the getter is an opaque callable that may raise")

    def configure(self, cx, I, ov):
        cx.const("Undefined")

    def setup(self, cx, I, ov):
        st, D, dref = instance_with_dict(cx, St())
        name = z3.String("cache_name")
        computed = z3.Const("computed", Val)
        inst = z3.Const("instance", Val)

        def getter(I2, args, kwargs, s, k):
            s = s.gset("getter_calls", s.ghost.get("getter_calls", 0) + 1)
            e = I2.cx.fresh("getter_exc", Exc)
            return k(VElem(computed), s) + [("raise", VExc(sym=e, origin=("getter",)), s.assume(*I2.cx.exc_axioms(e)))]
        # a getter never returns the Undefined sentinel (it is the 'no value' marker of the cache)
        st = st.assume(computed != cx.const("Undefined").t)
        closure = {"name": VStr(name), "function": VFunc("opaque", name="getter", apply=getter), "Undefined": cx.const("Undefined")}
        ntok = cx.box_str(name)
        return st, [VElem(inst)], {}, dict(D=D, dref=dref, ntok=ntok, computed=computed, closure_env=closure,
                                           witness=dict(cached=D[ntok] != Opt.none))

    def post(self, cx, I, ov, info, kind, payload, st):
        D0, ntok = info["D"], info["ntok"]
        D1 = st.heap[info["dref"].oid].payload
        U = cx.const("Undefined").t
        cached = z3.And(D0[ntok] != Opt.none, Opt.get(D0[ntok]) != U)
        calls = st.ghost.get("getter_calls", 0)
        k2 = z3.Const("k!cache", Val)
        if kind == "raise":
            return [("raise:only-the-getter's-error", z3.BoolVal(isinstance(payload.origin, tuple) and payload.origin[0] == "getter")),
                    ("raise:failing-getter-caches-nothing", z3.ForAll([k2], D1[k2] == D0[k2]))]
        r = as_val(cx, payload, st)
        return [("post:cached-value-returned-without-calling-the-getter", z3.Implies(cached, z3.And(r == Opt.get(D0[ntok]), z3.BoolVal(calls == 0)))),
                ("post:getter-runs-exactly-once-on-a-miss", z3.Implies(z3.Not(cached), z3.BoolVal(calls == 1))),
                ("post:miss-stores-and-returns-the-computed-value", z3.Implies(z3.Not(cached), z3.And(
                    r == info["computed"], D1[ntok] == Opt.some(info["computed"])))),
                ("frame:only-the-cache-entry-changes", z3.ForAll([k2], z3.Implies(k2 != ntok, D1[k2] == D0[k2]))),
                ("post:getter-called-at-most-once", z3.BoolVal(calls <= 1))]

    def covers(self, cx, ov, info):
        return [("hit", lambda k, p, s: k == "return" and s.ghost.get("getter_calls", 0) == 0),
                ("miss", lambda k, p, s: k == "return" and s.ghost.get("getter_calls", 0) == 1)]


@register
class PropertyObserveHandler(Contract):
    path = PATH
    qualname = "_create_property_observe_state.<locals>.handler"
    properties = ("C12",)
    overloads = ("cached", "uncached")
    assumptions = ("A-PY", "A-BUILTIN:dict", "trait_property_changed(name, old) recomputes the property and notifies (C contract, assumed)")

    def configure(self, cx, I, ov):
        cx.const("Undefined")

        def tpc(I2, o, st, k):
            def apply(I3, a, kw, s, kk):
                return kk(NONE, s.gset("announced", s.ghost.get("announced", ()) + (tuple(a),)))
            return k(VFunc("opaque", name="trait_property_changed", apply=apply), st)
        cx.elem_attrs["trait_property_changed"] = tpc

    def setup(self, cx, I, ov):
        st, D, dref = instance_with_dict(cx, St())
        pname = z3.String("property_name")
        prefix = z3.String("TraitsCache")
        closure = {"cached": VBool(ov == "cached"), "property_name": VStr(pname), "TraitsCache": VStr(prefix), "Undefined": cx.const("Undefined")}
        ctok = cx.box_str(z3.Concat(prefix, pname))
        return st, [VElem(z3.Const("instance", Val)), VElem(z3.Const("event", Val))], {}, dict(
            D=D, dref=dref, ctok=ctok, pname=pname, closure_env=closure, witness=dict(cached_entry_present=D[ctok] != Opt.none))

    def post(self, cx, I, ov, info, kind, payload, st):
        if kind == "raise":
            return [("exc-free", z3.BoolVal(False), dict(exception="%s %r" % (payload.cname or payload.sym, payload.origin)))]
        D0, ctok = info["D"], info["ctok"]
        D1 = st.heap[info["dref"].oid].payload
        ann = st.ghost.get("announced", ())
        U = cx.const("Undefined").t
        out = [("post:change-announced-exactly-once", z3.BoolVal(len(ann) == 1))]
        if len(ann) == 1:
            a = ann[0]
            okname = isinstance(a[0], VStr) and a[0].t is not None
            out.append(("post:announced-for-the-property", a[0].t == info["pname"] if okname else z3.BoolVal(False)))
            old = as_val(cx, a[1], st) if len(a) > 1 else None
            if ov == "cached":
                out.append(("post:old-is-the-dropped-cache-value", old == z3.If(D0[ctok] != Opt.none, Opt.get(D0[ctok]), U) if old is not None else z3.BoolVal(False)))
            else:
                out.append(("post:old-is-Undefined-without-a-cache", old == U if old is not None else z3.BoolVal(False)))
        k2 = z3.Const("k!cache", Val)
        if ov == "cached":
            out.append(("post:cache-entry-dropped", D1[ctok] == Opt.none))
            out.append(("frame:only-the-cache-entry-changes", z3.ForAll([k2], z3.Implies(k2 != ctok, D1[k2] == D0[k2]))))
        else:
            out.append(("frame:instance-dict-untouched", z3.ForAll([k2], D1[k2] == D0[k2])))
        return out

    def covers(self, cx, ov, info):
        return [("handles", lambda k, p, s: k == "return")]


# ------------------------------------------------------------------------------------------------------------------
# cached Property(depends_on=...): the two handlers installed by HasTraits._init_trait_property_listener
# ------------------------------------------------------------------------------------------------------------------
class _DependsOnHandler(Contract):
    path = PATH
    properties = ("C12", "C19")
    assumptions = ("A-PY", "A-BUILTIN:dict", "trait_property_changed(name, old) recomputes the property (runs the user's getter) and "
                   "notifies: it may raise anything")

    def base_setup(self, cx):
        cx.const("Undefined")
        st, D, dref = instance_with_dict(cx, St())
        self.cached, self.name = z3.String("cache_name"), z3.String("property_name")
        self.cached_old = z3.Concat(self.cached, z3.StringVal(":old"))
        closure = {"cached": VStr(self.cached), "cached_old": VStr(self.cached_old), "name": VStr(self.name), "Undefined": cx.const("Undefined")}
        st = st.assume(cx.box_str(self.cached) != cx.box_str(self.cached_old))
        return st, D, dref, closure


@register
class DependsOnNotify(_DependsOnHandler):
    """notify (the handler that announces the property change after a dependency changed): the value stashed by pre_notify is
    TAKEN OUT of the instance dictionary BEFORE the listeners are told -- trait_property_changed runs the user's getter, which may
    raise; whatever happens the stash is gone afterwards, so that the next dependency change invalidates the cache again
    ('every subsequent operation behaves exactly as on an object that never saw the failure')."""
    qualname = "HasTraits._init_trait_property_listener.<locals>.notify"

    def configure(self, cx, I, ov):
        def tpc(I2, o, st, k):
            def apply(I3, a, kw, s, kk):
                D_now = s.heap[s.ghost["dref"].oid].payload
                s2 = s.gset("announced", s.ghost.get("announced", ()) + ((tuple(a), D_now),))
                e = I3.cx.fresh("getter_exc", Exc)
                fails = I3.cx.fresh("recomputation_raises", z3.BoolSort())
                return I3.cx.branch(s2, fails, lambda t: [("raise", VExc(sym=e, origin=("trait_property_changed",)), t.assume(*I3.cx.exc_axioms(e)))], lambda t: kk(NONE, t))
            return k(VFunc("opaque", name="trait_property_changed", apply=apply), st)
        cx.elem_attrs["trait_property_changed"] = tpc

    def setup(self, cx, I, ov):
        st, D, dref, closure = self.base_setup(cx)
        st = st.gset("dref", dref)
        return st, [VElem(z3.Const("instance", Val))], {}, dict(D=D, dref=dref, closure_env=closure, witness={})

    def post(self, cx, I, ov, info, kind, payload, st):
        D0 = info["D"]
        D1 = st.heap[info["dref"].oid].payload
        U = cx.const("Undefined").t
        stash = cx.box_str(self.cached_old)
        had = z3.And(D0[stash] != Opt.none, Opt.get(D0[stash]) != U)
        ann = st.ghost.get("announced", ())
        k2 = z3.Const("k!st", Val)
        out = [("raise:" if kind == "raise" else "post:") + "the-stash-is-gone-on-every-exit", D1[stash] == Opt.none] if True else []
        out = [(out[0], out[1])]
        out.append(("post:announced-at-most-once-and-only-with-a-stash", z3.And(z3.BoolVal(len(ann) <= 1), z3.Implies(z3.BoolVal(len(ann) == 1), had))))
        if kind == "raise":
            out.append(("raise:only-the-recomputation-raises", z3.BoolVal(bool(payload.origin) and payload.origin[0] == "trait_property_changed")))
        else:
            out.append(("post:a-stash-is-announced", z3.Implies(had, z3.BoolVal(len(ann) == 1))))
        for (a, D_at) in ann:
            out.append(("post:the-stash-was-already-taken-out-when-the-listeners-were-told", D_at[stash] == Opt.none))
            out.append(("post:announced-for-the-property-with-the-stashed-old-value", z3.And(
                a[0].t == self.name if isinstance(a[0], VStr) and a[0].t is not None else z3.BoolVal(False),
                as_val(cx, a[1], st) == Opt.get(D0[stash]) if len(a) > 1 else z3.BoolVal(False))))
        out.append(("frame:nothing-but-the-stash-changes", z3.ForAll([k2], z3.Implies(k2 != stash, D1[k2] == D0[k2]))))
        return out

    def covers(self, cx, ov, info):
        return [("announces", lambda k, p, s: k == "return" and len(s.ghost.get("announced", ())) == 1),
                ("nothing-stashed", lambda k, p, s: k == "return" and not s.ghost.get("announced", ())),
                ("getter-fails", lambda k, p, s: k == "raise")]


@register
class DependsOnPreNotify(_DependsOnHandler):
    """pre_notify (priority handler): on the first dependency change since the last announcement the cached value is moved
    from the cache entry to the stash (the cache is thereby invalidated); while a stash is pending nothing is touched."""
    qualname = "HasTraits._init_trait_property_listener.<locals>.pre_notify"

    def setup(self, cx, I, ov):
        st, D, dref, closure = self.base_setup(cx)
        return st, [VElem(z3.Const("instance", Val))], {}, dict(D=D, dref=dref, closure_env=closure, witness={})

    def post(self, cx, I, ov, info, kind, payload, st):
        if kind == "raise":
            return [("exc-free", z3.BoolVal(False), dict(exception="%s %r" % (payload.cname or payload.sym, payload.origin)))]
        D0 = info["D"]
        D1 = st.heap[info["dref"].oid].payload
        U, NONE_T = cx.const("Undefined").t, cx.const("None").t
        stash, cache = cx.box_str(self.cached_old), cx.box_str(self.cached)
        pending = z3.And(D0[stash] != Opt.none, Opt.get(D0[stash]) != U)
        k2 = z3.Const("k!pn", Val)
        return [("post:while-a-stash-is-pending-nothing-is-touched", z3.Implies(pending, D1 == D0)),
                ("post:otherwise-the-cache-entry-is-dropped", z3.Implies(z3.Not(pending), D1[cache] == Opt.none)),
                ("post:and-its-value-(None-if-there-was-none)-becomes-the-stash", z3.Implies(z3.Not(pending), D1[stash] == Opt.some(
                    z3.If(D0[cache] != Opt.none, Opt.get(D0[cache]), NONE_T)))),
                ("frame:nothing-else-changes", z3.ForAll([k2], z3.Implies(z3.And(k2 != stash, k2 != cache), D1[k2] == D0[k2])))]

    def covers(self, cx, ov, info):
        return [("handles", lambda k, p, s: k == "return")]
