"""C10 (instance isolation) / C13: HasTraits.add_trait.

'No sequence of operations on one instance (... adding instance traits) ever changes the ... handler calls or trait
definitions observable on another instance': the trait object installed in the instance-trait dictionary is a fresh clone
made for this object -- never the object handed in, which may be shared (the process-wide *_items event trait, a class
trait, a trait object the caller keeps) and onto which notifiers would otherwise be attached for everybody.  The old
instance trait's notifiers are carried over; trait_added fires only for a genuinely new name."""
import z3

from vc.unit import Contract, register
from vc.pyvc.values import *  # noqa: F401,F403
from vc.pyvc.core import HObj, St, as_val, raise_

PATH = "traits/has_traits.py"
clone_src = z3.Function("clone_source", Val, Val)
is_fresh_clone = z3.Function("is_fresh_clone", Val, z3.BoolSort())


@register
class AddTrait(Contract):
    path = PATH
    qualname = "HasTraits.add_trait"
    properties = ("C10", "C13")
    class_paths = (PATH,)
    overloads = ("one-trait-plain-handler",)
    assumptions = ("A-PY", "trait_for / _clone_trait / _get_method / _add_event_handlers / _add_notifiers are opaque helpers: "
                   "_clone_trait(t) returns a new CTrait with t's definition", "handler without items/mapped sub-traits (no recursion)")

    def configure(self, cx, I, ov):
        cx.const("None")
        given = z3.Const("given_trait", Val)
        self.given = given
        resolved = z3.Const("resolved_trait", Val)        # trait_for(given): given itself for a CTrait, a new one for a TraitType
        self.resolved = resolved
        old = z3.Const("old_instance_trait", Val)
        self.old = old
        has_old = z3.Bool("name_already_has_an_instance_trait")
        self.has_old = has_old

        def repo_call(I2, fv, args, kwargs, st, k):
            n = fv.name
            if n == "trait_for":
                return k(VElem(resolved), st)
            if n == "_clone_trait":
                t = as_val(I2.cx, args[0], st)
                c = I2.cx.fresh("clone", Val)
                return k(VElem(c), st.assume(clone_src(c) == t, is_fresh_clone(c), c != I2.cx.const("None").t, c != t,
                                             c != given, c != resolved, c != old).gset("clones", st.ghost.get("clones", ()) + (c,)))
            if n == "_get_method":
                return k(VElem(I2.cx.fresh("method_or_none", Val)), st)
            if n == "_add_event_handlers":
                return k(NONE, st.gset("attached", st.ghost.get("attached", ()) + ((n, as_val(I2.cx, args[0], st)),)))
            if n == "_add_notifiers":
                owner = st.ghost.get("nl_owner", {}).get(args[0].oid) if isinstance(args[0], VRef) else None
                if owner is None:
                    raise Unsupported("_add_notifiers on an unknown notifier list")
                return k(NONE, st.gset("attached", st.ghost.get("attached", ()) + ((n, owner),)))
            return None
        cx.repo_call_hook = repo_call
        cx.elem_attrs["handler"] = lambda I2, o, st, k: k(NONE, st)          # overload: no handler-specific sub-traits

        def notifiers_attr(I2, o, st, k):
            def apply(I3, a, kw, s, kk):
                r = VRef(I3.cx.new_oid())
                lst = z3.Function("notifier_list", Val, SeqV)(o.t)
                return kk(r, s.put(r.oid, HObj("list", lst)).gset("nl_owner", {**s.ghost.get("nl_owner", {}), r.oid: o.t}))
            return k(VFunc("opaque", name="_notifiers", apply=apply), st)
        cx.elem_attrs["_notifiers"] = notifiers_attr

        class SelfTrait(Contract):
            path = PATH
            qualname = "HasTraits._trait"

            def summary(self, I2, self_ref, args, kwargs, st, k):
                return I2.cx.branch(st, has_old, lambda s: k(VElem(old), s.assume(old != I2.cx.const("None").t)), lambda s: k(NONE, s))

        class InstanceTraits(Contract):
            path = PATH
            qualname = "HasTraits._instance_traits"

            def summary(self, I2, self_ref, args, kwargs, st, k):
                return k(st.heap[self_ref.oid].fields["__itraits__"], st)
        cx.contracts = dict(cx.contracts)
        cx.contracts[("HasTraits", "_trait")] = SelfTrait()
        cx.contracts[("HasTraits", "_instance_traits")] = InstanceTraits()

        def setattr_hook(I2, obj, name, v, st, k):
            return None
        cx.setattr_hook = setattr_hook

    def setup(self, cx, I, ov):
        st = St()
        itd, ptab, klass, self_ref = [VRef(cx.new_oid()) for _ in range(4)]
        IT = z3.Const("instance_traits", MapV)
        st = st.put(itd.oid, HObj("dict", IT)).put(ptab.oid, HObj("dict", z3.Const("prefix_traits", MapV)))
        st = st.put(klass.oid, HObj("obj", None, "opaque_class", {"__name__": VStr(z3.String("class_name"))}))
        st = st.put(self_ref.oid, HObj("obj", None, "HasTraits", {"__itraits__": itd, "__prefix_traits__": ptab, "__class__": klass}))
        name = z3.String("name")
        st = st.assume(self.given != cx.const("None").t, self.resolved != cx.const("None").t)
        return st, [self_ref, VStr(name), VElem(self.given)], {}, dict(itd=itd, IT=IT, name=name, self_ref=self_ref,
                                                                      witness=dict(name=name, had_instance_trait=self.has_old))

    def post(self, cx, I, ov, info, kind, payload, st):
        if kind == "raise":
            return [("exc-free", z3.BoolVal(False), dict(exception="%s %r" % (payload.cname or payload.sym, payload.origin)))]
        IT1 = st.heap[info["itd"].oid].payload
        ntok = cx.box_str(info["name"])
        stored = Opt.get(IT1[ntok])
        f = st.heap[info["self_ref"].oid].fields
        fired = f.get("trait_added")
        out = [("post:an-instance-trait-is-installed-under-the-name", IT1[ntok] != Opt.none),
               ("post:installed-trait-is-a-fresh-clone-not-the-object-handed-in", z3.And(
                   is_fresh_clone(stored), stored != self.given, stored != self.resolved, clone_src(stored) == self.resolved)),
               ("post:trait_added-fires-iff-the-name-is-new", z3.BoolVal(fired is not None) == z3.Not(self.has_old))]
        k2 = z3.Const("k!it", Val)
        out.append(("frame:other-instance-traits-untouched", z3.ForAll([k2], z3.Implies(k2 != ntok, IT1[k2] == info["IT"][k2]))))
        # whatever gets notifiers / static handlers attached is the installed clone, never a shared object
        for (what, target) in st.ghost.get("attached", ()):
            out.append(("post:handlers-attached-only-to-the-installed-clone", target == stored))
        return out

    def covers(self, cx, ov, info):
        return [("adds", lambda k, p, s: k == "return")]
