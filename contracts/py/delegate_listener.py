"""C11: HasTraits._init_trait_delegate_listener -- how the forwarder of a deferred trait is installed.

'While linked, a change of the target attribute on the current delegate notifies handlers of the deferring attribute with
the new value': the forwarder has to be attached, at once, to the delegate object that is current NOW -- whatever way that
object is obtained (a stored value, a default not yet materialised, a computed attribute) -- and re-attached when the link
is restored (the same function is used).  So the registration

  * is one on_trait_change(forwarder, <listener name for (name, pattern)>, target=self) on the object itself,
  * is NOT deferred: a deferred registration waits for a change notification of the delegate attribute, which never comes
    for a computed delegate and is lost when the default is first materialised with notifications off,
  * is recorded under `name` in the object's listener table, so that breaking the link can remove exactly this forwarder;

and the forwarder reports a change of <target> on the delegate as a change of the deferring attribute: it calls
trait_property_changed(name + <what follows the target name>, old, new) once."""
import z3

from vc.unit import Contract, register
from vc.pyvc.values import *  # noqa: F401,F403
from vc.pyvc.core import HObj, St, as_val, raise_
from vc.pyvc import source

PATH = "traits/has_traits.py"


@register
class InitTraitDelegateListener(Contract):
    path = PATH
    qualname = "HasTraits._init_trait_delegate_listener"
    properties = ("C11",)
    class_paths = (PATH,)
    assumptions = ("A-PY", "_trait_delegate_name through its lemma (contracts/py/delegate_names.py): here an arbitrary string",
                   "on_trait_change is the legacy registration entry (C16), used as a summary")

    def configure(self, cx, I, ov):
        log = lambda st, rec: st.gset("log", st.ghost.get("log", ()) + (rec,))
        consts = source.module_constants(PATH)
        cx.module_globals["ListenerTraits"] = VStr(const=consts["ListenerTraits"])
        cx.module_globals["weak_arg"] = VFunc("opaque", name="weak_arg", apply=lambda I2, a, kw, st, k: k(VFunc("opaque", name="weak_arg-decorator", apply=lambda I3, a2, kw2, s, kk: kk(a2[0], s)), st))
        self.pattern_name = z3.String("listener_name")

        class DelegateName(Contract):
            path = PATH
            qualname = "HasTraits._trait_delegate_name"

            def summary(self_, I2, self_ref, args, kwargs, st, k):
                return k(VStr(self.pattern_name), log(st, ("_trait_delegate_name",) + tuple(args)))

        class OnTraitChange(Contract):
            path = PATH
            qualname = "HasTraits.on_trait_change"

            def summary(self_, I2, self_ref, args, kwargs, st, k):
                return k(NONE, log(st, ("on_trait_change", self_ref, tuple(args), dict(kwargs))))
        def setitem_hook(I2, obj, key, v, st, k):
            # <listener table>[name] = forwarder
            if isinstance(v, VFunc) and isinstance(key, VStr) and isinstance(obj, VRef):
                owner = [n for n, f in st.heap[self.self_ref.oid].fields.items() if isinstance(f, VRef) and f.oid == obj.oid]
                return k(NONE, st.gset("table_store", (key.t, v, tuple(owner))))
            return None
        cx.setitem_hook = setitem_hook
        cx.contracts = dict(cx.contracts)
        cx.contracts[("HasTraits", "_trait_delegate_name")] = DelegateName()
        cx.contracts[("HasTraits", "on_trait_change")] = OnTraitChange()

    def setup(self, cx, I, ov):
        st = St()
        self.self_ref = VRef(cx.new_oid())
        st = st.put(self.self_ref.oid, HObj("obj", None, "HasTraits", {}))
        self.name, self.pattern = z3.String("name"), z3.String("pattern")
        return st, [self.self_ref, VStr(self.name), VElem(z3.Const("kind", Val)), VStr(self.pattern)], {}, dict(witness={}, concretise=lambda m: dict(harness="delegate", family="link_notification"))

    def post(self, cx, I, ov, info, kind, payload, st):
        if kind == "raise":
            return [("exc-free", z3.BoolVal(False), dict(exception="%s %r" % (payload.cname or payload.sym, payload.origin)))]
        log = st.ghost.get("log", ())
        regs = [r for r in log if r[0] == "on_trait_change"]
        out = [("post:exactly-one-registration", z3.BoolVal(len(regs) == 1))]
        if len(regs) != 1:
            return out
        _t, who, args, kw = regs[0]
        allargs = dict(zip(("handler", "name", "remove", "dispatch", "priority", "deferred", "target"), args))
        allargs.update(kw)

        def falsy(v):
            return v is None or isinstance(v, VNone) or (isinstance(v, VBool) and z3.is_false(z3.simplify(v.t)))
        out.append(("post:registered-on-the-object-itself", z3.BoolVal(isinstance(who, VRef) and who.oid == self.self_ref.oid)))
        nm = allargs.get("name")
        out.append(("post:registered-under-the-listener-name-of-the-deferred-trait", nm.t == self.pattern_name if isinstance(nm, VStr) and nm.t is not None else z3.BoolVal(False)))
        out.append(("post:the-listener-name-is-computed-from-name-and-pattern", z3.BoolVal(any(
            r[0] == "_trait_delegate_name" and isinstance(r[1], VStr) and r[1].t.eq(self.name) and isinstance(r[2], VStr) and r[2].t.eq(self.pattern) for r in log))))
        out.append(("post:the-forwarder-is-attached-at-once-not-deferred", z3.BoolVal(falsy(allargs.get("deferred")))))
        out.append(("post:it-is-an-addition-not-a-removal", z3.BoolVal(falsy(allargs.get("remove")))))
        tg = allargs.get("target")
        out.append(("post:the-forwarder-lives-as-long-as-the-object", z3.BoolVal(isinstance(tg, VRef) and tg.oid == self.self_ref.oid)))
        h = allargs.get("handler")
        out.append(("post:the-handler-registered-is-the-forwarder", z3.BoolVal(isinstance(h, VFunc) and h.kind == "lambda" and getattr(h, "name", "") == "notify")))
        # recorded in the listener table under `name`
        d = st.heap[self.self_ref.oid].fields.get(source.module_constants(PATH)["ListenerTraits"])
        if isinstance(d, VRef) and h is not None:
            table = st.heap[d.oid].payload
            rec_ok = table[cx.box_str(self.name)] == Opt.some(as_val(cx, h, st))
        else:
            rec_ok = z3.BoolVal(False)
        out.append(("post:the-forwarder-is-recorded-under-the-trait-name-for-later-removal", rec_ok))
        return out

    def covers(self, cx, ov, info):
        return [("installs", lambda k, p, s: k == "return")]


@register
class DelegateForwarder(Contract):
    """_init_trait_delegate_listener.<locals>.notify -- the forwarder itself.  It is called with the name of what changed on the
    delegate: the target attribute's name, possibly followed by a suffix ('_items' for in-place changes of a container target).
    It must report the change under the deferring attribute's name followed by the SAME suffix -- what follows the target's
    name, determined by the target name's LENGTH, not by the look of the text (a target may itself be called 'line_items') --
    with the old and new values unchanged, exactly once."""
    path = PATH
    qualname = "HasTraits._init_trait_delegate_listener.<locals>.notify"
    properties = ("C11",)
    class_paths = (PATH,)
    assumptions = ("A-PY", "trait_property_changed is the compiled notification entry (contract in contracts/c/notify.py), used as a summary")

    def configure(self, cx, I, ov):
        lg = lambda st, rec: st.gset("log", st.ghost.get("log", ()) + (rec,))
        cx.elem_attrs["trait_property_changed"] = lambda I2, o, st, k: k(VFunc("opaque", name="trait_property_changed", apply=lambda I3, a, kw, s, kk: kk(NONE, lg(s, ("tpc", tuple(a), dict(kw))))), st)

    def setup(self, cx, I, ov):
        self.name, self.target, self.suffix = z3.String("deferring_name"), z3.String("target_name"), z3.String("suffix")
        self.old, self.new = z3.Consts("old new", Val)
        closure = {"name": VStr(self.name), "target_name_len": VInt(z3.Length(self.target))}
        notify_name = z3.Concat(self.target, self.suffix)
        return St(), [VElem(z3.Const("self_object", Val)), VElem(z3.Const("delegate_object", Val)), VStr(notify_name), VElem(self.old), VElem(self.new)], {}, dict(
            closure_env=closure, witness={"target": self.target, "suffix": self.suffix},
            concretise=lambda m: dict(harness="delegate", family="link_notification"))

    def post(self, cx, I, ov, info, kind, payload, st):
        if kind == "raise":
            return [("exc-free", z3.BoolVal(False), dict(exception="%s %r" % (payload.cname or payload.sym, payload.origin)))]
        calls = [r for r in st.ghost.get("log", ()) if r[0] == "tpc"]
        out = [("post:the-change-is-reported-exactly-once", z3.BoolVal(len(calls) == 1))]
        if len(calls) == 1:
            a = calls[0][1]
            ok = len(a) == 3 and isinstance(a[0], VStr) and a[0].t is not None
            out.append(("post:reported-under-the-deferring-name-followed-by-the-same-suffix-for-every-target-name",
                        a[0].t == z3.Concat(self.name, self.suffix) if ok else z3.BoolVal(False)))
            out.append(("post:old-and-new-are-passed-on-unchanged", z3.And(as_val(cx, a[1], st) == self.old, as_val(cx, a[2], st) == self.new) if len(a) == 3 else z3.BoolVal(False)))
        return out

    def covers(self, cx, ov, info):
        return [("forwards", lambda k, p, s: k == "return")]


@register
class RemoveTraitDelegateListener(Contract):
    """HasTraits._remove_trait_delegate_listener(name, remove) -- what setattr_delegate calls after a LOCAL value was stored
    under a deferring attribute (remove=True: the link is broken, the forwarder must go) or deleted (remove=False: the link
    is restored, the forwarder must come back).
      remove, forwarder recorded : exactly one on_trait_change(<the recorded forwarder>, <listener name of (name, pattern)>,
                                   remove=True) on the object itself, the record deleted, the table dropped when empty
      remove, nothing recorded   : nothing is registered or unregistered, no record appears
      restore, nothing recorded  : exactly one _init_trait_delegate_listener(name, _, pattern) (contract above)
      restore, forwarder recorded: nothing (it is attached already)
    where pattern is the class's __listener_traits__[name][1]."""
    path = PATH
    qualname = "HasTraits._remove_trait_delegate_listener"
    properties = ("C11", "C19")
    class_paths = (PATH,)
    overloads = ("break/recorded", "break/not-recorded", "restore/not-recorded", "restore/recorded")
    assumptions = ("A-PY", "_trait_delegate_name through its lemma: here an arbitrary string", "on_trait_change and _init_trait_delegate_listener are used as summaries (contracts of their own)",
                   "self.__class__.__listener_traits__[name] is an opaque (kind, pattern) pair")

    def configure(self, cx, I, ov):
        log = lambda st, rec: st.gset("log", st.ghost.get("log", ()) + (rec,))
        consts = source.module_constants(PATH)
        self.LT = consts["ListenerTraits"]
        cx.module_globals["ListenerTraits"] = VStr(const=self.LT)
        self.pattern_name = z3.String("listener_name")
        self.pattern = z3.String("pattern")
        self.klass, self.ctable = z3.Consts("the_class class_listener_table", Val)
        outer = self

        class DelegateName(Contract):
            path = PATH
            qualname = "HasTraits._trait_delegate_name"

            def summary(self_, I2, self_ref, args, kwargs, st, k):
                return k(VStr(outer.pattern_name), log(st, ("_trait_delegate_name",) + tuple(args)))

        class OnTraitChange(Contract):
            path = PATH
            qualname = "HasTraits.on_trait_change"

            def summary(self_, I2, self_ref, args, kwargs, st, k):
                return k(NONE, log(st, ("on_trait_change", self_ref, tuple(args), dict(kwargs))))

        class InitListener(Contract):
            path = PATH
            qualname = "HasTraits._init_trait_delegate_listener"

            def summary(self_, I2, self_ref, args, kwargs, st, k):
                return k(NONE, log(st, ("_init_trait_delegate_listener", self_ref, tuple(args))))
        cx.contracts = dict(cx.contracts)
        cx.contracts[("HasTraits", "_trait_delegate_name")] = DelegateName()
        cx.contracts[("HasTraits", "on_trait_change")] = OnTraitChange()
        cx.contracts[("HasTraits", "_init_trait_delegate_listener")] = InitListener()
        cx.elem_attrs["__listener_traits__"] = lambda I2, o, st, k: k(VElem(self.ctable), st)

        def getitem_hook(I2, obj, key, st, k):
            if isinstance(obj, VElem) and obj.t.eq(self.ctable):
                return k(VTuple([VElem(z3.Const("delegate_kind", Val)), VStr(self.pattern)]), log(st, ("class-table-lookup", key)))
            return None
        cx.getitem_hook = getitem_hook

    def setup(self, cx, I, ov):
        st = St()
        self.self_ref = VRef(cx.new_oid())
        self.name = z3.String("name")
        self.T0 = z3.Const("listener_table", MapV)
        self.fwd = z3.Const("recorded_forwarder", Val)
        self.table_ref = VRef(cx.new_oid())
        st = st.put(self.table_ref.oid, HObj("dict", self.T0))
        st = st.put(self.self_ref.oid, HObj("obj", None, "HasTraits", {self.LT: self.table_ref, "__class__": VElem(self.klass)}))
        key = cx.box_str(self.name)
        if ov.endswith("/recorded"):
            st = st.assume(self.T0[key] == Opt.some(self.fwd))
        else:
            st = st.assume(self.T0[key] == Opt.none)
        self.others = z3.Bool("other_forwarders_recorded")
        k2 = z3.Const("k!other", Val)
        st = st.assume(self.others == z3.Exists([k2], z3.And(k2 != key, self.T0[k2] != Opt.none)))
        remove = VBool(z3.BoolVal(ov.startswith("break")))
        return st, [self.self_ref, VStr(self.name), remove], {}, dict(witness={"other forwarders recorded": self.others},
                                                                      concretise=lambda m: dict(harness="delegate", family="link_notification"))

    def post(self, cx, I, ov, info, kind, payload, st):
        if kind == "raise":
            return [("exc-free", z3.BoolVal(False), dict(exception="%s %r" % (payload.cname or payload.sym, payload.origin)))]
        log = st.ghost.get("log", ())
        regs = [r for r in log if r[0] == "on_trait_change"]
        inits = [r for r in log if r[0] == "_init_trait_delegate_listener"]
        key = cx.box_str(self.name)
        f = st.heap[self.self_ref.oid].fields.get(self.LT)
        T1 = st.heap[f.oid].payload if isinstance(f, VRef) else None
        k2 = z3.Const("k!frame", Val)
        out = []
        if ov == "break/recorded":
            out.append(("post:exactly-one-unregistration-and-no-installation", z3.BoolVal(len(regs) == 1 and not inits)))
            if len(regs) == 1:
                _t, who, args, kw = regs[0]
                allargs = dict(zip(("handler", "name", "remove", "dispatch", "priority", "deferred", "target"), args))
                allargs.update(kw)
                rm = allargs.get("remove")
                nm = allargs.get("name")
                out += [("post:on-the-object-itself", z3.BoolVal(isinstance(who, VRef) and who.oid == self.self_ref.oid)),
                        ("post:it-is-a-removal", z3.BoolVal(isinstance(rm, VBool) and z3.is_true(z3.simplify(rm.t)))),
                        ("post:of-the-recorded-forwarder", as_val(cx, allargs["handler"], st) == self.fwd if allargs.get("handler") is not None else z3.BoolVal(False)),
                        ("post:under-the-listener-name-of-the-deferred-trait", nm.t == self.pattern_name if isinstance(nm, VStr) and nm.t is not None else z3.BoolVal(False)),
                        ("post:the-listener-name-is-computed-from-name-and-the-class's-pattern", z3.BoolVal(any(
                            r[0] == "_trait_delegate_name" and isinstance(r[1], VStr) and r[1].t.eq(self.name) and isinstance(r[2], VStr) and r[2].t.eq(self.pattern) for r in log)))]
            if T1 is not None:
                out.append(("post:the-record-is-deleted-the-other-records-stay", z3.And(T1[key] == Opt.none, z3.ForAll([k2], z3.Implies(k2 != key, T1[k2] == self.T0[k2])))))
                out.append(("post:the-table-stays-while-other-forwarders-are-recorded", self.others))
            else:
                out.append(("post:the-table-is-dropped-only-when-it-became-empty", z3.Not(self.others)))
        elif ov in ("break/not-recorded", "restore/recorded"):
            out.append(("post:nothing-is-registered-unregistered-or-installed", z3.BoolVal(not regs and not inits)))
            out.append(("post:the-table-is-left-as-it-was", T1 == self.T0 if T1 is not None else z3.BoolVal(False)))
        else:
            out.append(("post:exactly-one-installation-and-no-unregistration", z3.BoolVal(len(inits) == 1 and not regs)))
            if len(inits) == 1:
                _t, who, args = inits[0]
                out += [("post:on-the-object-itself", z3.BoolVal(isinstance(who, VRef) and who.oid == self.self_ref.oid)),
                        ("post:for-this-name-with-the-class's-pattern", z3.And(args[0].t == self.name, args[2].t == self.pattern) if len(args) == 3 and isinstance(args[0], VStr) and isinstance(args[2], VStr) else z3.BoolVal(False))]
        return out

    def covers(self, cx, ov, info):
        return [("done", lambda k, p, s: k == "return")]
