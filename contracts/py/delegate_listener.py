"""C11: HasTraits._init_trait_delegate_listener -- how the forwarder of a deferred trait is installed.

'While linked, a change of the target attribute on the current delegate notifies handlers of the deferring attribute with
the new value': the forwarder has to be attached, at once, to the delegate object that is current NOW -- whatever way that
object is obtained (a stored value, a default not yet materialised, a computed attribute) -- and re-attached when the link
is restored (the same function is used).  So the registration

  * is one on_trait_change(forwarder, <listener name for (name, pattern)>, target=self) on the object itself,
  * is NOT deferred: a deferred registration waits for a change notification of the delegate attribute, which never comes
    for a computed delegate and is lost when the default is first materialised with notifications off,
  * is recorded under `name` in the object's listener table, so that breaking the link can remove exactly this forwarder;

and the forwarder reports a change of <target> on the delegate as a change of the deferring attribute: it calls
trait_property_changed(name + <what follows the target name>, old, new) once."""
import z3

from vc.unit import Contract, register
from vc.pyvc.values import *  # noqa: F401,F403
from vc.pyvc.core import HObj, St, as_val, raise_
from vc.pyvc import source

PATH = "traits/has_traits.py"


@register
class InitTraitDelegateListener(Contract):
    path = PATH
    qualname = "HasTraits._init_trait_delegate_listener"
    properties = ("C11",)
    class_paths = (PATH,)
    assumptions = ("A-PY", "_trait_delegate_name through its lemma (contracts/py/delegate_names.py): here an arbitrary string",
                   "on_trait_change is the legacy registration entry (C16), used as a summary")

    def configure(self, cx, I, ov):
        log = lambda st, rec: st.gset("log", st.ghost.get("log", ()) + (rec,))
        consts = source.module_constants(PATH)
        cx.module_globals["ListenerTraits"] = VStr(const=consts["ListenerTraits"])
        cx.module_globals["weak_arg"] = VFunc("opaque", name="weak_arg", apply=lambda I2, a, kw, st, k: k(VFunc("opaque", name="weak_arg-decorator", apply=lambda I3, a2, kw2, s, kk: kk(a2[0], s)), st))
        self.pattern_name = z3.String("listener_name")

        class DelegateName(Contract):
            path = PATH
            qualname = "HasTraits._trait_delegate_name"

            def summary(self_, I2, self_ref, args, kwargs, st, k):
                return k(VStr(self.pattern_name), log(st, ("_trait_delegate_name",) + tuple(args)))

        class OnTraitChange(Contract):
            path = PATH
            qualname = "HasTraits.on_trait_change"

            def summary(self_, I2, self_ref, args, kwargs, st, k):
                return k(NONE, log(st, ("on_trait_change", self_ref, tuple(args), dict(kwargs))))
        def setitem_hook(I2, obj, key, v, st, k):
            # <listener table>[name] = forwarder
            if isinstance(v, VFunc) and isinstance(key, VStr) and isinstance(obj, VRef):
                owner = [n for n, f in st.heap[self.self_ref.oid].fields.items() if isinstance(f, VRef) and f.oid == obj.oid]
                return k(NONE, st.gset("table_store", (key.t, v, tuple(owner))))
            return None
        cx.setitem_hook = setitem_hook
        cx.contracts = dict(cx.contracts)
        cx.contracts[("HasTraits", "_trait_delegate_name")] = DelegateName()
        cx.contracts[("HasTraits", "on_trait_change")] = OnTraitChange()

    def setup(self, cx, I, ov):
        st = St()
        self.self_ref = VRef(cx.new_oid())
        st = st.put(self.self_ref.oid, HObj("obj", None, "HasTraits", {}))
        self.name, self.pattern = z3.String("name"), z3.String("pattern")
        return st, [self.self_ref, VStr(self.name), VElem(z3.Const("kind", Val)), VStr(self.pattern)], {}, dict(witness={}, concretise=lambda m: dict(harness="delegate", family="link_notification"))

    def post(self, cx, I, ov, info, kind, payload, st):
        if kind == "raise":
            return [("exc-free", z3.BoolVal(False), dict(exception="%s %r" % (payload.cname or payload.sym, payload.origin)))]
        log = st.ghost.get("log", ())
        regs = [r for r in log if r[0] == "on_trait_change"]
        out = [("post:exactly-one-registration", z3.BoolVal(len(regs) == 1))]
        if len(regs) != 1:
            return out
        _t, who, args, kw = regs[0]
        allargs = dict(zip(("handler", "name", "remove", "dispatch", "priority", "deferred", "target"), args))
        allargs.update(kw)

        def falsy(v):
            return v is None or isinstance(v, VNone) or (isinstance(v, VBool) and z3.is_false(z3.simplify(v.t)))
        out.append(("post:registered-on-the-object-itself", z3.BoolVal(isinstance(who, VRef) and who.oid == self.self_ref.oid)))
        nm = allargs.get("name")
        out.append(("post:registered-under-the-listener-name-of-the-deferred-trait", nm.t == self.pattern_name if isinstance(nm, VStr) and nm.t is not None else z3.BoolVal(False)))
        out.append(("post:the-listener-name-is-computed-from-name-and-pattern", z3.BoolVal(any(
            r[0] == "_trait_delegate_name" and isinstance(r[1], VStr) and r[1].t.eq(self.name) and isinstance(r[2], VStr) and r[2].t.eq(self.pattern) for r in log))))
        out.append(("post:the-forwarder-is-attached-at-once-not-deferred", z3.BoolVal(falsy(allargs.get("deferred")))))
        out.append(("post:it-is-an-addition-not-a-removal", z3.BoolVal(falsy(allargs.get("remove")))))
        tg = allargs.get("target")
        out.append(("post:the-forwarder-lives-as-long-as-the-object", z3.BoolVal(isinstance(tg, VRef) and tg.oid == self.self_ref.oid)))
        h = allargs.get("handler")
        out.append(("post:the-handler-registered-is-the-forwarder", z3.BoolVal(isinstance(h, VFunc) and h.kind == "lambda" and getattr(h, "name", "") == "notify")))
        # recorded in the listener table under `name`
        d = st.heap[self.self_ref.oid].fields.get(source.module_constants(PATH)["ListenerTraits"])
        if isinstance(d, VRef) and h is not None:
            table = st.heap[d.oid].payload
            rec_ok = table[cx.box_str(self.name)] == Opt.some(as_val(cx, h, st))
        else:
            rec_ok = z3.BoolVal(False)
        out.append(("post:the-forwarder-is-recorded-under-the-trait-name-for-later-removal", rec_ok))
        return out

    def covers(self, cx, ov, info):
        return [("installs", lambda k, p, s: k == "return")]
