"""C01: String.validate_str / validate_len / validate_regex / validate_all -- 'string length/regex'.

String._init (contract in string_state.py) selects one of the four by (regex, minlen, maxlen); each must enforce exactly the
criteria it is selected for:
  * the value stored is strx(value) -- the conversion of trait_base.strx (str-like values only) -- never the raw value;
  * validate_len / validate_all: minlen <= len(result) <= maxlen;   validate_regex / validate_all: self.match(result) is not None;
  * accepted IFF the conversion succeeds and every selected criterion holds; anything else -- also an exception raised by the
    conversion or by the matcher -- is the TraitError of self.error(object, name, ...) naming object and attribute."""
import z3

from vc.unit import Contract, register
from vc.pyvc.values import *  # noqa: F401,F403
from vc.pyvc.core import HObj, St, as_val, raise_

PATH = "traits/trait_types.py"
matched = z3.Function("regex_matches", StrS, z3.BoolSort())


class _Error(Contract):
    path = "traits/base_trait_handler.py"
    qualname = "BaseTraitHandler.error"

    def summary(self, I, self_ref, args, kwargs, st, k):
        return raise_(st, "TraitError", origin=("self.error",) + tuple(args))


def _mk(method, use_len, use_regex):
    class _V(Contract):
        path = PATH
        qualname = "String." + method
        properties = ("C01",)
        class_paths = (PATH, "traits/trait_type.py", "traits/base_trait_handler.py")
        assumptions = ("A-PY", "strx(value): the text of a str-like value, or an exception; self.match(text): a match object or None, or an exception",
                       "BaseTraitHandler.error always raises TraitError (summary)")

        def configure(self, cx, I, ov):
            cx.const("None")
            self.text = z3.String("strx_of_value")
            self.conv_ok, self.match_raises = z3.Bool("value_is_str_like"), z3.Bool("matcher_raises")
            self.minlen, self.maxlen = z3.Ints("minlen maxlen")

            def strx(I2, fv, args, kwargs, st, k):
                if fv.name != "strx":
                    return None
                e = I2.cx.fresh("conv_exc", Exc)
                return I2.cx.branch(st.gset("converted", st.ghost.get("converted", 0) + 1), self.conv_ok, lambda s: k(VStr(self.text), s),
                                    lambda s: [("raise", VExc(sym=e, origin=("strx",)), s.assume(*I2.cx.exc_axioms(e)))])
            cx.repo_call_hook = strx

            def match_apply(I2, a, kw, st, k):
                t = a[0].t if isinstance(a[0], VStr) and a[0].t is not None else None
                if t is None:
                    raise Unsupported("match of %r" % (a[0],))
                e = I2.cx.fresh("match_exc", Exc)
                m = I2.cx.fresh("match_object", Val)
                st2 = st.gset("matched_on", st.ghost.get("matched_on", ()) + (t,))
                return I2.cx.branch(st2, self.match_raises, lambda s: [("raise", VExc(sym=e, origin=("match",)), s.assume(*I2.cx.exc_axioms(e)))],
                                    lambda s: I2.cx.branch(s, matched(t), lambda s2: k(VElem(m), s2.assume(m != I2.cx.const("None").t)), lambda s2: k(NONE, s2)))
            self.match_fn = VFunc("opaque", name="self.match", apply=match_apply)
            cx.contracts = dict(cx.contracts)
            cx.contracts[("BaseTraitHandler", "error")] = _Error()

        def setup(self, cx, I, ov):
            st = St().assume(0 <= self.minlen, self.minlen <= self.maxlen)          # String.__init__ normalises the bounds
            self_ref = VRef(cx.new_oid())
            st = st.put(self_ref.oid, HObj("obj", None, "String", {"minlen": VInt(self.minlen), "maxlen": VInt(self.maxlen), "match": self.match_fn}))
            self.obj, self.value = z3.Consts("object value", Val)
            self.name = z3.String("name")
            return st, [self_ref, VElem(self.obj), VStr(self.name), VElem(self.value)], {}, dict(
                witness={"len(strx(value))": z3.Length(self.text), "minlen": self.minlen, "maxlen": self.maxlen, "matches": matched(self.text)})

        def post(self, cx, I, ov, info, kind, payload, st):
            n = z3.Length(self.text)
            crit = [self.conv_ok]
            if use_len:
                crit.append(z3.And(self.minlen <= n, n <= self.maxlen))
            if use_regex:
                crit.append(z3.And(z3.Not(self.match_raises), matched(self.text)))
            domain = z3.And(*crit)
            if kind == "return":
                ok_text = isinstance(payload, VStr) and payload.t is not None
                return [("post:accepted-only-inside-the-declared-domain", domain if not use_regex else z3.And(self.conv_ok, *crit[1:-1], matched(self.text))),
                        ("post:what-is-stored-is-the-text-of-the-value", payload.t == self.text if ok_text else z3.BoolVal(False)),
                        ("post:the-regex-is-applied-to-the-converted-text", z3.And(*[t == self.text for t in st.ghost.get("matched_on", ())]) if st.ghost.get("matched_on") else z3.BoolVal(not use_regex or True)),
                        ("post:one-conversion", z3.BoolVal(st.ghost.get("converted", 0) == 1))]
            err = payload.cname == "TraitError" and bool(payload.origin) and payload.origin[0] == "self.error"
            out = [("raise:a-rejection-is-the-TraitError-of-self.error", z3.BoolVal(bool(err)), dict(exception="%s %r" % (payload.cname or payload.sym, payload.origin))),
                   ("raise:only-a-value-outside-the-declared-domain-is-rejected", z3.Not(domain))]
            if err:
                _t, o, nm, v = payload.origin
                out.append(("raise:the-error-names-the-object-and-the-attribute", z3.And(as_val(cx, o, st) == self.obj, nm.t == self.name if isinstance(nm, VStr) and nm.t is not None else z3.BoolVal(False))))
            return out

        def covers(self, cx, ov, info):
            return [("accepts", lambda k, p, s: k == "return"), ("rejects", lambda k, p, s: k == "raise")]
    _V.__name__ = "String_" + method
    return register(_V)


_mk("validate_str", False, False)
_mk("validate_len", True, False)
_mk("validate_regex", False, True)
_mk("validate_all", True, True)
