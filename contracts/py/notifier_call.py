"""C08 / C09 / C02: the __call__ of the two observer notifiers (what an observable invokes when it changes).

'a change to a trait matched by the expression calls the handler exactly once iff the changed object is currently reachable'
(C08); 'Registrations never keep the observed object or a bound-method handler's owner alive, and after either has been
garbage-collected no change raises or calls anything' (C09); 'an exception raised inside one handler neither undoes the
assignment nor prevents any other handler from being called' (C02):

  * the notifier is disabled EXACTLY when its target or its handler is gone -- the weak reference returns None.  A live target
    that merely has a false truth value (an empty collection-like object) is alive: the test is identity with None;
  * otherwise the event is built once from the arguments handed in; if prevent_event(event) the call ends there;
  * ObserverChangeNotifier: observer_handler(event, graph, target, handler, dispatcher) is run exactly once, with the
    notifier's own graph and dispatcher -- it maintains the downstream hooks; what it raises propagates (library code);
  * TraitEventNotifier: dispatcher(handler, event) exactly once; any Exception of the user's handler goes to
    handle_exception(event) and the call returns normally."""
import z3

from vc.unit import Contract, register
from vc.pyvc.values import *  # noqa: F401,F403
from vc.pyvc.core import HObj, St, as_val, raise_

truth_of = z3.Function("truth_value_of", Val, z3.BoolSort())


class _NotifierCall(Contract):
    properties = ("C08", "C09", "C02")
    assumptions = ("A-PY", "weak references: calling one yields the referent or None", "an object's truth value is independent of its being None "
                   "or not (an arbitrary predicate on live objects; None is false)", "event_factory / prevent_event / dispatcher / "
                   "observer_handler are opaque callables of the notifier")
    user_handler = False

    def configure(self, cx, I, ov):
        NONE_T = cx.const("None").t
        self.target, self.handler, self.event = z3.Consts("live_target live_handler event_built", Val)
        self.target_alive, self.handler_alive, self.prevented = z3.Bool("target_alive"), z3.Bool("handler_alive"), z3.Bool("event_prevented")
        cx.elem_truth = lambda t: z3.And(t != NONE_T, truth_of(t))
        log = lambda st, rec: st.gset("log", st.ghost.get("log", ()) + (rec,))
        self.log = log

        def weak(name, term, alive):
            return VFunc("opaque", name=name, apply=lambda I2, a, kw, st, k: I2.cx.branch(log(st, (name,)), alive, lambda s: k(VElem(term), s), lambda s: k(NONE, s)))
        self.fields = {
            "target": weak("target()", self.target, self.target_alive), "handler": weak("handler()", self.handler, self.handler_alive),
            "event_factory": VFunc("opaque", name="event_factory", apply=lambda I2, a, kw, st, k: k(VElem(self.event), log(st, ("event_factory", tuple(a), dict(kw))))),
            "prevent_event": VFunc("opaque", name="prevent_event", apply=lambda I2, a, kw, st, k: k(VBool(self.prevented), log(st, ("prevent_event", tuple(a))))),
            "graph": VElem(z3.Const("notifier_graph", Val)), "dispatcher": None, "observer_handler": None}

        def failing(name):
            def apply(I2, a, kw, st, k):
                st2 = log(st, (name, tuple(a), dict(kw)))
                e = I2.cx.fresh("exc", Exc)
                fails = I2.cx.fresh(name + "_raises", z3.BoolSort())
                ax = list(I2.cx.exc_axioms(e)) + ([I2.cx.exc_isa_sym(e, "Exception")] if self.user_handler else [])
                return I2.cx.branch(st2, fails, lambda s: [("raise", VExc(sym=e, origin=(name,)), s.assume(*ax))], lambda s: k(NONE, s))
            return VFunc("opaque", name=name, apply=apply)
        self.fields["dispatcher"] = failing("dispatcher") if self.user_handler else VElem(z3.Const("notifier_dispatcher", Val))
        self.fields["observer_handler"] = failing("observer_handler")
        cx.module_globals["handle_exception"] = VFunc("opaque", name="handle_exception", apply=lambda I2, a, kw, st, k: k(NONE, log(st, ("handle_exception", tuple(a)))))

    def setup(self, cx, I, ov):
        NONE_T = cx.const("None").t
        st = St().assume(self.target != NONE_T, self.handler != NONE_T)
        self_ref = VRef(cx.new_oid())
        st = st.put(self_ref.oid, HObj("obj", None, self.qualname.split(".")[0], dict(self.fields)))
        self.a0, self.a1 = z3.Consts("arg0 arg1", Val)
        return st, [self_ref, VElem(self.a0), VElem(self.a1)], {}, dict(witness={"target is falsy but alive": z3.And(self.target_alive, z3.Not(truth_of(self.target))),
                                                                               "handler is falsy but alive": z3.And(self.handler_alive, z3.Not(truth_of(self.handler)))},
                                                                      concretise=lambda m: dict(harness="observe", family="falsy_root"))

    def common(self, cx, kind, payload, st, acted_name):
        log = st.ghost.get("log", ())
        built = [r for r in log if r[0] == "event_factory"]
        acted = [r for r in log if r[0] == acted_name]
        alive = z3.And(self.target_alive, self.handler_alive)
        out = [("post:the-event-is-built-at-most-once-and-only-for-a-live-notifier", z3.And(z3.BoolVal(len(built) <= 1), z3.Implies(z3.BoolVal(len(built) == 1), alive))),
               ("post:acts-exactly-when-target-and-handler-are-alive-and-the-event-is-not-prevented", z3.BoolVal(len(acted) == 1) == z3.And(alive, z3.Not(self.prevented))),
               ("post:acts-at-most-once", z3.BoolVal(len(acted) <= 1))]
        if built:
            a, kw = built[0][1], built[0][2]
            out.append(("post:the-event-is-built-from-the-arguments-handed-in", z3.BoolVal(
                len(a) == 2 and not kw and isinstance(a[0], VElem) and a[0].t.eq(self.a0) and isinstance(a[1], VElem) and a[1].t.eq(self.a1))))
        return out, acted


@register
class ObserverChangeNotifierCall(_NotifierCall):
    path = "traits/observation/_observer_change_notifier.py"
    qualname = "ObserverChangeNotifier.__call__"
    class_paths = ("traits/observation/_observer_change_notifier.py",)

    def post(self, cx, I, ov, info, kind, payload, st):
        out, acted = self.common(cx, kind, payload, st, "observer_handler")
        if kind == "raise":
            out.append(("raise:only-the-maintainer-itself-raises", z3.BoolVal(bool(payload.origin) and payload.origin[0] == "observer_handler")))
        if acted:
            kw = acted[0][2]
            ok = (not acted[0][1] and set(kw) == {"event", "graph", "target", "handler", "dispatcher"}
                  and as_val(cx, kw["event"], st).eq(self.event) and as_val(cx, kw["target"], st).eq(self.target) and as_val(cx, kw["handler"], st).eq(self.handler)
                  and as_val(cx, kw["graph"], st).eq(z3.Const("notifier_graph", Val)) and as_val(cx, kw["dispatcher"], st).eq(z3.Const("notifier_dispatcher", Val)))
            out.append(("post:maintains-with-the-event-its-own-graph-the-live-target-and-handler-and-its-dispatcher", z3.BoolVal(bool(ok))))
        return out

    def covers(self, cx, ov, info):
        return [("maintains", lambda k, p, s: k == "return" and any(r[0] == "observer_handler" for r in s.ghost.get("log", ()))),
                ("disabled", lambda k, p, s: k == "return" and not any(r[0] == "event_factory" for r in s.ghost.get("log", ())))]


@register
class TraitEventNotifierCall(_NotifierCall):
    path = "traits/observation/_trait_event_notifier.py"
    qualname = "TraitEventNotifier.__call__"
    class_paths = ("traits/observation/_trait_event_notifier.py",)
    user_handler = True

    def post(self, cx, I, ov, info, kind, payload, st):
        if kind == "raise":
            return [("exc-free:a-failing-handler-never-escapes-the-notifier", z3.BoolVal(False), dict(exception="%s %r" % (payload.cname or payload.sym, payload.origin)))]
        out, acted = self.common(cx, kind, payload, st, "dispatcher")
        if acted:
            a = acted[0][1]
            out.append(("post:the-user-handler-is-dispatched-with-the-event", z3.BoolVal(len(a) == 2 and as_val(cx, a[0], st).eq(self.handler) and as_val(cx, a[1], st).eq(self.event))))
        hx = [r for r in st.ghost.get("log", ()) if r[0] == "handle_exception"]
        out.append(("post:the-exception-handler-is-consulted-only-for-a-failing-dispatch", z3.BoolVal(len(hx) <= 1 and (not hx or bool(acted)))))
        return out

    def covers(self, cx, ov, info):
        return [("delivers", lambda k, p, s: k == "return" and any(r[0] == "dispatcher" for r in s.ghost.get("log", ()))),
                ("disabled", lambda k, p, s: k == "return" and not any(r[0] == "event_factory" for r in s.ghost.get("log", ()))),
                ("contains-a-failing-handler", lambda k, p, s: k == "return" and any(r[0] == "handle_exception" for r in s.ghost.get("log", ())))]
