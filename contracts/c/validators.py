"""Contracts for the compiled fast validators of traits/ctraits.c (C03, C01, C18).

spec_float_range is written from the property statement ("range and bound exclusivity", IEEE comparison):
a value is accepted iff (low is None or low < v [exclusive] / low <= v [inclusive]) and the same for high.
Both the C validator and the Python BaseRange.float_validate are proved against it."""
import z3

from vc.unit import CContract, register
from vc.cvc.core import Obj, NULL, INT, F64, EXC, CSt
from vc.cvc import api as A
from spec import validators as S


def spec_float_range(v, low, high, mask):
    """v: FP term; low/high: Obj (None or float objects); mask: any Int, bit 0 = exclude low, bit 1 = exclude high.
    The declared domain itself is S.in_float_range, the formula the Python BaseRange.float_validate is proved against."""
    exl, exh = (mask % 2) == 1, ((mask / 2) % 2) == 1
    return S.in_float_range(v, low == A.NONE, A.float_val(low), exl, high == A.NONE, A.float_val(high), exh)


def wf_float_range_info(info):
    """well-formedness of a float-range descriptor, exactly what _trait_set_validate checks before installing the
    validator: (kind, low, high, exclude_mask) with low/high None or float instances and exclude_mask an int"""
    low, high, m = A.tuple_item(info, 1), A.tuple_item(info, 2), A.tuple_item(info, 3)
    return z3.And(A.is_inst(info, "PyTuple_Type"), A.tuple_len(info) == 4,
                  z3.Or(low == A.NONE, A.is_inst(low, "PyFloat_Type")), z3.Or(high == A.NONE, A.is_inst(high, "PyFloat_Type")),
                  A.is_inst(m, "PyLong_Type"))


def fp_witness(v):
    return {"value(float)": v, "value.isNaN": z3.fpIsNaN(v)}


@register
class InFloatRange(CContract):
    qualname = "in_float_range"
    properties = ("C03", "C01", "C18")
    assumptions = ("A-API", "A-INT", "IEEE-754 binary64 semantics of C double comparisons")

    def c_setup(self, cx, ex, ov):
        value, rinfo = z3.Consts("value range_info", Obj)
        st = CSt().assume(value != NULL, rinfo != NULL, A.is_exact(value, "PyFloat_Type"), A.is_inst(value, "PyFloat_Type"),
                          wf_float_range_info(rinfo))
        v = A.float_val(value)
        low, high = A.tuple_item(rinfo, 1), A.tuple_item(rinfo, 2)
        w = {"value": v, "value.isNaN": z3.fpIsNaN(v), "low.is_None": low == A.NONE, "low": A.float_val(low),
             "high.is_None": high == A.NONE, "high": A.float_val(high), "exclude_mask": A.long_val(A.tuple_item(rinfo, 3))}

        def conc(m):
            def fl(t):
                x = m.eval(t, model_completion=True)
                s = str(x)
                if "NaN" in s:
                    return "nan"
                if "oo" in s:
                    return "-inf" if s.startswith("-") else "inf"
                try:
                    return repr(float(z3.simplify(z3.fpToReal(x)).as_decimal(17).rstrip("?")))
                except Exception:
                    return s
            ev = lambda t: m.eval(t, model_completion=True)
            return dict(harness="cvalidators", family="float_range", value=fl(v),
                        low=None if z3.is_true(ev(low == A.NONE)) else fl(A.float_val(low)),
                        high=None if z3.is_true(ev(high == A.NONE)) else fl(A.float_val(high)),
                        exclude_mask=ev(A.long_val(A.tuple_item(rinfo, 3))).as_long())
        return st, [value, rinfo], dict(value=value, rinfo=rinfo, witness=w, concretise=conc)

    def c_post(self, cx, ex, ov, info, ret, st):
        value, rinfo = info["value"], info["rinfo"]
        spec = spec_float_range(A.float_val(value), A.tuple_item(rinfo, 1), A.tuple_item(rinfo, 2), A.long_val(A.tuple_item(rinfo, 3)))
        fits = A.long_fits(A.tuple_item(rinfo, 3))
        return [("post:spec_float_range", z3.Implies(fits, z3.And(z3.Or(ret == 0, ret == 1), (ret == 1) == spec))),
                ("post:no-error-set", z3.Implies(fits, st.exc == 0)),
                ("post:oversized-mask-is-OverflowError", z3.Implies(z3.Not(fits), z3.And(ret == -1, st.exc == EXC["OverflowError"])))]

    def covers(self, cx, ov, info):
        return [("accepts", lambda r, s: r == 1), ("rejects", lambda r, s: r == 0)]


# ---------------------------------------------------------------------------------------------
# the validate_trait_* family
# ---------------------------------------------------------------------------------------------

def error_method_hook(api, rec, st, k):
    """handler.error(object, name, value): the Python-side contract of BaseTraitHandler.error (C01): it always
    raises TraitError naming the attribute.  (It runs Python code: A-HAVOC applies.)"""
    if rec[2] != "error":
        return None
    s1 = api.havoc(st, "handler.error")
    return k(NULL, s1.with_exc(EXC["TraitError"]).log(("trait-error", rec[3])))


def in_float_range_summary(ex, args, st, k):
    """call-site use of the contract of in_float_range (InFloatRange above): precondition checked, result by spec"""
    value, rinfo = args
    st = ex.cx.require(st, z3.And(value != NULL, A.is_inst(value, "PyFloat_Type"), wf_float_range_info(rinfo)),
                       "pre@in_float_range:exact-float-and-well-formed-descriptor")
    r = ex.cx.fresh("in_range", INT)
    spec = spec_float_range(A.float_val(value), A.tuple_item(rinfo, 1), A.tuple_item(rinfo, 2), A.long_val(A.tuple_item(rinfo, 3)))
    fits = A.long_fits(A.tuple_item(rinfo, 3))
    return ex.cx.branch(st, fits, lambda s: k(r, s.assume(z3.Or(r == 0, r == 1), (r == 1) == spec)),
                        lambda s: k(z3.IntVal(-1), s.with_exc(EXC["OverflowError"])))


def own_neutral(st, info, ret):
    """C18: every reference taken is given back, except the one returned"""
    if st.own is None:
        return []
    o = z3.Const("o!own", Obj)
    return [("own:reference-neutral", z3.ForAll([o], st.own[o] == info["own0"][o] + z3.If(z3.And(o == ret, ret != NULL, z3.Not(A.immortal(ret))), 1, 0)),
             {}, ("C18",))]


def no_stores(st):
    return [("frame:validation-stores-nothing", z3.BoolVal(not any(r[0] == "store" for r in st.trace)))]


class FastValidator(CContract):
    descriptor_is_tuple = True
    properties = ("C03", "C01", "C19")
    own = True
    side_props = {"valid-deref": ("C18",), "bounds": ("C18",)}
    assumptions = ("A-API", "A-HAVOC", "A-INT", "A-ALLOC", "handler.error always raises TraitError (Python contract)")

    def configure(self, cx, ex, ov):
        cx.callmethod_hook = error_method_hook
        cx.summaries["in_float_range"] = in_float_range_summary
        trait = z3.Const("trait", Obj)

        def keep(api, before, after):
            """A-CB(trait-definition-stable): Python code run while a value is being validated (its __float__,
            __instancecheck__, __eq__ ...) does not modify the trait definition object doing the validation."""
            fs = []
            for f in ("py_validate", "handler", "validate", "flags", "default_value_type"):
                fs.append(api.ex.field_array(after, f)[trait] == api.ex.field_array(before, f)[trait])
            return after.assume(*fs)
        cx.havoc_keeps = keep

    def wf(self, tinfo, trait, obj, value):
        return z3.BoolVal(True)

    def c_setup(self, cx, ex, ov):
        trait, obj, name, value = z3.Consts("trait obj name value", Obj)
        st = CSt()
        tinfo = ex.field_array(st, "py_validate")[trait]
        handler = ex.field_array(st, "handler")[trait]
        st = st.assume(trait != NULL, obj != NULL, name != NULL, value != NULL, tinfo != NULL, handler != NULL,
                       A.is_inst(tinfo, "PyTuple_Type") if self.descriptor_is_tuple else z3.BoolVal(True),
                       self.wf(tinfo, trait, obj, value))
        info = dict(trait=trait, obj=obj, name=name, value=value, tinfo=tinfo,
                    witness={"value.type": A.type_of(value), "value.is_None": value == A.NONE, "descriptor.len": A.tuple_len(tinfo)})
        return st, [trait, obj, name, value], info

    def spec(self, info, ret, st):
        """-> list of clauses"""
        raise NotImplementedError

    def c_post(self, cx, ex, ov, info, ret, st):
        out = [("post:NULL-iff-error-indicator-set", (ret == NULL) == (st.exc != 0))]
        out += self.spec(info, ret, st)
        out += own_neutral(st, info, ret)
        out += no_stores(st)
        return out

    def covers(self, cx, ov, info):
        return [("accepts", lambda r, s: r != NULL), ("rejects-with-TraitError", lambda r, s: z3.And(r == NULL, s.exc == EXC["TraitError"]))]


def same_object(ret, value):
    return z3.Implies(ret != NULL, ret == value)


@register
class ValidateTraitType(FastValidator):
    qualname = "validate_trait_type"

    def wf(self, tinfo, trait, obj, value):
        n = A.tuple_len(tinfo)
        return z3.Or(n == 2, n == 3)

    def spec(self, info, ret, st):
        tinfo, value = info["tinfo"], info["value"]
        n = A.tuple_len(tinfo)
        accept = z3.Or(z3.And(n == 3, value == A.NONE), A.subtype(A.type_of(value), A.tuple_item(tinfo, n - 1)))
        return [("post:accepts-iff-exact-type-test-or-allowed-None", (ret != NULL) == accept),
                ("post:stores-the-value-itself", same_object(ret, value)),
                ("post:rejection-is-TraitError", z3.Implies(ret == NULL, st.exc == EXC["TraitError"]))]


@register
class ValidateTraitInstance(FastValidator):
    qualname = "validate_trait_instance"

    def wf(self, tinfo, trait, obj, value):
        n = A.tuple_len(tinfo)
        return z3.Or(n == 2, n == 3)

    def spec(self, info, ret, st):
        tinfo, value = info["tinfo"], info["value"]
        n = A.tuple_len(tinfo)
        isi = z3.Function("isinstance_result", Obj, Obj, INT)(value, A.tuple_item(tinfo, n - 1))
        accept = z3.Or(z3.And(n == 3, value == A.NONE), isi > 0)
        return [("post:accepts-iff-isinstance-or-allowed-None", (ret != NULL) == accept),
                ("post:stores-the-value-itself", same_object(ret, value)),
                ("post:rejection-is-TraitError", z3.Implies(ret == NULL, st.exc == EXC["TraitError"]))]


@register
class ValidateTraitSelfType(FastValidator):
    qualname = "validate_trait_self_type"

    def wf(self, tinfo, trait, obj, value):
        n = A.tuple_len(tinfo)
        return z3.Or(n == 1, n == 2)

    def spec(self, info, ret, st):
        tinfo, value, obj = info["tinfo"], info["value"], info["obj"]
        accept = z3.Or(z3.And(A.tuple_len(tinfo) == 2, value == A.NONE), A.subtype(A.type_of(value), A.type_of(obj)))
        o = c_obs(info, ret, st)
        o.inst = lambda x, tn: A.subtype(A.type_of(x), A.type_of(obj))          # tn = '<type(object)>'
        # This() installs (self_type, None) and validates with This.validate_none; This(allow_none=False) installs
        # (self_type,) and validates with This.validate: one shared spec, None allowed iff the descriptor has two items
        return [("post:accepts-iff-same-type-as-owner-or-allowed-None", (ret != NULL) == accept),
                ("post:stores-the-value-itself", same_object(ret, value)),
                ("post:rejection-is-TraitError", z3.Implies(ret == NULL, st.exc == EXC["TraitError"]))] + \
            shared(S.spec_instance_of(o, ["<type(object)>"], none_ok=z3.And(A.tuple_len(tinfo) == 2, value == A.NONE)))


@register
class ValidateTraitEnum(FastValidator):
    qualname = "validate_trait_enum"

    def wf(self, tinfo, trait, obj, value):
        return A.tuple_len(tinfo) == 2

    def spec(self, info, ret, st):
        tinfo, value = info["tinfo"], info["value"]
        member = z3.Function("contains_result", Obj, Obj, INT)(A.tuple_item(tinfo, 1), value) > 0
        return [("post:accepts-iff-member-of-the-enumeration", (ret != NULL) == member),
                ("post:stores-the-value-itself", same_object(ret, value)),
                ("post:rejection-is-TraitError", z3.Implies(ret == NULL, st.exc == EXC["TraitError"]))]


@register
class ValidateTraitMap(FastValidator):
    qualname = "validate_trait_map"

    def wf(self, tinfo, trait, obj, value):
        return A.tuple_len(tinfo) == 2

    def spec(self, info, ret, st):
        tinfo, value = info["tinfo"], info["value"]
        d = A.tuple_item(tinfo, 1)
        found = z3.And(z3.Not(z3.Function("dict_lookup_raises", Obj, Obj, z3.BoolSort())(d, value)),
                       z3.Function("dict_lookup_result", Obj, Obj, Obj)(d, value) != NULL)
        return [("post:accepts-iff-key-of-the-map", (ret != NULL) == found),
                ("post:stores-the-value-itself", same_object(ret, value)),
                ("post:rejection-is-TraitError", z3.Implies(ret == NULL, st.exc == EXC["TraitError"]))]


# ---------------------------------------------------------------------------------------------
# the per-kind specification shared with the Python validate methods (spec/validators.py)
# ---------------------------------------------------------------------------------------------
C_TYPES = {"int": "PyLong_Type", "float": "PyFloat_Type", "complex": "PyComplex_Type", "str": "PyUnicode_Type", "bytes": "PyBytes_Type", "bool": "PyBool_Type"}


def c_obs(info, ret, st, conv_type_obj=None):
    """the observation of one path of a compiled validator in the vocabulary of spec/validators.py"""
    o = type("Obs", (), {})()
    o.side = "c"
    o.value = info["value"]
    o.accepted = ret != NULL
    rejected_by_error = z3.BoolVal(any(r[0] == "trait-error" for r in st.trace))
    o.trait_error = z3.And(ret == NULL, st.exc == EXC["TraitError"], rejected_by_error)
    o.propagated = z3.And(ret == NULL, z3.Not(z3.And(st.exc == EXC["TraitError"], rejected_by_error)))
    o.result = ret
    o.same = lambda a, b: a == b
    o.exact = lambda x, tn: A.is_exact(x, C_TYPES[tn])
    o.inst = lambda x, tn: A.is_inst(x, C_TYPES[tn])
    o.is_none = lambda x: x == A.NONE
    o.conv = []
    for r in st.trace:
        if r[0] == "proto":
            _t, what, arg, ok, res, e = r
            o.conv.append(S.Conv(what, arg, ok, result=res, is_type_error=(e == EXC["TypeError"]) if e is not None else None,
                                 is_value_error=(e == EXC["ValueError"]) if e is not None else None, exc=e))
    calls = [r for r in st.trace if r[0] == "call"]
    for c in calls:
        res, e = st.ghost.get("last_call_result"), st.ghost.get("last_call_exc")
        ok = res is not None and c is calls[-1] or c is not calls[-1]
        ev = S.Conv("call-type", A.tuple_item(c[2], z3.IntVal(0)), bool(ok), result=res if ok else None,
                    is_type_error=(e == EXC["TypeError"]) if (not ok and e is not None) else None,
                    is_value_error=(e == EXC["ValueError"]) if (not ok and e is not None) else None, exc=e if not ok else None)
        ev.callee, ev.nargs = c[1], A.tuple_len(c[2])
        o.conv.append(ev)

    def carries(result, ev):
        if ev.what == "float":
            return z3.And(A.is_exact(result, "PyFloat_Type"), A.float_val(result) == ev.result)
        return result == ev.result
    o.carries = carries
    o.error_is = lambda ev: st.exc == ev.exc          # the C model tracks the class of the pending exception
    o.conv_type_is = lambda ev, tn: z3.And(ev.callee == conv_type_obj, ev.nargs == 1) if conv_type_obj is not None else z3.BoolVal(False)
    o.equal_bool = lambda a, b: a == b
    o.same_number = lambda a, b: A.float_val(a) == A.float_val(b)
    return o


def shared(clauses):
    return [(n.replace("spec:", "post:spec:"),) + tuple(rest) for (n, *rest) in clauses]


def float_result_clauses(info, ret, st):
    value = info["value"]
    exact = A.is_exact(value, "PyFloat_Type")
    return [("post:exact-float-stored-as-is", z3.Implies(z3.And(exact, ret != NULL, info.get("always_accepts_exact", z3.BoolVal(True))), ret == value)),
            ("post:result-has-exact-type-float", z3.Implies(ret != NULL, A.is_exact(ret, "PyFloat_Type"))),
            ("post:TypeError-of-the-conversion-becomes-TraitError", z3.Implies(ret == NULL, st.exc != EXC["TypeError"]))]


@register
class ValidateTraitFloat(FastValidator):
    qualname = "validate_trait_float"

    def spec(self, info, ret, st):
        value = info["value"]
        return float_result_clauses(info, ret, st) + [
            ("post:every-exact-float-accepted", z3.Implies(A.is_exact(value, "PyFloat_Type"), ret == value))] + \
            shared(S.spec_float(c_obs(info, ret, st)))

    def covers(self, cx, ov, info):
        return [("accepts", lambda r, s: r != NULL), ("rejects-with-TraitError", lambda r, s: z3.And(r == NULL, s.exc == EXC["TraitError"])),
                ("propagates-the-conversion-error", lambda r, s: z3.And(r == NULL, s.exc != EXC["TraitError"]))]


@register
class ValidateTraitFloatRange(FastValidator):
    qualname = "validate_trait_float_range"

    def wf(self, tinfo, trait, obj, value):
        return wf_float_range_info(tinfo)

    def spec(self, info, ret, st):
        tinfo, value = info["tinfo"], info["value"]
        inr = lambda v: spec_float_range(v, A.tuple_item(tinfo, 1), A.tuple_item(tinfo, 2), A.long_val(A.tuple_item(tinfo, 3)))
        exact = A.is_exact(value, "PyFloat_Type")
        fits = A.long_fits(A.tuple_item(tinfo, 3))
        out = [("post:result-has-exact-type-float", z3.Implies(ret != NULL, A.is_exact(ret, "PyFloat_Type"))),
               ("post:result-lies-in-the-declared-range", z3.Implies(ret != NULL, inr(A.float_val(ret))), fp_witness(A.float_val(ret))),
               ("post:exact-float-accepted-iff-in-range", z3.Implies(z3.And(exact, fits), (ret != NULL) == inr(A.float_val(value))), fp_witness(A.float_val(value))),
               ("post:exact-float-stored-as-is", z3.Implies(z3.And(exact, ret != NULL), ret == value)),
               ("post:out-of-range-is-TraitError", z3.Implies(z3.And(exact, fits, ret == NULL), st.exc == EXC["TraitError"])),
               ("post:unusable-exclusion-mask-is-reported-not-guessed", z3.Implies(z3.And(exact, z3.Not(fits)), z3.And(ret == NULL, st.exc == EXC["OverflowError"]))),
               ("post:TypeError-of-the-conversion-becomes-TraitError", z3.Implies(ret == NULL, st.exc != EXC["TypeError"]))]
        return out


@register
class ValidateTraitInteger(FastValidator):
    qualname = "validate_trait_integer"

    def spec(self, info, ret, st):
        value = info["value"]
        exact = A.is_exact(value, "PyLong_Type")
        return [("post:exact-int-stored-as-is", z3.Implies(exact, ret == value)),
                ("post:result-has-exact-type-int", z3.Implies(ret != NULL, A.is_exact(ret, "PyLong_Type"))),
                ("post:TypeError-of-the-conversion-becomes-TraitError", z3.Implies(ret == NULL, st.exc != EXC["TypeError"]))] + \
            shared(S.spec_int(c_obs(info, ret, st)))

    def covers(self, cx, ov, info):
        return [("accepts", lambda r, s: r != NULL), ("rejects-with-TraitError", lambda r, s: z3.And(r == NULL, s.exc == EXC["TraitError"])),
                ("propagates-the-conversion-error", lambda r, s: z3.And(r == NULL, s.exc != EXC["TraitError"]))]


def conversion_clauses(info, ret, st, T):
    """the single conversion call type(value) and what happens to its outcome"""
    value = info["value"]
    calls = [r for r in st.trace if r[0] == "call"]
    out = [("post:at-most-one-conversion-call", z3.BoolVal(len(calls) <= 1))]
    if calls:
        c = calls[0]
        out.append(("post:conversion-is-type(value)", z3.And(c[1] == T, A.tuple_len(c[2]) == 1, A.tuple_item(c[2], z3.IntVal(0)) == value)))
        res = st.ghost.get("last_call_result")
        out.append(("post:stores-the-conversion-result", z3.Implies(ret != NULL, ret == res if res is not None else z3.BoolVal(False))))
    return out


@register
class ValidateTraitCastType(FastValidator):
    """CInt / CStr / CFloat ...: a value of exactly the declared type is stored as is, anything else is passed through the
    type's constructor; a failing conversion is a TraitError."""
    qualname = "validate_trait_cast_type"

    def wf(self, tinfo, trait, obj, value):
        return A.tuple_len(tinfo) == 2

    def spec(self, info, ret, st):
        tinfo, value = info["tinfo"], info["value"]
        T = A.tuple_item(tinfo, z3.IntVal(1))
        exact = A.type_of(value) == T
        calls = [r for r in st.trace if r[0] == "call"]
        return conversion_clauses(info, ret, st, T) + [
            ("post:value-of-exactly-the-type-stored-as-is", z3.Implies(exact, z3.And(ret == value, z3.BoolVal(not calls)))),
            ("post:anything-else-is-converted", z3.Implies(z3.Not(exact), z3.BoolVal(len(calls) == 1))),
            ("post:failed-conversion-is-TraitError", z3.Implies(ret == NULL, st.exc == EXC["TraitError"]))] + \
            shared(S.spec_cast(self.cast_obs(info, ret, st, T), "<T>", "all"))

    def cast_obs(self, info, ret, st, T):
        o = c_obs(info, ret, st, conv_type_obj=T)
        o.exact = lambda x, tn: A.type_of(x) == T
        return o


@register
class ValidateTraitCoerceType(FastValidator):
    """descriptor (kind, T, A1..Ak, None, C1..Cm): an instance of T or of an 'as is' type Ai is stored unchanged; otherwise an
    instance of a 'coercible' type Cj is stored as T(value); anything else is a TraitError.  Both scans by loop invariant."""
    qualname = "validate_trait_coerce_type"
    assumptions = FastValidator.assumptions + ("loop invariants over the descriptor scan (any number of alternative types)",)

    def wf(self, tinfo, trait, obj, value):
        return A.tuple_len(tinfo) >= 2

    def configure(self, cx, ex, ov):
        FastValidator.configure(self, cx, ex, ov)
        value = z3.Const("value", Obj)
        tinfo_of = lambda st: st.env["type_info"]
        inst = lambda st, j: A.subtype(A.type_of(value), A.tuple_item(tinfo_of(st), j))
        j = z3.Int("j!co")

        def inv1(ex2, st, entry):
            i, n, ti = st.env["i"], st.env["n"], tinfo_of(st)
            return [("index-in-range", z3.And(2 <= i, z3.Or(i <= n, n < 2), n == A.tuple_len(ti))),
                    ("no-as-is-type-matched-and-no-separator-so-far", z3.ForAll([j], z3.Implies(z3.And(2 <= j, j < i), z3.And(
                        A.tuple_item(ti, j) != A.NONE, z3.Not(inst(st, j)))))),
                    ("no-error-pending", st.exc == entry.exc), ("references-untouched", st.own == entry.own)]

        def inv2(ex2, st, entry):
            i, n, ti = st.env["i"], st.env["n"], tinfo_of(st)
            i0 = entry.env["i"]          # index after the separator (or past the end)
            return [("index-in-range", z3.And(i0 <= i, z3.Or(i <= n, i == i0))),
                    ("no-coercible-type-matched-so-far", z3.ForAll([j], z3.Implies(z3.And(i0 <= j, j < i), z3.Not(inst(st, j))))),
                    ("no-error-pending", st.exc == entry.exc), ("references-untouched", st.own == entry.own)]

        def on_loop(ex2, s, st):
            first = s["inner"][0].get("kind") == "BinaryOperator"
            if first:
                r = ex2.invariant_loop(s, st, {"i": INT, "type2": Obj}, inv1, heap=False, name="as-is-types",
                                       variant=lambda e3, s3: s3.env["n"] - s3.env["i"])
                return [(kd, p, s2.gset("sep", s2.env["i"])) for (kd, p, s2) in r]
            return ex2.invariant_loop(s, st, {"i": INT, "type2": Obj}, inv2, heap=False, name="coercible-types",
                                      variant=lambda e3, s3: s3.env["n"] - s3.env["i"])
        cx.on_loop = on_loop

    def spec(self, info, ret, st):
        tinfo, value = info["tinfo"], info["value"]
        n = A.tuple_len(tinfo)
        T = A.tuple_item(tinfo, z3.IntVal(1))
        inst = lambda j: A.subtype(A.type_of(value), A.tuple_item(tinfo, j))
        j, k = z3.Ints("j!sp k!sp")
        # k: position of the separator None (first None at an index >= 2), or n
        sep = z3.Function("separator_index", Obj, INT)(tinfo)
        sep_def = z3.And(2 <= sep, z3.Or(sep <= n, n < 2), z3.ForAll([j], z3.Implies(z3.And(2 <= j, j < sep), A.tuple_item(tinfo, j) != A.NONE)),
                         z3.Implies(sep < n, A.tuple_item(tinfo, sep) == A.NONE))
        as_is = z3.Or(inst(z3.IntVal(1)), z3.Exists([j], z3.And(2 <= j, j < sep, j < n, inst(j))))
        coercible = z3.Exists([j], z3.And(sep < j, j < n, inst(j)))
        calls = [r for r in st.trace if r[0] == "call"]
        return conversion_clauses(info, ret, st, T) + [
            ("post:instance-of-the-type-or-an-as-is-type-stored-unchanged", z3.Implies(z3.And(sep_def, as_is), z3.And(ret == value, z3.BoolVal(not calls)))),
            ("post:instance-of-a-coercible-type-is-converted", z3.Implies(z3.And(sep_def, z3.Not(as_is), coercible), z3.BoolVal(len(calls) == 1))),
            ("post:anything-else-is-TraitError", z3.Implies(z3.And(sep_def, z3.Not(as_is), z3.Not(coercible)),
                                                            z3.And(ret == NULL, st.exc == EXC["TraitError"], z3.BoolVal(not calls))))]

    def covers(self, cx, ov, info):
        return FastValidator.covers(self, cx, ov, info) + [("converts", lambda r, s: z3.BoolVal(any(x[0] == "call" for x in s.trace)))]


def handler_call(st, which=0):
    calls = [r for r in st.trace if r[0] == "call"]
    return calls[which] if len(calls) > which else None


def call_args_are(c, *items):
    return z3.And(A.tuple_len(c[2]) == len(items), *[A.tuple_item(c[2], z3.IntVal(i)) == v for i, v in enumerate(items)])


@register
class ValidateTraitPython(FastValidator):
    """the trait's Python validate(object, name, value) decides: called exactly once with these three, its result stored,
    its exception passed through unchanged."""
    qualname = "validate_trait_python"
    descriptor_is_tuple = False          # py_validate is the callable itself

    def wf(self, tinfo, trait, obj, value):
        return z3.BoolVal(True)

    def spec(self, info, ret, st):
        calls = [r for r in st.trace if r[0] == "call"]
        c = calls[0] if calls else None
        res = st.ghost.get("last_call_result")
        return [("post:validate-called-exactly-once", z3.BoolVal(len(calls) == 1)),
                ("post:called-with-object-name-value", z3.And(c[1] == info["tinfo"], call_args_are(c, info["obj"], info["name"], info["value"])) if c else z3.BoolVal(False)),
                ("post:stores-what-validate-returned", z3.Implies(ret != NULL, ret == res if res is not None else z3.BoolVal(False)))]

    def covers(self, cx, ov, info):
        return [("accepts", lambda r, s: r != NULL), ("passes-the-error-on", lambda r, s: r == NULL)]


@register
class ValidateTraitFunction(FastValidator):
    """descriptor (kind, function): function(object, name, value) is called once, its result stored; ANY exception it raises
    becomes the TraitError of handler.error."""
    qualname = "validate_trait_function"

    def wf(self, tinfo, trait, obj, value):
        return A.tuple_len(tinfo) == 2

    def spec(self, info, ret, st):
        calls = [r for r in st.trace if r[0] == "call"]
        c = calls[0] if calls else None
        res = st.ghost.get("last_call_result")
        return [("post:function-called-exactly-once", z3.BoolVal(len(calls) == 1)),
                ("post:called-with-object-name-value", z3.And(c[1] == A.tuple_item(info["tinfo"], z3.IntVal(1)),
                                                              call_args_are(c, info["obj"], info["name"], info["value"])) if c else z3.BoolVal(False)),
                ("post:stores-what-the-function-returned", z3.Implies(ret != NULL, ret == res if res is not None else z3.BoolVal(False))),
                ("post:failure-is-TraitError", z3.Implies(ret == NULL, st.exc == EXC["TraitError"]))]


@register
class ValidateTraitCallable(FastValidator):
    """descriptor (kind,) or (kind, allow_none): a callable is stored as is; None is accepted by the one-element (legacy)
    descriptor and otherwise iff allow_none is true; everything else is a TraitError."""
    qualname = "validate_trait_callable"

    def wf(self, tinfo, trait, obj, value):
        return A.tuple_len(tinfo) >= 1

    def spec(self, info, ret, st):
        tinfo, value = info["tinfo"], info["value"]
        n = A.tuple_len(tinfo)
        truth = z3.Function("truth_result", Obj, INT)(A.tuple_item(tinfo, z3.IntVal(1)))
        callable_ = z3.Function("callable_check", Obj, z3.BoolSort())(value)
        accept = z3.If(value == A.NONE, z3.Or(n < 2, truth == 1), info["callable"])
        undecided = z3.And(value == A.NONE, n >= 2, truth == -1)
        o = c_obs(info, ret, st)
        o.callable = lambda x: info["callable"]
        # the descriptor Callable.__init__ builds is (callable, allow_none) with allow_none a bool: its truth is decided
        sh = [(nm, z3.Implies(z3.And(n == 2, truth >= 0), g)) for (nm, g) in S.spec_callable(o, truth == 1)]
        return [("post:accepts-iff-callable-or-allowed-None", z3.Implies(z3.Not(undecided), (ret != NULL) == accept)),
                ("post:stores-the-value-itself", same_object(ret, value)),
                ("post:rejection-is-TraitError", z3.Implies(z3.And(ret == NULL, z3.Not(undecided)), st.exc == EXC["TraitError"]))] + shared(sh)

    def c_setup(self, cx, ex, ov):
        st, args, info = FastValidator.c_setup(self, cx, ex, ov)
        r = []
        ex.api.call("PyCallable_Check", [info["value"]], st, lambda v, s: r.append(v) or [])
        info["callable"] = r[0] != 0 if z3.is_int(r[0]) else r[0]
        return st, args, info


ADAPT = z3.Const("g_adapt", Obj)


@register
class ValidateTraitAdapt(FastValidator):
    """Supports / AdaptsTo descriptor (kind, type, mode, allow_none).
    None: accepted iff allow_none.  mode 0: isinstance only.  mode 1 / 2: the adapter of the value if adapt() finds one,
    else the value itself if it is an instance, else TraitError (mode 1) or the trait's default (mode 2)."""
    qualname = "validate_trait_adapt"
    properties = ("C03", "C01", "C19", "C17")

    def configure(self, cx, ex, ov):
        FastValidator.configure(self, cx, ex, ov)
        from contracts.c.setattr import install_families
        install_families(cx)
        cx.callmethod_hook = error_method_hook
        cx.globals["adapt"] = ADAPT

    def wf(self, tinfo, trait, obj, value):
        m = A.tuple_item(tinfo, z3.IntVal(2))
        return z3.And(A.tuple_len(tinfo) == 4, A.is_inst(m, "PyLong_Type"))

    def c_setup(self, cx, ex, ov):
        st, args, info = FastValidator.c_setup(self, cx, ex, ov)
        tinfo = info["tinfo"]
        # A-INIT: the adapt function is registered when traits is imported; A-TUPLE: items of a tuple are not NULL
        st = st.assume(ADAPT != NULL, A.tuple_item(tinfo, z3.IntVal(1)) != NULL, A.tuple_item(tinfo, z3.IntVal(3)) != NULL)
        return st, args, info

    def spec(self, info, ret, st):
        tinfo, value = info["tinfo"], info["value"]
        T = A.tuple_item(tinfo, z3.IntVal(1))
        mode = A.long_val(A.tuple_item(tinfo, z3.IntVal(2)))
        fits = A.long_fits(A.tuple_item(tinfo, z3.IntVal(2)))
        allow = z3.Function("truth_result", Obj, INT)(A.tuple_item(tinfo, z3.IntVal(3)))
        isi = z3.Function("isinstance_result", Obj, Obj, INT)(value, T)
        calls = [r for r in st.trace if r[0] == "call"]
        defaults = [r for r in st.trace if r[0] == "default_value_for"]
        res = st.ghost.get("last_call_result")
        out = [("post:None-accepted-iff-allow_none", z3.Implies(z3.And(value == A.NONE, allow >= 0), z3.And(
                    (ret != NULL) == (allow == 1), same_object(ret, value), z3.BoolVal(not calls and not defaults)))),
               ("post:mode-0-is-a-plain-isinstance-check", z3.Implies(z3.And(value != A.NONE, mode == 0, fits, isi >= 0), z3.And(
                    (ret != NULL) == (isi == 1), same_object(ret, value), z3.BoolVal(not calls and not defaults)))),
               ("post:adaptation-is-tried-at-most-once", z3.BoolVal(len(calls) <= 1)),
               ("post:default-only-in-mode-2", z3.Implies(z3.BoolVal(bool(defaults)), z3.And(mode != 0, mode != 1, value != A.NONE))),
               ("post:unreadable-mode-is-reported", z3.Implies(z3.And(value != A.NONE, z3.Not(fits)), z3.And(ret == NULL, st.exc == EXC["OverflowError"])))]
        if calls:
            c = calls[0]
            out.append(("post:adaptation-is-adapt(value, type, None)", z3.And(c[1] == ADAPT, call_args_are(c, value, T, A.NONE))))
            if res is not None:
                out.append(("post:an-adapter-found-is-what-gets-stored", z3.Implies(res != A.NONE, ret == res)))
                out.append(("post:without-adapter-an-instance-is-stored-as-is", z3.Implies(z3.And(res == A.NONE, isi == 1), ret == value)))
                out.append(("post:mode-1-without-adapter-or-instance-is-TraitError",
                            z3.Implies(z3.And(res == A.NONE, isi == 0, mode == 1), z3.And(ret == NULL, st.exc == EXC["TraitError"]))))
                out.append(("post:mode-2-without-adapter-or-instance-takes-the-default",
                            z3.Implies(z3.And(res == A.NONE, isi == 0, mode != 1), z3.BoolVal(len(defaults) == 1))))
        else:
            out.append(("post:adaptation-skipped-only-for-None-or-mode-0", z3.Or(value == A.NONE, mode == 0, st.exc != 0)))
        return out

    def c_post(self, cx, ex, ov, info, ret, st):
        out = [("post:NULL-iff-error-indicator-set", (ret == NULL) == (st.exc != 0))]
        out += self.spec(info, ret, st)
        out += own_neutral(st, info, ret)
        return out

    def covers(self, cx, ov, info):
        return FastValidator.covers(self, cx, ov, info) + [
            ("adapts", lambda r, s: z3.And(r != NULL, z3.BoolVal(any(x[0] == "call" for x in s.trace)))),
            ("defaults", lambda r, s: z3.BoolVal(any(x[0] == "default_value_for" for x in s.trace)))]
