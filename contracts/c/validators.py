"""Contracts for the compiled fast validators of traits/ctraits.c (C03, C01, C18).

spec_float_range is written from the property statement ("range and bound exclusivity", IEEE comparison):
a value is accepted iff (low is None or low < v [exclusive] / low <= v [inclusive]) and the same for high.
Both the C validator and the Python BaseRange.float_validate are proved against it."""
import z3

from vc.unit import CContract, register
from vc.cvc.core import Obj, NULL, INT, F64, EXC, CSt
from vc.cvc import api as A


def spec_float_range(v, low, high, mask):
    """v: FP term; low/high: Obj (None or float objects); mask: Int in 0..3"""
    exl, exh = (mask % 2) == 1, mask >= 2
    lo_ok = z3.Or(low == A.NONE, z3.If(exl, z3.fpLT(A.float_val(low), v), z3.fpLEQ(A.float_val(low), v)))
    hi_ok = z3.Or(high == A.NONE, z3.If(exh, z3.fpGT(A.float_val(high), v), z3.fpGEQ(A.float_val(high), v)))
    return z3.And(lo_ok, hi_ok)


def wf_float_range_info(info):
    """well-formedness of a float-range descriptor as built by BaseRange.__init__: (kind, low, high, exclude_mask) with
    low/high None or exact floats and exclude_mask an int in 0..3"""
    low, high, m = A.tuple_item(info, 1), A.tuple_item(info, 2), A.tuple_item(info, 3)
    return z3.And(A.is_inst(info, "PyTuple_Type"), A.tuple_len(info) == 4,
                  z3.Or(low == A.NONE, A.is_exact(low, "PyFloat_Type")), z3.Or(high == A.NONE, A.is_exact(high, "PyFloat_Type")),
                  z3.Implies(low != A.NONE, A.is_inst(low, "PyFloat_Type")), z3.Implies(high != A.NONE, A.is_inst(high, "PyFloat_Type")),
                  A.is_exact(m, "PyLong_Type"), A.is_inst(m, "PyLong_Type"), A.long_fits(m), 0 <= A.long_val(m), A.long_val(m) <= 3)


def fp_witness(v):
    return {"value(float)": v, "value.isNaN": z3.fpIsNaN(v)}


@register
class InFloatRange(CContract):
    qualname = "in_float_range"
    properties = ("C03", "C01", "C18")
    assumptions = ("A-API", "A-INT", "IEEE-754 binary64 semantics of C double comparisons")

    def c_setup(self, cx, ex, ov):
        value, rinfo = z3.Consts("value range_info", Obj)
        st = CSt().assume(value != NULL, rinfo != NULL, A.is_exact(value, "PyFloat_Type"), A.is_inst(value, "PyFloat_Type"),
                          wf_float_range_info(rinfo))
        v = A.float_val(value)
        low, high = A.tuple_item(rinfo, 1), A.tuple_item(rinfo, 2)
        w = {"value": v, "value.isNaN": z3.fpIsNaN(v), "low.is_None": low == A.NONE, "low": A.float_val(low),
             "high.is_None": high == A.NONE, "high": A.float_val(high), "exclude_mask": A.long_val(A.tuple_item(rinfo, 3))}

        def conc(m):
            def fl(t):
                x = m.eval(t, model_completion=True)
                s = str(x)
                if "NaN" in s:
                    return "nan"
                if "oo" in s:
                    return "-inf" if s.startswith("-") else "inf"
                try:
                    return repr(float(z3.simplify(z3.fpToReal(x)).as_decimal(17).rstrip("?")))
                except Exception:
                    return s
            ev = lambda t: m.eval(t, model_completion=True)
            return dict(harness="cvalidators", family="float_range", value=fl(v),
                        low=None if z3.is_true(ev(low == A.NONE)) else fl(A.float_val(low)),
                        high=None if z3.is_true(ev(high == A.NONE)) else fl(A.float_val(high)),
                        exclude_mask=ev(A.long_val(A.tuple_item(rinfo, 3))).as_long())
        return st, [value, rinfo], dict(value=value, rinfo=rinfo, witness=w, concretise=conc)

    def c_post(self, cx, ex, ov, info, ret, st):
        value, rinfo = info["value"], info["rinfo"]
        spec = spec_float_range(A.float_val(value), A.tuple_item(rinfo, 1), A.tuple_item(rinfo, 2), A.long_val(A.tuple_item(rinfo, 3)))
        return [("post:spec_float_range", z3.And(z3.Or(ret == 0, ret == 1), (ret == 1) == spec)),
                ("post:no-error-set", st.exc == 0)]

    def covers(self, cx, ov, info):
        return [("accepts", lambda r, s: r == 1), ("rejects", lambda r, s: r == 0)]
