"""The function-table invariant TI of CTrait objects (C14 'trait definition objects survive a pickle round trip',
C18 memory safety of func_index / _trait_getstate / _trait_setstate).

TI(trait): each of the five function-pointer fields holds an entry of the static table it is pickled through:
  getattr in getattr_handlers, setattr in setattr_handlers, post_setattr in setattr_property_handlers,
  validate in validate_handlers, delegate_attr_name in delegate_attr_name_handlers.
func_index(f, table) searches the table without a bound, so TI is its precondition; every function that stores one
of the five fields must re-establish TI.  The table contents are read from the AST initialisers on every run."""
import z3

from vc.unit import CContract, register
from vc.cvc.core import Obj, NULL, INT, EXC, CSt
from vc.cvc import api as A
from vc.cvc import front
from vc.pyvc.values import Unsupported

TI_FIELDS = {"getattr": "getattr_handlers", "setattr": "setattr_handlers", "post_setattr": "setattr_property_handlers",
             "validate": "validate_handlers", "delegate_attr_name": "delegate_attr_name_handlers"}


def in_table(cx, fn, table):
    tab = front.table(table)
    return z3.Or(*[fn == cx.fn_id(nm) for nm in tab])


def TI(cx, ex, st, trait, only=None):
    out = []
    for f, t in TI_FIELDS.items():
        if only and f not in only:
            continue
        out.append(("TI(%s in %s)" % (f, t), in_table(cx, ex.field_array(st, f)[trait], t)))
    return out


def unroll_hook(bound=40):
    return lambda ex, s, st: ex.unroll(s, st, bound)


@register
class FuncIndex(CContract):
    """func_index(function, table): requires the function to be an entry of the table; returns the index of its first
    occurrence; never reads past the end of the table."""
    qualname = "func_index"
    properties = ("C14", "C18")
    overloads = tuple(TI_FIELDS.values())
    side_props = {"bounds": ("C18", "C14"), "unwind": ("C18",)}

    def configure(self, cx, ex, ov):
        cx.on_loop = unroll_hook()

    def c_setup(self, cx, ex, ov):
        fn = z3.Int("function")
        st = CSt().assume(in_table(cx, fn, ov))
        return st, [fn, ("table", ov)], dict(fn=fn, witness={"function(id)": fn})

    def c_post(self, cx, ex, ov, info, ret, st):
        tab = front.table(ov)
        fn = info["fn"]
        conds = []
        for i, nm in enumerate(tab):
            first = z3.And(fn == cx.fn_id(nm), *[fn != cx.fn_id(m) for m in tab[:i]])
            conds.append(z3.Implies(first, ret == i))
        return [("post:index-of-first-occurrence", z3.And(*conds))]

    def covers(self, cx, ov, info):
        return [("finds", lambda r, s: True)]


def func_index_summary(ex, args, st, k):
    """call-site use of FuncIndex: precondition (the function is an entry of the table) becomes an obligation"""
    fn, tabref = args
    if not (isinstance(tabref, tuple) and tabref[0] == "table"):
        raise Unsupported("func_index on a non-static table")
    cx = ex.cx
    tab = front.table(tabref[1])
    st = cx.require(st, in_table(cx, fn, tabref[1]), "pre@func_index:function-is-an-entry-of-%s" % tabref[1],
                    witness={"function(id)": fn, "table": str(tab), "ids": str(cx.fn_ids)})
    r = cx.fresh("index", INT)
    facts = [0 <= r, r < len(tab)]
    for i, nm in enumerate(tab):
        first = z3.And(fn == cx.fn_id(nm), *[fn != cx.fn_id(m) for m in tab[:i]])
        facts.append(z3.Implies(first, r == i))
    return k(r, st.assume(*facts))


class TraitMethod(CContract):
    properties = ("C14", "C18")
    side_props = {"bounds": ("C18", "C14"), "unwind": ("C18",), "valid-deref": ("C18",), "pre@func_index": ("C14", "C18")}
    assumptions = ("A-API", "A-ALLOC", "A-INT")

    def configure(self, cx, ex, ov):
        cx.on_loop = unroll_hook()
        cx.summaries["func_index"] = func_index_summary


@register
class TraitGetState(TraitMethod):
    """_trait_getstate(trait): under TI every func_index call stays inside its table and the state tuple records the five
    indices (round trip with _trait_setstate: handlers[index] is the field again)."""
    qualname = "_trait_getstate"

    def c_setup(self, cx, ex, ov):
        trait = z3.Const("trait", Obj)
        st = CSt().assume(trait != NULL)
        st = st.assume(*[c for (_n, c) in TI(cx, ex, st, trait)])
        return st, [trait, NULL], dict(trait=trait, st0=st, witness={f: ex.field_array(st, f)[trait] for f in TI_FIELDS})

    def c_post(self, cx, ex, ov, info, ret, st):
        out = [("post:returns-a-tuple", ret != NULL)]
        built = st.ghost.get("built", {})
        slots = {0: "getattr", 1: "setattr", 2: "post_setattr", 4: "validate", 11: "delegate_attr_name"}
        for idx, f in slots.items():
            v = built.get((ret.get_id(), idx))
            if v is None:
                out.append(("post:slot-%d-records-index-of-%s" % (idx, f), z3.BoolVal(False)))
                continue
            tab = front.table(TI_FIELDS[f])
            cur = ex.field_array(info["st0"], f)[info["trait"]]
            lookup = z3.IntVal(-1)
            for j, nm in reversed(list(enumerate(tab))):
                lookup = z3.If(A.long_val(v) == j, z3.IntVal(cx.fn_id(nm)), lookup)
            out.append(("post:slot-%d-round-trips-%s" % (idx, f), lookup == cur))
        return out

    def covers(self, cx, ov, info):
        return [("returns", lambda r, s: True)]


@register
class TraitSetProperty(TraitMethod):
    """_trait_set_property(get, get_n, set, set_n, validate, validate_n): re-establishes TI on success; changes nothing on
    an argument error."""
    qualname = "_trait_set_property"

    def c_setup(self, cx, ex, ov):
        trait, args = z3.Consts("trait args", Obj)
        st = CSt().assume(trait != NULL, args != NULL)
        st = st.assume(*[c for (_n, c) in TI(cx, ex, st, trait)])
        conc = lambda m: dict(harness="cvalidators", family="ctrait_state", kind="validated-property")
        return st, [trait, args], dict(trait=trait, st0=st, witness={}, concretise=conc)

    def c_post(self, cx, ex, ov, info, ret, st):
        trait = info["trait"]
        out = [("post:NULL-iff-error-indicator-set", (ret == NULL) == (st.exc != 0))]
        for (n, c) in TI(cx, ex, st, trait):
            out.append(("post:" + n, c, {"field(id)": ex.field_array(st, n[3:].split(" ")[0])[trait],
                                          "table": str(front.table(TI_FIELDS[n[3:].split(" ")[0]]))}))
        unchanged = z3.And(*[ex.field_array(st, f)[trait] == ex.field_array(info["st0"], f)[trait] for f in
                             ("getattr", "setattr", "post_setattr", "validate", "flags", "delegate_name", "delegate_prefix", "py_validate")])
        out.append(("raise:argument-error-changes-nothing", z3.Implies(ret == NULL, unchanged)))
        return out

    def covers(self, cx, ov, info):
        return [("installs", lambda r, s: r != NULL), ("rejects", lambda r, s: r == NULL)]


@register
class TraitNew(TraitMethod):
    """trait_new(type, args, kw): the new trait satisfies TI (zero-initialised fields are table entries: NULL)."""
    qualname = "trait_new"

    def c_setup(self, cx, ex, ov):
        ttype, args, kw = z3.Consts("trait_type args kw", Obj)
        st = CSt().assume(ttype != NULL, args != NULL)
        return st, [ttype, args, kw], dict(witness={})

    def c_post(self, cx, ex, ov, info, ret, st):
        out = [("post:NULL-iff-error-indicator-set", (ret == NULL) == (st.exc != 0))]
        new = st.ghost.get("fresh_object")
        if new is not None:
            for (n, c) in TI(cx, ex, st, new):
                out.append(("post:" + n, z3.Implies(ret != NULL, c)))
        else:
            out.append(("post:error-path-allocates-nothing", ret == NULL))
        return out

    def covers(self, cx, ov, info):
        return [("constructs", lambda r, s: r != NULL), ("rejects", lambda r, s: r == NULL)]


@register
class TraitSetstate(CContract):
    """_trait_setstate(trait, (state,)) -- CTrait.__setstate__.

    C14 'a trait definition survives a pickle round trip behaving as before': for a state tuple as produced by
    _trait_getstate (its five handler slots are table indices, by the contract above) applied to a newly created trait,
    every handler field is the table entry of its index, every object field is the state's object holding its own
    reference, and the call is reference neutral.
    C18, arbitrary tuples: the function must neither read outside the handler tables nor leave the trait holding
    references it does not own, whatever tuple it is handed."""
    qualname = "_trait_setstate"
    properties = ("C14",)
    extra_properties = ("C18",)
    side_props = {"valid-deref": ("C18",), "bounds": ("C18",)}
    own = True
    overloads = ("state-from-getstate/new-trait", "any-state/any-trait")
    assumptions = ("A-API", "A-HAVOC", "A-ALLOC", "A-INT", "PyArg_ParseTuple writes its targets in order and gives no rollback on failure")

    def c_setup(self, cx, ex, ov):
        trait, args = z3.Consts("trait args", Obj)
        st = CSt().assume(trait != NULL, args != NULL, A.is_inst(args, "PyTuple_Type"))
        if ov.startswith("state-from-getstate"):
            for f in ("py_post_setattr", "py_validate", "default_value", "delegate_name", "delegate_prefix", "handler", "obj_dict"):
                st = st.assume(ex.field_array(st, f)[trait] == NULL)          # trait_new leaves the object fields empty
        return st, [trait, args], dict(trait=trait, st0=st, ov=ov, witness={},
                                       concretise=lambda m: dict(harness="cvalidators", family="setstate"))

    def configure(self, cx, ex, ov):
        if not ov.startswith("state-from-getstate"):
            return
        sizes = {"getattr_index": len(front.table("getattr_handlers")), "setattr_index": len(front.table("setattr_handlers")),
                 "post_setattr_index": len(front.table("setattr_property_handlers")), "validate_index": len(front.table("validate_handlers")),
                 "delegate_attr_name_index": len(front.table("delegate_attr_name_handlers"))}

        def parse(ex2, args, st, k):
            """a state written by _trait_getstate: parsing succeeds and the five indices are in range of their tables"""
            outs = []
            def kk(r, s):
                if z3.is_int_value(z3.simplify(r)) and z3.simplify(r).as_long() == 1:
                    s = s.assume(*[z3.And(0 <= s.env[n], s.env[n] < size) for n, size in sizes.items()])
                    # no old-pickle shim: the state's validate / post_setattr entries are the objects themselves
                    for loc in ("py_validate", "py_post_setattr"):
                        if z3.is_expr(s.env.get(loc)):
                            s = s.assume(z3.Not(A.is_inst(s.env[loc], "PyLong_Type")))
                    return k(r, s.gset("parsed_ok", True))
                return []
            return A._parse_tuple(ex2.api, args, st, kk)
        cx.summaries["PyArg_ParseTuple"] = parse

    def c_post(self, cx, ex, ov, info, ret, st):
        trait = info["trait"]
        out = [("post:NULL-iff-error-indicator-set", (ret == NULL) == (st.exc != 0))]
        if st.own is not None:
            o = z3.Const("o!own", Obj)
            out.append(("own:every-object-field-holds-a-reference-of-its-own-and-nothing-is-dropped", z3.ForAll([o], st.own[o] == info["own0"][o] + z3.If(
                z3.And(o == ret, ret != NULL, z3.Not(A.immortal(ret))), 1, 0)), {}, ("C18", "C14")))
        if ov.startswith("state-from-getstate"):
            out.append(("post:a-well-formed-state-is-accepted", ret != NULL))
        return out

    def covers(self, cx, ov, info):
        return [("restores", lambda r, s: r != NULL)]
