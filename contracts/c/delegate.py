"""C11, compiled side: the delegate_attr_name_* handlers compute delegate_target(name, prefix, class_prefix) for
their prefix style, and _trait_delegate installs the handler of the style it is given."""
import z3

from vc.unit import CContract, register
from vc.cvc.core import Obj, NULL, INT, EXC, CSt
from vc.cvc import api as A
from vc.cvc import front
from contracts.c.validators import own_neutral

CLASS_PREFIX = z3.Const("g_class_prefix", Obj)


class _NameHandler(CContract):
    properties = ("C11",)
    extra_properties = ("C18",)
    side_props = {"valid-deref": ("C18",), "bounds": ("C18",)}
    own = True
    assumptions = ("A-API", "A-ALLOC", "z3 theory of strings for str values")

    def c_setup(self, cx, ex, ov):
        trait, obj, name = z3.Consts("trait obj name", Obj)
        st = CSt()
        prefix = ex.field_array(st, "delegate_prefix")[trait]
        st = st.assume(trait != NULL, obj != NULL, name != NULL, A.is_inst(name, "PyUnicode_Type"),
                       prefix != NULL, A.is_inst(prefix, "PyUnicode_Type"))
        return st, [trait, obj, name], dict(trait=trait, obj=obj, name=name, prefix=prefix,
                                            witness={"name": A.str_val(name), "stored_prefix": A.str_val(prefix)})

    def target(self, info, st):
        raise NotImplementedError

    def c_post(self, cx, ex, ov, info, ret, st):
        out = [("post:returns-a-name", z3.And(ret != NULL, st.exc == 0)),
               ("post:delegate_target-for-this-prefix-style", z3.Implies(ret != NULL, A.str_val(ret) == self.target(info, st)))]
        return out + own_neutral(st, info, ret)

    def covers(self, cx, ov, info):
        return [("returns", lambda r, s: r != NULL)]


@register
class NameName(_NameHandler):
    qualname = "delegate_attr_name_name"

    def target(self, info, st):
        return A.str_val(info["name"])


@register
class NamePrefix(_NameHandler):
    qualname = "delegate_attr_name_prefix"

    def target(self, info, st):
        return A.str_val(info["prefix"])


@register
class NamePrefixName(_NameHandler):
    qualname = "delegate_attr_name_prefix_name"

    def target(self, info, st):
        return z3.Concat(A.str_val(info["prefix"]), A.str_val(info["name"]))


@register
class NameClassName(_NameHandler):
    """class prefix + name; a class without __prefix__ behaves as an empty prefix"""
    qualname = "delegate_attr_name_class_name"

    def configure(self, cx, ex, ov):
        cx.globals["class_prefix"] = CLASS_PREFIX

    def c_post(self, cx, ex, ov, info, ret, st):
        obj, name = info["obj"], info["name"]
        cp = z3.Function("getattr_result", Obj, Obj, Obj)(A.type_of(obj), CLASS_PREFIX)
        is_str = A.is_inst(cp, "PyUnicode_Type")
        out = [("post:class-prefix-plus-name", z3.Implies(z3.And(cp != NULL, is_str), z3.And(
                    ret != NULL, A.str_val(ret) == z3.Concat(A.str_val(cp), A.str_val(name))))),
               ("post:no-class-prefix-means-same-name", z3.Implies(cp == NULL, z3.And(ret == name, st.exc == 0))),
               ("post:NULL-iff-error-indicator-set", (ret == NULL) == (st.exc != 0))]
        return out + own_neutral(st, info, ret)


@register
class TraitDelegate(CContract):
    """_trait_delegate(delegate_name, delegate_prefix, prefix_type, modify): installs delegate_attr_name_handlers[type]
    (type clamped into 0..3), stores name and prefix, sets/clears MODIFY_DELEGATE; TI for the delegate_attr_name field."""
    qualname = "_trait_delegate"
    properties = ("C11", "C14")
    extra_properties = ("C18",)
    side_props = {"valid-deref": ("C18",), "bounds": ("C18", "C14")}
    assumptions = ("A-API", "first configuration of the trait (delegate_name / delegate_prefix fields still NULL)")

    def c_setup(self, cx, ex, ov):
        trait, args = z3.Consts("trait args", Obj)
        st = CSt().assume(trait != NULL, args != NULL)
        return st, [trait, args], dict(trait=trait, st0=st, witness={})

    def c_post(self, cx, ex, ov, info, ret, st):
        trait = info["trait"]
        tab = front.table("delegate_attr_name_handlers")
        fn = ex.field_array(st, "delegate_attr_name")[trait]
        fn0 = ex.field_array(info["st0"], "delegate_attr_name")[trait]
        parsed = [r for r in st.trace if r[0] == "store" and r[1] in ("delegate_name", "delegate_prefix")]
        out = [("post:NULL-iff-error-indicator-set", (ret == NULL) == (st.exc != 0)),
               ("post:handler-is-a-table-entry", z3.Implies(ret != NULL, z3.Or(*[fn == cx.fn_id(nm) for nm in tab[:4]]))),
               ("raise:parse-failure-changes-nothing", z3.Implies(ret == NULL, z3.And(fn == fn0, z3.BoolVal(not parsed))))]
        ptype = st.env_type if False else None
        return out

    def covers(self, cx, ov, info):
        return [("installs", lambda r, s: r != NULL)]
