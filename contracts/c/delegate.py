"""C11, compiled side: the delegate_attr_name_* handlers compute delegate_target(name, prefix, class_prefix) for
their prefix style, and _trait_delegate installs the handler of the style it is given."""
import z3

from vc.unit import CContract, register
from vc.cvc.core import Obj, NULL, INT, EXC, CSt, as_int
from vc.cvc import api as A
from vc.cvc import front
from contracts.c.validators import own_neutral

CLASS_PREFIX = z3.Const("g_class_prefix", Obj)


class _NameHandler(CContract):
    properties = ("C11",)
    extra_properties = ("C18",)
    side_props = {"valid-deref": ("C18",), "bounds": ("C18",)}
    own = True
    assumptions = ("A-API", "A-ALLOC", "z3 theory of strings for str values")

    def c_setup(self, cx, ex, ov):
        trait, obj, name = z3.Consts("trait obj name", Obj)
        st = CSt()
        prefix = ex.field_array(st, "delegate_prefix")[trait]
        st = st.assume(trait != NULL, obj != NULL, name != NULL, A.is_inst(name, "PyUnicode_Type"),
                       prefix != NULL, A.is_inst(prefix, "PyUnicode_Type"))
        return st, [trait, obj, name], dict(trait=trait, obj=obj, name=name, prefix=prefix,
                                            witness={"name": A.str_val(name), "stored_prefix": A.str_val(prefix)})

    def target(self, info, st):
        raise NotImplementedError

    def c_post(self, cx, ex, ov, info, ret, st):
        out = [("post:returns-a-name", z3.And(ret != NULL, st.exc == 0)),
               ("post:delegate_target-for-this-prefix-style", z3.Implies(ret != NULL, A.str_val(ret) == self.target(info, st)))]
        return out + own_neutral(st, info, ret)

    def covers(self, cx, ov, info):
        return [("returns", lambda r, s: r != NULL)]


@register
class NameName(_NameHandler):
    qualname = "delegate_attr_name_name"

    def target(self, info, st):
        return A.str_val(info["name"])


@register
class NamePrefix(_NameHandler):
    qualname = "delegate_attr_name_prefix"

    def target(self, info, st):
        return A.str_val(info["prefix"])


@register
class NamePrefixName(_NameHandler):
    qualname = "delegate_attr_name_prefix_name"

    def target(self, info, st):
        return z3.Concat(A.str_val(info["prefix"]), A.str_val(info["name"]))


@register
class NameClassName(_NameHandler):
    """class prefix + name; a class without __prefix__ behaves as an empty prefix"""
    qualname = "delegate_attr_name_class_name"

    def configure(self, cx, ex, ov):
        cx.globals["class_prefix"] = CLASS_PREFIX

    def c_post(self, cx, ex, ov, info, ret, st):
        obj, name = info["obj"], info["name"]
        cp = z3.Function("getattr_result", Obj, Obj, Obj)(A.type_of(obj), CLASS_PREFIX)
        is_str = A.is_inst(cp, "PyUnicode_Type")
        out = [("post:class-prefix-plus-name", z3.Implies(z3.And(cp != NULL, is_str), z3.And(
                    ret != NULL, A.str_val(ret) == z3.Concat(A.str_val(cp), A.str_val(name))))),
               ("post:no-class-prefix-means-same-name", z3.Implies(cp == NULL, z3.And(ret == name, st.exc == 0))),
               ("post:NULL-iff-error-indicator-set", (ret == NULL) == (st.exc != 0))]
        return out + own_neutral(st, info, ret)


@register
class TraitDelegate(CContract):
    """_trait_delegate(delegate_name, delegate_prefix, prefix_type, modify): installs delegate_attr_name_handlers[type]
    (type clamped into 0..3), stores name and prefix, sets/clears MODIFY_DELEGATE; TI for the delegate_attr_name field."""
    qualname = "_trait_delegate"
    properties = ("C11", "C14")
    extra_properties = ("C18",)
    side_props = {"valid-deref": ("C18",), "bounds": ("C18", "C14")}
    assumptions = ("A-API", "first configuration of the trait (delegate_name / delegate_prefix fields still NULL)")

    def c_setup(self, cx, ex, ov):
        trait, args = z3.Consts("trait args", Obj)
        st = CSt().assume(trait != NULL, args != NULL)
        return st, [trait, args], dict(trait=trait, st0=st, witness={})

    def c_post(self, cx, ex, ov, info, ret, st):
        trait = info["trait"]
        tab = front.table("delegate_attr_name_handlers")
        fn = ex.field_array(st, "delegate_attr_name")[trait]
        fn0 = ex.field_array(info["st0"], "delegate_attr_name")[trait]
        parsed = [r for r in st.trace if r[0] == "store" and r[1] in ("delegate_name", "delegate_prefix")]
        out = [("post:NULL-iff-error-indicator-set", (ret == NULL) == (st.exc != 0)),
               ("post:handler-is-a-table-entry", z3.Implies(ret != NULL, z3.Or(*[fn == cx.fn_id(nm) for nm in tab[:4]]))),
               ("raise:parse-failure-changes-nothing", z3.Implies(ret == NULL, z3.And(fn == fn0, z3.BoolVal(not parsed))))]
        ptype = st.env_type if False else None
        return out

    def covers(self, cx, ov, info):
        return [("installs", lambda r, s: r != NULL)]


MODIFY_DELEGATE = 0x2


@register
class SetattrDelegate(CContract):
    """setattr_delegate(traito, traitd, obj, name, value): assignment to (value != NULL) or deletion of (value == NULL) a
    DelegatesTo / PrototypedFrom attribute, for a delegation chain of ANY length (loop invariant over the hops).

    C11: 'assigning [a DelegatesTo attribute] validates against and stores into the delegate only.  A PrototypedFrom
    attribute ... assigned locally (validated by the prototype's trait), then holds its own value independently ... While
    linked, a change of the target attribute ... notifies handlers ... after the link is broken such changes do not':
      * exactly one setattr handler runs, that of the first non-delegating trait found along the chain;
      * MODIFY_DELEGATE (DelegatesTo): it is handed (that trait, that trait, the final delegate, the final attribute name,
        value) -- nothing is stored on obj and the listener link is left alone;
      * otherwise (PrototypedFrom): it is handed (traito, that trait, obj, name, value) -- the prototype's trait validates,
        obj stores -- and the delegate listener is unhooked only AFTER that assignment succeeded (a rejected value leaves
        the link in place) and told whether this was an assignment or a deletion;
      * every failure returns -1 with the error indicator set and no handler call after it; references are neutral."""
    qualname = "setattr_delegate"
    properties = ("C11", "C19")
    extra_properties = ("C18",)
    side_props = {"valid-deref": ("C18",), "bounds": ("C18",)}
    own = True
    assumptions = ("A-API", "A-HAVOC", "A-ALLOC", "A-INT",
                   "A-TYPEINV: a trait with a delegate_attr_name handler has a delegate_name (installed together by _trait_delegate)",
                   "has_traits_getattro (own contract: new reference or NULL+error), get_prefix_trait, trait->setattr and "
                   "trait->delegate_attr_name (own contracts: a new non-NULL name) used through summaries",
                   "termination: variant 100 - i")

    def configure(self, cx, ex, ov):
        from contracts.c.lookup import lookup_env
        lookup_env(cx)
        traito, obj = z3.Consts("traito obj", Obj)

        def keep(api, before, after):
            # Python code run along the chain does not redefine the deferring trait itself while it is being assigned
            f = api.ex.field_array
            return self.type_invariants(api.ex, after.assume(f(after, "flags")[traito] == f(before, "flags")[traito]))
        cx.havoc_keeps = keep

        def getattro(ex2, args, st, k):
            st = st.log(("has_traits_getattro",) + tuple(args))
            return ex2.api.python_call(st, "has_traits_getattro", k, lambda s: k(NULL, s), result_prefix="delegate")
        cx.summaries["has_traits_getattro"] = getattro

        self._own0 = z3.Const("own0", z3.ArraySort(Obj, INT))

        def setattr_family(ex2, fn, args, st, k):
            final = ex2.field_array(st, "delegate_attr_name")[args[1]] == 0
            st = st.log(("setattr",) + tuple(args) + (final, fn == ex2.field_array(st, "setattr")[args[1]]))
            s1 = ex2.api.havoc(st, "trait->setattr")
            e = cx.fresh("exc", INT)
            return k(z3.IntVal(0), s1.gset("setattr_result", z3.IntVal(0))) + \
                k(z3.IntVal(-1), s1.assume(e >= 1).with_exc(e).gset("setattr_result", z3.IntVal(-1)))
        cx.field_call["setattr"] = setattr_family

        def attr_name(ex2, fn, args, st, k):
            st = st.log(("delegate_attr_name", fn) + tuple(args))
            r, s1 = ex2.api.fresh_obj("daname", st)
            return k(r, s1)
        cx.field_call["delegate_attr_name"] = attr_name
        for nm, code in (("bad_delegate_error", EXC["DelegationError"]), ("bad_delegate_error2", EXC["DelegationError"]),
                         ("fatal_trait_error", EXC["TraitError"]), ("delegation_recursion_error", EXC["DelegationError"])):
            def err(ex2, args, st, k, nm=nm, code=code):
                e = cx.fresh("exc", INT)      # TypeError for a non-string name, the named error otherwise
                return k(z3.IntVal(-1), st.log((nm,) + tuple(args)).assume(z3.Or(e == code, e == EXC["TypeError"])).with_exc(e))
            cx.summaries[nm] = err

        def inv(ex2, st, entry):
            own0 = self._own0
            o = z3.Const("o!lh", Obj)
            dan, dele, td, i = st.env["daname"], st.env["delegate"], st.env["traitd"], st.env["i"]
            since = []
            for r in reversed(st.trace):
                if r[0] == "python" and str(r[1]).startswith("loop-head:"):
                    break
                since.append(r)
            quiet = all(r[0] not in ("setattr", "callmethod") for r in since) and \
                all(r[0] not in ("setattr", "callmethod") for r in entry.trace)
            o1 = A.own_add(own0, dan, 1)
            out = [("current-name-and-current-delegate-each-held-by-one-reference",
                    z3.And(dan != NULL, st.own == A.own_add(o1, dele, 1))),
                   ("delegate-and-trait-valid", z3.And(dele != NULL, td != NULL)),
                   ("trait-is-a-delegating-trait", ex2.field_array(st, "delegate_name")[td] != NULL),
                   ("no-error-pending", st.exc == 0),
                   ("hop-count-in-range", z3.And(i >= 0, i < 100)),
                   ("no-handler-has-run-yet", z3.BoolVal(quiet))]
            for n in ("traito", "obj", "name", "value"):
                out.append(("parameter-%s-unchanged" % n, st.env[n] == entry.env[n]))
            return out
        cx.on_loop = lambda ex2, s, st: ex2.invariant_loop(
            s, st, {"daname": Obj, "delegate": Obj, "traitd": Obj, "i": INT}, inv,
            variant=lambda ex3, st3: 100 - st3.env["i"], name="delegation-chain")

    def type_invariants(self, ex, st):
        """A-TYPEINV, assumed of every heap the function sees: delegating traits carry a delegate name, and CHasTraits
        instances their class-trait dictionary (has_traits_new)."""
        t = z3.Const("t!ti", Obj)
        return st.assume(
            z3.ForAll([t], z3.Implies(ex.field_array(st, "delegate_attr_name")[t] != 0, ex.field_array(st, "delegate_name")[t] != NULL)),
            z3.ForAll([t], z3.Implies(z3.And(t != NULL, A.subtype(A.type_of(t), ex.cx.const_obj("has_traits_type"))),
                                      ex.field_array(st, "ctrait_dict")[t] != NULL)))

    def c_setup(self, cx, ex, ov):
        traito, traitd, obj, name, value = z3.Consts("traito traitd obj name value", Obj)
        st = CSt().assume(traito != NULL, traitd != NULL, obj != NULL, name != NULL)
        st = self.type_invariants(ex, st)
        st = st.assume(ex.field_array(st, "delegate_name")[traitd] != NULL, A.subtype(A.type_of(obj), cx.const_obj("has_traits_type")))
        flags = ex.field_array(st, "flags")[traito]
        info = dict(traito=traito, traitd=traitd, obj=obj, name=name, value=value, st0=st,
                    witness={"modify_delegate": (flags & MODIFY_DELEGATE) != 0, "deleting": value == NULL},
                    concretise=lambda m: dict(harness="delegate", family="setattr_delegate",
                                              modify=z3.is_true(m.eval((flags & MODIFY_DELEGATE) != 0, model_completion=True)),
                                              deleting=z3.is_true(m.eval(value == NULL, model_completion=True))))
        return st, [traito, traitd, obj, name, value], info

    def c_post(self, cx, ex, ov, info, ret, st):
        traito, obj, name, value = info["traito"], info["obj"], info["name"], info["value"]
        modify = (ex.field_array(info["st0"], "flags")[traito] & MODIFY_DELEGATE) != 0
        T = list(st.trace)
        sets = [r for r in T if r[0] == "setattr"]
        unhooks = [r for r in T if r[0] == "callmethod"]
        out = [("post:negative-iff-error-indicator-set", (ret < 0) == (st.exc != 0)),
               ("post:at-most-one-setattr-handler-call", z3.BoolVal(len(sets) <= 1)),
               ("post:success-means-the-final-trait's-handler-ran", z3.Implies(ret >= 0, z3.BoolVal(len(sets) == 1)))]
        if sets:
            c = sets[0]
            # c = ("setattr", traito', traitd', obj', name', value'); the final trait is c[2]
            out.append(("post:DelegatesTo-stores-into-the-delegate-only", z3.Implies(modify, z3.And(c[1] == c[2], c[5] == value))))
            out.append(("post:DelegatesTo-leaves-the-listener-link-alone", z3.Implies(modify, z3.BoolVal(not unhooks))))
            out.append(("post:PrototypedFrom-stores-on-the-object-validated-by-the-prototype's-trait",
                        z3.Implies(z3.Not(modify), z3.And(c[1] == traito, c[3] == obj, c[4] == name, c[5] == value))))
            out.append(("post:the-handler-is-that-of-the-first-non-delegating-trait-of-the-chain", z3.And(c[6], c[7])))
        out.append(("post:listener-unhooked-at-most-once", z3.BoolVal(len(unhooks) <= 1)))
        if unhooks:
            u = unhooks[0]
            after_set = bool(sets) and T.index(sets[0]) < T.index(u)
            ok_flag = st.ghost.get("setattr_result")
            out.append(("post:listener-unhooked-only-after-the-local-assignment", z3.BoolVal(after_set)))
            out.append(("post:listener-unhooked-only-if-the-assignment-succeeded",
                        ok_flag >= 0 if ok_flag is not None else z3.BoolVal(False)))
            args = u[3]
            out.append(("post:unhook-call-names-object-attribute-and-assign-or-delete", z3.And(
                z3.BoolVal(u[2] == "_remove_trait_delegate_listener" and len(args) == 2), u[1] == obj,
                args[0] == name if len(args) == 2 else z3.BoolVal(False),
                (as_int(args[1]) != 0) == (value != NULL) if len(args) == 2 else z3.BoolVal(False))))
        else:
            out.append(("post:successful-PrototypedFrom-assignment-unhooks-the-listener",
                        z3.Implies(z3.And(ret >= 0, z3.Not(modify)), z3.BoolVal(False))))
        if st.own is not None:
            o = z3.Const("o!own", Obj)
            out.append(("own:reference-neutral", z3.ForAll([o], st.own[o] == info["own0"][o]), {}, ("C18",)))
        return out

    def covers(self, cx, ov, info):
        return [("assigns", lambda r, s: z3.And(r >= 0, z3.BoolVal(any(x[0] == "setattr" for x in s.trace)))),
                ("unhooks", lambda r, s: z3.BoolVal(any(x[0] == "callmethod" for x in s.trace))),
                ("fails", lambda r, s: r < 0)]


@register
class GetattrDelegate(CContract):
    """getattr_delegate(trait, obj, name): the read side of a deferring attribute.

    C11 'always reads as the current value of the target attribute on the current delegate object': one generic attribute
    lookup, on the object currently stored under (or computed for) the delegate name, for the attribute name computed by the
    trait's delegate_attr_name handler; its result is returned as is.
    C18 'errors surface as Python exceptions, never as crashes': that lookup can re-enter getattr_delegate (the delegate's
    attribute may itself defer -- possibly back to obj), so the recursion needs a variant.  The only one available is the
    interpreter's recursion budget: the lookup must run inside Py_EnterRecursiveCall / Py_LeaveRecursiveCall, which turns an
    unbounded chain into RecursionError instead of an overflow of the C stack."""
    qualname = "getattr_delegate"
    properties = ("C11",)
    extra_properties = ("C18",)
    side_props = {"valid-deref": ("C18",), "bounds": ("C18",)}
    own = True
    assumptions = ("A-API", "A-HAVOC", "A-ALLOC", "A-TYPEINV: a delegating trait has a delegate_name",
                   "has_traits_getattro by its own contract; trait->delegate_attr_name by the delegate_attr_name_* contracts",
                   "tp_getattro of the delegate: arbitrary Python code (family contract), may re-enter this function")

    def configure(self, cx, ex, ov):
        from contracts.c.lookup import lookup_env
        lookup_env(cx)

        def getattro(ex2, args, st, k):
            st = st.log(("has_traits_getattro",) + tuple(args))
            return ex2.api.python_call(st, "has_traits_getattro", k, lambda s: k(NULL, s), result_prefix="delegate")
        cx.summaries["has_traits_getattro"] = getattro

        def attr_name(ex2, fn, args, st, k):
            st = st.log(("delegate_attr_name", fn) + tuple(args))
            r, s1 = ex2.api.fresh_obj("daname", st)
            return k(r, s1)
        cx.field_call["delegate_attr_name"] = attr_name

        def tp_getattro(ex2, fn, args, st, k):
            st = st.log(("tp_getattro", args[0], args[1], st.ghost.get("recursion_depth", 0)))
            return ex2.api.python_call(st, "tp_getattro", lambda r, s: k(r, s.gset("looked_up", r)), lambda s: k(NULL, s), result_prefix="value")
        cx.field_call["tp_getattro"] = tp_getattro

    def c_setup(self, cx, ex, ov):
        trait, obj, name = z3.Consts("trait obj name", Obj)
        st = CSt().assume(trait != NULL, obj != NULL, name != NULL, ex.field_array(CSt(), "delegate_name")[trait] != NULL)
        d = A.dict_arr(st)
        od = ex.field_array(st, "obj_dict")[obj]
        stored = z3.If(od == NULL, NULL, d[od][ex.field_array(st, "delegate_name")[trait]])
        return st, [trait, obj, name], dict(trait=trait, obj=obj, name=name, stored=stored, st0=st,
                                            witness={"delegate_in_instance_dict": stored != NULL,
                                                     "name_is_str": A.is_inst(name, "PyUnicode_Type")},
                                            concretise=lambda m: dict(harness="delegate", family="getattr_delegate"))

    def c_post(self, cx, ex, ov, info, ret, st):
        trait, obj, name, stored = info["trait"], info["obj"], info["name"], info["stored"]
        T = list(st.trace)
        looks = [r for r in T if r[0] == "tp_getattro"]
        names = [r for r in T if r[0] == "delegate_attr_name"]
        gets = [r for r in T if r[0] == "has_traits_getattro"]
        out = [("post:NULL-iff-error-indicator-set", (ret == NULL) == (st.exc != 0)),
               ("post:at-most-one-lookup-on-the-delegate", z3.BoolVal(len(looks) <= 1)),
               ("post:success-comes-from-the-delegate", z3.Implies(ret != NULL, z3.BoolVal(len(looks) == 1))),
               ("post:recursion-budget-balanced-on-return", z3.BoolVal(st.ghost.get("recursion_depth", 0) == 0), {}, ("C18",))]
        if looks:
            l = looks[0]
            who = stored if not gets else z3.If(stored != NULL, stored, z3.Const("never", Obj))
            out.append(("post:looks-up-the-name-computed-by-the-trait's-prefix-rule",
                        z3.BoolVal(len(names) == 1) if not names else z3.And(
                            z3.BoolVal(len(names) == 1), names[0][2] == trait, names[0][3] == obj, names[0][4] == name)))
            out.append(("post:delegate-is-the-object-stored-under-the-delegate-name", z3.Implies(stored != NULL, z3.And(l[1] == stored, z3.BoolVal(not gets)))))
            out.append(("post:otherwise-the-delegate-is-computed-through-normal-attribute-access",
                        z3.Implies(stored == NULL, z3.BoolVal(len(gets) == 1) if not gets else z3.And(
                            gets[0][1] == obj, gets[0][2] == ex.field_array(info["st0"], "delegate_name")[trait]))))
            looked = st.ghost.get("looked_up")
            out.append(("post:returns-the-delegate's-value-as-is", z3.Implies(ret != NULL, ret == looked if looked is not None else z3.BoolVal(False))))
            out.append(("post:re-entrant-lookup-is-charged-to-the-recursion-budget", z3.BoolVal(l[3] >= 1),
                        dict(note="the delegate's attribute may defer again (even back to this object): without "
                                  "Py_EnterRecursiveCall the recursion has no variant and a delegation cycle overflows the C stack"), ("C18",)))
        return out + own_neutral(st, info, ret)

    def covers(self, cx, ov, info):
        return [("reads", lambda r, s: r != NULL), ("fails", lambda r, s: r == NULL)]


@register
class HasTraitsTrait(CContract):
    """_has_traits_trait(obj, (name, instance)) -- HasTraits._trait / trait() / base_trait().
    instance >= -1: whatever get_trait answers.  instance < -1 (base_trait): follow the delegation chain, of ANY length
    (loop invariant), to the first trait that does not delegate.  C18: every path -- including every way the chain can be
    broken (delegate missing, not a HasTraits object, target not a trait, recursion limit) -- gives back the references it
    took: to the current trait, the current delegate and the current attribute name."""
    qualname = "_has_traits_trait"
    properties = ("C11",)
    extra_properties = ("C18",)
    side_props = {"valid-deref": ("C18",), "bounds": ("C18",)}
    own = True
    assumptions = ("A-API", "A-HAVOC", "A-ALLOC", "A-INT", "A-TYPEINV: a delegating trait has a delegate_name; CHasTraits objects have a class-trait dict",
                   "get_trait (new reference or NULL+error), has_traits_getattro, get_prefix_trait, trait->delegate_attr_name through summaries",
                   "termination: variant 100 - i")

    def configure(self, cx, ex, ov):
        from contracts.c.lookup import lookup_env
        lookup_env(cx)
        self._own0 = z3.Const("own0", z3.ArraySort(Obj, INT))
        sd = SetattrDelegate()
        self._ti = lambda ex2, st: sd.type_invariants(ex2, st)
        cx.havoc_keeps = lambda api, before, after: self._ti(api.ex, after)

        def get_trait(ex2, args, st, k):
            st = st.log(("get_trait",) + tuple(args))
            return ex2.api.python_call(st, "get_trait", lambda r, s: k(r, s.gset("first_trait", r)), lambda s: k(NULL, s), result_prefix="trait")
        cx.summaries["get_trait"] = get_trait

        def getattro(ex2, args, st, k):
            st = st.log(("has_traits_getattro",) + tuple(args))
            return ex2.api.python_call(st, "has_traits_getattro", k, lambda s: k(NULL, s), result_prefix="delegate")
        cx.summaries["has_traits_getattro"] = getattro

        def attr_name(ex2, fn, args, st, k):
            r, s1 = ex2.api.fresh_obj("daname", st.log(("delegate_attr_name", fn) + tuple(args)))
            return k(r, s1)
        cx.field_call["delegate_attr_name"] = attr_name
        for nm, code in (("bad_delegate_error", EXC["DelegationError"]), ("bad_delegate_error2", EXC["DelegationError"]),
                         ("fatal_trait_error", EXC["TraitError"]), ("delegation_recursion_error2", EXC["DelegationError"])):
            def err(ex2, args, st, k, nm=nm, code=code):
                e = cx.fresh("exc", INT)
                return k(z3.IntVal(-1), st.log((nm,) + tuple(args)).assume(z3.Or(e == code, e == EXC["TypeError"])).with_exc(e))
            cx.summaries[nm] = err

        def inv(ex2, st, entry):
            own0 = self._own0
            tr, dele, dan, i = st.env["trait"], st.env["delegate"], st.env["daname"], st.env["i"]
            o1 = A.own_add(own0, tr, 1)
            o2 = A.own_add(o1, dele, 1)
            o3 = A.own_add(o2, dan, 1)
            out = [("trait-delegate-and-name-each-held-by-one-reference", z3.And(tr != NULL, dele != NULL, dan != NULL, st.own == o3)),
                   ("no-error-pending", st.exc == 0), ("hop-count-in-range", z3.And(i >= 0, i < 100))]
            for n in ("obj", "name", "instance"):
                out.append(("%s-unchanged" % n, st.env[n] == entry.env[n]))
            return out
        cx.on_loop = lambda ex2, s, st: ex2.invariant_loop(
            s, st, {"daname": Obj, "delegate": Obj, "trait": Obj, "i": INT}, inv,
            variant=lambda ex3, st3: 100 - st3.env["i"], name="delegation-chain")

    def c_setup(self, cx, ex, ov):
        obj, args = z3.Consts("obj args", Obj)
        st = CSt().assume(obj != NULL, args != NULL, A.is_inst(args, "PyTuple_Type"), A.subtype(A.type_of(obj), cx.const_obj("has_traits_type")))
        st = self._ti(ex, st)
        return st, [obj, args], dict(obj=obj, st0=st, witness={},
                                     concretise=lambda m: dict(harness="delegate", family="base_trait"))

    def c_post(self, cx, ex, ov, info, ret, st):
        first = st.ghost.get("first_trait")
        out = [("post:NULL-iff-error-indicator-set", (ret == NULL) == (st.exc != 0))]
        inst = st.env.get("instance") if hasattr(st, "env") else None
        looped = any(r[0] == "python" and str(r[1]).startswith("loop-head:") for r in st.trace)
        if looped:
            out.append(("post:base-trait-does-not-delegate", z3.Implies(ret != NULL, ex.field_array(st, "delegate_attr_name")[ret] == 0)))
        elif first is not None:
            out.append(("post:without-chain-following-the-answer-is-get_trait's", z3.Implies(ret != NULL, ret == first)))
        return out + own_neutral(st, info, ret)

    def covers(self, cx, ov, info):
        return [("returns", lambda r, s: r != NULL),
                ("follows-the-chain", lambda r, s: z3.And(r != NULL, z3.BoolVal(any(x[0] == "python" and str(x[1]).startswith("loop-head:") for x in s.trace)))),
                ("fails", lambda r, s: r == NULL)]
