"""C13: which trait governs a name, and the access policies (compiled side).

governing(name) = the instance trait of that name if one was added, else the class trait of that name, else the
prefix (wildcard) trait resolved by __prefix_trait__.  Policies: disallow -> AttributeError on read / TraitError on write;
constant -> TraitError on write; event -> AttributeError on read; read-only -> exactly one defining assignment."""
import z3

from vc.unit import CContract, register
from vc.cvc.core import Obj, NULL, INT, EXC, CSt
from vc.cvc import api as A
from contracts.c.setattr import UNDEFINED, install_families


def lookup_env(cx):
    install_families(cx)

    def setattr_family(ex, fn, args, st, k):
        st = st.log(("setattr",) + tuple(args))
        s1 = ex.api.havoc(st, "trait->setattr")
        e = cx.fresh("exc", INT)
        return k(z3.IntVal(0), s1) + k(z3.IntVal(-1), s1.assume(e >= 1).with_exc(e))
    cx.field_call["setattr"] = setattr_family

    def get_prefix_trait(ex, args, st, k):
        """by its own contract (below): the wildcard trait for the name (a borrowed reference), or NULL with an exception"""
        obj, name, is_set = args
        st = st.log(("get_prefix_trait", obj, name, is_set))
        s1 = ex.api.havoc(st, "get_prefix_trait")
        r = z3.Function("prefix_trait_for", Obj, Obj, Obj)(obj, name)
        e = cx.fresh("exc", INT)
        return k(r, s1.assume(r != NULL)) + k(NULL, s1.assume(e >= 1).with_exc(e))
    cx.summaries["get_prefix_trait"] = get_prefix_trait

    def invalid_attribute_error(ex, args, st, k):
        return k(z3.IntVal(-1), st.with_exc(EXC["TypeError"]))
    cx.summaries["invalid_attribute_error"] = invalid_attribute_error


def governing(ex, st, obj, name):
    """(instance trait or NULL, class trait or NULL) as read from the two trait dictionaries"""
    d = A.dict_arr(st)
    itd = ex.field_array(st, "itrait_dict")[obj]
    ctd = ex.field_array(st, "ctrait_dict")[obj]
    inst = z3.If(itd == NULL, NULL, d[itd][name])
    cls = d[ctd][name]
    return inst, cls


class _Lookup(CContract):
    properties = ("C13",)
    extra_properties = ("C18",)
    side_props = {"valid-deref": ("C18",), "bounds": ("C18",)}
    assumptions = ("A-API", "A-HAVOC", "the values of the two trait dictionaries are CTrait objects (data-structure invariant)",
                   "get_prefix_trait / trait->setattr / trait->getattr through family contracts")

    def configure(self, cx, ex, ov):
        lookup_env(cx)

    def base_state(self, ex):
        obj, name = z3.Consts("obj name", Obj)
        st = CSt().assume(obj != NULL, name != NULL, ex.field_array(CSt(), "ctrait_dict")[obj] != NULL)
        return st, obj, name


@register
class HasTraitsSetattro(_Lookup):
    qualname = "has_traits_setattro"

    def c_setup(self, cx, ex, ov):
        st, obj, name = self.base_state(ex)
        value = z3.Const("value", Obj)
        inst, cls = governing(ex, st, obj, name)
        return st, [obj, name, value], dict(obj=obj, name=name, value=value, inst=inst, cls=cls,
                                            witness={"has_instance_trait": inst != NULL, "has_class_trait": cls != NULL})

    def c_post(self, cx, ex, ov, info, ret, st):
        obj, name, value, inst, cls = info["obj"], info["name"], info["value"], info["inst"], info["cls"]
        calls = [r for r in st.trace if r[0] == "setattr"]
        prefix = [r for r in st.trace if r[0] == "get_prefix_trait"]
        out = [("post:at-most-one-setattr-handler-call", z3.BoolVal(len(calls) <= 1))]
        if calls:
            c = calls[0]
            pt = z3.Function("prefix_trait_for", Obj, Obj, Obj)(obj, name)
            gov = z3.If(inst != NULL, inst, z3.If(cls != NULL, cls, pt))
            out.append(("post:governed-by-instance-then-class-then-prefix-trait", z3.And(c[1] == gov, c[2] == gov)))
            out.append(("post:handler-gets-object-name-value", z3.And(c[3] == obj, c[4] == name, c[5] == value)))
            out.append(("post:prefix-trait-consulted-only-without-explicit-trait",
                        z3.BoolVal(bool(prefix)) == z3.And(inst == NULL, cls == NULL)))
        else:
            out.append(("post:no-handler-only-when-no-trait-could-be-resolved", z3.And(ret == -1, inst == NULL, cls == NULL, st.exc != 0)))
        return out

    def covers(self, cx, ov, info):
        return [("dispatches", lambda r, s: z3.BoolVal(any(x[0] == "setattr" for x in s.trace)))]


@register
class HasTraitsGetattro(_Lookup):
    qualname = "has_traits_getattro"
    own = True

    def c_setup(self, cx, ex, ov):
        st, obj, name = self.base_state(ex)
        inst, cls = governing(ex, st, obj, name)
        d = A.dict_arr(st)
        od = ex.field_array(st, "obj_dict")[obj]
        stored = z3.If(od == NULL, NULL, d[od][name])
        return st, [obj, name], dict(obj=obj, name=name, inst=inst, cls=cls, stored=stored, od=od,
                                     witness={"has_instance_trait": inst != NULL, "has_class_trait": cls != NULL, "value_stored": stored != NULL})

    def c_post(self, cx, ex, ov, info, ret, st):
        obj, name, inst, cls, stored, od = (info[k] for k in ("obj", "name", "inst", "cls", "stored", "od"))
        gets = [r for r in st.trace if r[0] == "getattr"]
        generic = [r for r in st.trace if r[0] == "generic-getattr"]
        prefix = [r for r in st.trace if r[0] == "get_prefix_trait"]
        is_str = A.is_inst(name, "PyUnicode_Type")
        out = [("post:NULL-iff-error-indicator-set", (ret == NULL) == (st.exc != 0)),
               ("post:at-most-one-getattr-handler-call", z3.BoolVal(len(gets) <= 1))]
        fast = z3.And(od != NULL, is_str, stored != NULL)
        out.append(("post:stored-value-returned-as-is", z3.Implies(fast, z3.And(ret == stored, z3.BoolVal(not gets and not generic)))))
        if gets:
            g = gets[0]
            pt = z3.Function("prefix_trait_for", Obj, Obj, Obj)(obj, name)
            gov = z3.If(inst != NULL, inst, z3.If(cls != NULL, cls, pt))
            out.append(("post:governed-by-instance-then-class-then-prefix-trait", z3.And(g[1] == gov, g[2] == obj, g[3] == name)))
            out.append(("post:prefix-trait-only-after-plain-lookup-failed", z3.BoolVal(bool(prefix)) == z3.And(inst == NULL, cls == NULL)))
            out.append(("post:plain-python-lookup-only-without-explicit-trait", z3.Implies(z3.BoolVal(bool(generic)), z3.And(inst == NULL, cls == NULL))))
        else:
            # 'For any attribute name, reads ... are governed by ...': a read that no trait handler answered is either the stored
            # value, a plain Python attribute found by the generic lookup, a name that is no str -- or the resolution of the
            # governing (prefix) trait itself failed.  No name is refused on its spelling alone.
            # (a plain attribute whose own descriptor raises something else than AttributeError propagates that error)
            out.append(("post:no-read-is-refused-without-consulting-the-governing-trait", z3.Or(
                ret != NULL, z3.Not(is_str), z3.BoolVal(bool(prefix)), z3.And(z3.BoolVal(bool(generic)), st.exc != EXC["AttributeError"]))))
        if st.own is not None:
            o = z3.Const("o!own", Obj)
            out.append(("own:reference-neutral", z3.ForAll([o], st.own[o] == info["own0"][o] + z3.If(z3.And(o == ret, ret != NULL, z3.Not(A.immortal(ret))), 1, 0)),
                        {}, ("C18",)))
        return out

    def covers(self, cx, ov, info):
        return [("fast-path", lambda r, s: z3.And(r != NULL, z3.BoolVal(not any(x[0] in ("getattr", "generic-getattr") for x in s.trace)))),
                ("dispatches", lambda r, s: z3.BoolVal(any(x[0] == "getattr" for x in s.trace)))]


class _Policy(CContract):
    properties = ("C13",)
    extra_properties = ("C18",)
    side_props = {"valid-deref": ("C18",), "bounds": ("C18",)}
    own = True
    assumptions = ("A-API",)
    setter = True

    def configure(self, cx, ex, ov):
        lookup_env(cx)

        def setattr_python(ex2, args, st, k):
            st = st.log(("setattr_python",) + tuple(args))
            e = cx.fresh("exc", INT)
            return k(z3.IntVal(0), st) + k(z3.IntVal(-1), st.assume(e >= 1).with_exc(e))
        cx.summaries["setattr_python"] = setattr_python

        def unknown_attribute_error(ex2, args, st, k):
            return k(None, st.with_exc(EXC["AttributeError"]))
        cx.summaries["unknown_attribute_error"] = unknown_attribute_error

    def c_setup(self, cx, ex, ov):
        traito, traitd, obj, name, value = z3.Consts("traito traitd obj name value", Obj)
        st = CSt().assume(traito != NULL, traitd != NULL, obj != NULL, name != NULL)
        args = [traito, traitd, obj, name, value] if self.setter else [traitd, obj, name]
        return st, args, dict(traitd=traitd, obj=obj, name=name, value=value, st0=st,
                              witness={"name_is_str": A.is_inst(name, "PyUnicode_Type"), "deleting": value == NULL})

    def neutral(self, st, info, ret=None):
        if st.own is None:
            return []
        o = z3.Const("o!own", Obj)
        extra = z3.If(z3.And(o == ret, ret != NULL, z3.Not(A.immortal(ret))), 1, 0) if ret is not None else 0
        return [("own:reference-neutral", z3.ForAll([o], st.own[o] == info["own0"][o] + extra), {}, ("C18",))]

    def always_fails(self, ret, st, code, setter):
        is_str = A.is_inst(self._name, "PyUnicode_Type")
        bad = (ret == -1) if setter else (ret == NULL)
        return [("post:always-refused", bad),
                ("post:refusal-is-%s" % code, z3.Implies(is_str, st.exc == EXC[code])),
                ("frame:nothing-stored", z3.BoolVal(not any(r[0] in ("dict-set", "store", "setattr_python") for r in st.trace)))]


@register
class SetattrDisallow(_Policy):
    qualname = "setattr_disallow"

    def c_post(self, cx, ex, ov, info, ret, st):
        self._name = info["name"]
        return self.always_fails(ret, st, "TraitError", True) + self.neutral(st, info)


@register
class SetattrConstant(_Policy):
    qualname = "setattr_constant"

    def c_post(self, cx, ex, ov, info, ret, st):
        self._name = info["name"]
        return self.always_fails(ret, st, "TraitError", True) + self.neutral(st, info)


@register
class GetattrDisallow(_Policy):
    qualname = "getattr_disallow"
    setter = False

    def c_post(self, cx, ex, ov, info, ret, st):
        self._name = info["name"]
        return self.always_fails(ret, st, "AttributeError", False) + self.neutral(st, info, ret)


@register
class GetattrEvent(_Policy):
    qualname = "getattr_event"
    setter = False

    def c_post(self, cx, ex, ov, info, ret, st):
        self._name = info["name"]
        return [("post:always-refused", ret == NULL), ("post:refusal-is-AttributeError", st.exc == EXC["AttributeError"]),
                ("frame:nothing-stored", z3.BoolVal(not any(r[0] in ("dict-set", "store") for r in st.trace)))] + self.neutral(st, info, ret)


@register
class SetattrReadonly(_Policy):
    """a ReadOnly attribute accepts exactly one defining assignment: it is written (through setattr_python) iff no default
    is declared (default is Undefined) and no value other than Undefined is stored yet; deleting is refused."""
    qualname = "setattr_readonly"

    def configure(self, cx, ex, ov):
        super().configure(cx, ex, ov)
        cx.globals["Undefined"] = UNDEFINED

        def err(ex2, args, st, k):
            return ex2.cx.branch(st, A.is_inst(args[1], "PyUnicode_Type"), lambda s: k(z3.IntVal(-1), s.with_exc(EXC["TraitError"])),
                                 lambda s: k(z3.IntVal(-1), s.with_exc(EXC["TypeError"])))
        cx.summaries["delete_readonly_error"] = err
        cx.summaries["set_readonly_error"] = err

    def c_post(self, cx, ex, ov, info, ret, st):
        traitd, obj, name, value, st0 = info["traitd"], info["obj"], info["name"], info["value"], info["st0"]
        d = A.dict_arr(st0)
        od = ex.field_array(st0, "obj_dict")[obj]
        stored = z3.If(od == NULL, NULL, d[od][name])
        no_default = ex.field_array(st0, "default_value")[traitd] == UNDEFINED
        writes = [r for r in st.trace if r[0] == "setattr_python"]
        is_str = A.is_inst(name, "PyUnicode_Type")
        may_write = z3.And(value != NULL, no_default, z3.Or(stored == NULL, stored == UNDEFINED), z3.Or(od == NULL, is_str))
        out = [("post:written-iff-not-yet-defined", z3.BoolVal(bool(writes)) == may_write),
               ("post:refusal-is-TraitError", z3.Implies(z3.And(z3.BoolVal(not writes), is_str), z3.And(ret == -1, st.exc == EXC["TraitError"])))]
        for w in writes:
            out.append(("post:the-assigned-value-is-what-is-written", z3.And(w[3] == obj, w[4] == name, w[5] == value)))
        return out + self.neutral(st, info)

    def covers(self, cx, ov, info):
        return [("writes", lambda r, s: z3.BoolVal(any(x[0] == "setattr_python" for x in s.trace))), ("refuses", lambda r, s: r == -1)]
