"""C18 / C03: _trait_set_validate is the gate through which every validation descriptor reaches a compiled validator.

The contracts of the validate_trait_* functions ASSUME a well-formed descriptor (`wf`: tuple length, item types).  This
contract turns those assumptions into an established invariant: whenever set_validate accepts a descriptor and installs
validate_handlers[kind], the descriptor satisfies the `wf` the validator of that kind is verified under -- so no sequence
of set_validate / validate calls can make a compiled validator read outside the descriptor or treat a non-tuple as a
tuple.  The gate's own reads must stay inside the tuple it inspects."""
import z3

from vc.unit import CContract, register, BY_ID
from vc.cvc.core import Obj, NULL, INT, EXC, CSt
from vc.cvc import api as A
from vc.cvc import front

CTRAIT = z3.Const("g_ctrait_type", Obj)


def wf_tuple_of(tinfo):
    """what validate_trait_tuple_check dereferences: (9, (trait, trait, ...)) with every entry a cTrait"""
    items = A.tuple_item(tinfo, z3.IntVal(1))
    j = z3.Int("j!wf9")
    return z3.And(A.tuple_len(tinfo) == 2, A.is_exact(items, "PyTuple_Type"),
                  z3.ForAll([j], z3.Implies(z3.And(0 <= j, j < A.tuple_len(items)),
                                            z3.And(A.tuple_item(items, j) != NULL, A.subtype(A.type_of(A.tuple_item(items, j)), CTRAIT)))))


def wf_complex(tinfo):
    """what validate_trait_complex dereferences before dispatching on an entry: every entry is a non-empty tuple"""
    items = A.tuple_item(tinfo, z3.IntVal(1))
    j = z3.Int("j!wf7")
    return z3.And(A.tuple_len(tinfo) == 2, A.is_exact(items, "PyTuple_Type"),
                  z3.ForAll([j], z3.Implies(z3.And(0 <= j, j < A.tuple_len(items)), z3.And(
                      A.tuple_item(items, j) != NULL, A.is_inst(A.tuple_item(items, j), "PyTuple_Type"), A.tuple_len(A.tuple_item(items, j)) >= 1))))


EXTRA_WF = {"validate_trait_tuple": wf_tuple_of, "validate_trait_complex": wf_complex}


@register
class TraitSetValidate(CContract):
    qualname = "_trait_set_validate"
    properties = ("C03",)
    extra_properties = ("C18",)
    side_props = {"valid-deref": ("C18",), "bounds": ("C18",)}
    own = True
    assumptions = ("A-API", "A-HAVOC", "A-ALLOC", "A-INT", "A-TUPLE: tuples handed in from Python have no NULL items", "the `wf` predicates are those of the validator contracts (contracts/c/validators.py), "
                   "plus the two stated here for the tuple and compound validators")

    def configure(self, cx, ex, ov):
        j = z3.Int("j!g9")

        def inv(ex2, st, entry):
            i, m, v1 = st.env["i"], st.env["m"], st.env["v1"]
            return [("index-in-range", z3.And(0 <= i, i <= m, m == A.tuple_len(v1))),
                    ("entries-so-far-are-traits", z3.ForAll([j], z3.Implies(z3.And(0 <= j, j < i), z3.And(
                        A.tuple_item(v1, j) != NULL, A.subtype(A.type_of(A.tuple_item(v1, j)), CTRAIT))))),
                    ("nothing-else-changes", z3.And(st.exc == entry.exc, st.own == entry.own))]
        cx.on_loop = lambda ex2, s, st: ex2.invariant_loop(s, st, {"i": INT}, inv, heap=False, name="tuple-entries",
                                                           variant=lambda e3, s3: s3.env["m"] - s3.env["i"])

    def c_setup(self, cx, ex, ov):
        trait, args = z3.Consts("trait args", Obj)
        st = CSt().assume(trait != NULL, args != NULL, A.is_inst(args, "PyTuple_Type"))
        cx.globals["ctrait_type"] = CTRAIT
        t, q = z3.Const("t!tup", Obj), z3.Int("q!tup")
        # A-TUPLE: a tuple handed in from Python has no NULL item
        cx.axioms.append(z3.ForAll([t, q], z3.Implies(z3.And(A.is_inst(t, "PyTuple_Type"), 0 <= q, q < A.tuple_len(t)), A.tuple_item(t, q) != NULL)))
        return st, [trait, args], dict(trait=trait, st0=st, witness={},
                                       concretise=lambda m: dict(harness="cvalidators", family="set_validate_gate"))

    def c_post(self, cx, ex, ov, info, ret, st):
        trait = info["trait"]
        st0 = info["st0"]
        fn = ex.field_array(st, "validate")[trait]
        d = ex.field_array(st, "py_validate")[trait]
        stores = [r for r in st.trace if r[0] == "store"]
        out = [("post:NULL-iff-error-indicator-set", (ret == NULL) == (st.exc != 0)),
               ("raise:refusal-writes-nothing-into-the-trait", z3.Implies(ret == NULL, z3.BoolVal(not stores)))]
        tab = front.table("validate_handlers")
        out.append(("post:installed-validator-is-a-table-entry", z3.Implies(ret != NULL, z3.Or(*[fn == cx.fn_id(nm) for nm in tab if nm]))))
        dummy_obj, dummy_val = z3.Consts("any_obj any_value", Obj)
        for kind, nm in enumerate(tab):
            if nm is None:
                continue
            contract = next((c for c in BY_ID.values() if c.qualname == nm and hasattr(c, "wf")), None)
            if nm in EXTRA_WF:
                wf = EXTRA_WF[nm](d)
            elif contract is not None:
                wf = contract.wf(d, trait, dummy_obj, dummy_val)
                if getattr(contract, "descriptor_is_tuple", True):
                    wf = z3.And(A.is_inst(d, "PyTuple_Type"), wf)
            else:
                continue
            out.append(("post:accepted-descriptor-is-well-formed-for-%s" % nm, z3.Implies(z3.And(ret != NULL, fn == cx.fn_id(nm)), wf),
                        dict(kind=kind), ("C03", "C18")))
        if st.own is not None:
            o = z3.Const("o!own", Obj)
            out.append(("own:reference-neutral", z3.ForAll([o], st.own[o] == info["own0"][o] + z3.If(
                z3.And(o == ret, ret != NULL, z3.Not(A.immortal(ret))), 1, 0)), {}, ("C18",)))
        return out

    def covers(self, cx, ov, info):
        return [("accepts", lambda r, s: r != NULL), ("refuses", lambda r, s: r == NULL)]
