"""C02 / C19 / C18, compiled side: call_notifiers -- the one place where change handlers are invoked from C.

'registered handlers are called exactly once per real change ... with truthful old and new': given the two notifier
lists (trait-level, object-level) as they are WHEN THE CALL STARTS, the handlers invoked are a prefix of
trait-notifiers ++ object-notifiers, in that order, each exactly once, each with the same argument tuple
(object, name, old, new).  The prefix is the whole sequence unless a handler fails (-1, the exception stays set, later
handlers are not run) or the new value vetoes further notification.  Handlers that add or remove handlers while running do
not change who is called in this round (the lists are snapshotted before the first call).  With notifications disabled on
the object nobody is called.  Any number of handlers: three loops, each with an inductive invariant; the calls are counted
in ghost state (ncalls, callee[k]) because their number is symbolic."""
import z3

from vc.unit import CContract, register
from vc.cvc.core import Obj, NULL, INT, BV32, EXC, CSt, strip
from vc.cvc import api as A

NO_NOTIFY, VETO = 0x2, 0x4
CALLEE = z3.ArraySort(INT, Obj)


def cond_text(s):
    """which of the three loops: the right-hand side of `i < ...`"""
    c = strip(s["inner"][2])
    rhs = strip(c["inner"][1])
    if rhs.get("kind") == "DeclRefExpr":
        return rhs["referencedDecl"]["name"]
    return "total"


@register
class CallNotifiers(CContract):
    qualname = "call_notifiers"
    properties = ("C02", "C19")
    extra_properties = ("C18",)
    side_props = {"valid-deref": ("C18",), "bounds": ("C18",)}
    own = True
    assumptions = ("A-API", "A-HAVOC", "A-ALLOC", "A-INT",
                   "the snapshot list is local: Python code run by a handler cannot reach it (it is not yet visible to the GC "
                   "walkers used by ordinary code)",
                   "callers pass non-NULL obj, name, old and new values (checked at the call sites of setattr_trait etc.)",
                   "termination: variants t_len - i, o_len - i, t_len + o_len - i")

    def configure(self, cx, ex, ov):
        obj, new_value = z3.Consts("obj new_value", Obj)

        def keep(api, before, after):
            # the local snapshot list (and its length) is out of reach of Python code
            al = before.env.get("all_notifiers")
            if al is None or not z3.is_expr(al):
                return after
            return after.assume(A.list_len_arr(after)[al] == A.list_len_arr(before)[al],
                                A.list_item_arr(after)[al] == A.list_item_arr(before)[al])
        cx.havoc_keeps = keep

        def py_call(ex2, args, st, k):
            """PyObject_Call(callee, args, NULL) with ghost counting"""
            callee, tup = args[0], args[1]
            st = ex2.api.nonnull(st, callee, "PyObject_Call")
            n = st.ghost["ncalls"]
            st = st.gset("callee", z3.Store(st.ghost["callee"], n, callee)).gset("ncalls", n + 1)
            st = st.gset("same_args", z3.And(st.ghost["same_args"], tup == st.env["args"]))
            return ex2.api.python_call(st, "PyObject_Call", k, lambda s: k(NULL, s))
        cx.summaries["PyObject_Call"] = py_call

        def pack(ex2, args, st, k):
            return A._tuple_pack(ex2.api, args, st, lambda r, s: k(r, s.gset("args_tuple", r)))
        cx.summaries["PyTuple_Pack"] = pack
        j = z3.Int("j!cn")

        def copy_inv(which):
            def inv(ex2, st, entry):
                i, al = st.env["i"], st.env["all_notifiers"]
                t_len, o_len = st.env["t_len"], st.env["o_len"]
                items, items_e = A.list_item_arr(st), A.list_item_arr(entry)
                src = st.env["tnotifiers"] if which == "t_len" else st.env["onotifiers"]
                off = z3.IntVal(0) if which == "t_len" else t_len
                n = t_len if which == "t_len" else o_len
                l = z3.Const("l!cn", Obj)
                return [("index-in-range", z3.And(0 <= i, i <= n)),
                        ("copied-so-far", z3.ForAll([j], z3.Implies(z3.And(off <= j, j < off + i), items[al][j] == items_e[src][j - off]))),
                        ("earlier-part-kept", z3.ForAll([j], z3.Implies(z3.And(0 <= j, j < off), items[al][j] == items_e[al][j]))),
                        ("rest-still-empty", z3.ForAll([j], z3.Implies(j >= i + off, items[al][j] == NULL))),
                        ("other-lists-untouched", z3.ForAll([l], z3.Implies(l != al, items[l] == items_e[l]))),
                        ("references-balanced", st.own == entry.own), ("no-error-pending", st.exc == entry.exc)]
            return inv

        def call_inv(ex2, st, entry):
            i, al = st.env["i"], st.env["all_notifiers"]
            total = st.env["t_len"] + st.env["o_len"]
            g = st.ghost
            return [("index-in-range", z3.And(0 <= i, i <= total)),
                    ("every-handler-so-far-called-once-in-order", z3.And(
                        g["ncalls"] == i, z3.ForAll([j], z3.Implies(z3.And(0 <= j, j < i), g["callee"][j] == A.list_item_arr(st)[al][j])))),
                    ("all-with-the-same-arguments", g["same_args"]),
                    ("snapshot-intact", z3.And(A.list_len_arr(st)[al] == A.list_len_arr(entry)[al], A.list_item_arr(st)[al] == A.list_item_arr(entry)[al])),
                    ("no-failure-so-far", z3.And(st.exc == 0, st.env["rc"] == 0)),
                    ("references-balanced", st.own == entry.own)]

        def on_loop(ex2, s, st):
            which = cond_text(s)
            if which in ("t_len", "o_len"):
                return ex2.invariant_loop(s, st, {"i": INT, "item": Obj}, copy_inv(which), heap=False, mems=["@listitem"],
                                          name="copy-" + which, variant=lambda e3, s3: s3.env[which] - s3.env["i"])
            return ex2.invariant_loop(s, st, {"i": INT, "result": Obj, "rc": INT}, call_inv, heap=True, name="call-handlers",
                                      ghosts={"ncalls": INT, "callee": CALLEE, "same_args": z3.BoolSort()},
                                      variant=lambda e3, s3: s3.env["t_len"] + s3.env["o_len"] - s3.env["i"])
        cx.on_loop = on_loop

    def c_setup(self, cx, ex, ov):
        tn, on, obj, name, old, new = z3.Consts("tnotifiers onotifiers obj name old_value new_value", Obj)
        st = CSt().assume(obj != NULL, name != NULL, old != NULL, new != NULL)
        st = st.with_mem("@listlen", z3.Const("listlen_in", z3.ArraySort(Obj, INT)))
        st = st.with_mem("@listitem", z3.Const("listitem_in", z3.ArraySort(Obj, z3.ArraySort(INT, Obj))))
        ll = A.list_len_arr(st)
        st = st.assume(z3.Implies(tn != NULL, z3.And(A.is_inst(tn, "PyList_Type"), ll[tn] >= 0)),
                       z3.Implies(on != NULL, z3.And(A.is_inst(on, "PyList_Type"), ll[on] >= 0)))
        j = z3.Int("j!in")
        items = A.list_item_arr(st)
        st = st.assume(z3.ForAll([j], z3.Implies(z3.And(0 <= j, j < ll[tn]), items[tn][j] != NULL)),
                       z3.ForAll([j], z3.Implies(z3.And(0 <= j, j < ll[on]), items[on][j] != NULL)))
        st = st.gset("ncalls", z3.IntVal(0)).gset("callee", z3.Const("callee0", CALLEE)).gset("same_args", z3.BoolVal(True))
        self._st0 = st
        flags = ex.field_array(st, "flags")[obj]
        info = dict(tn=tn, on=on, obj=obj, name=name, old=old, new=new, st0=st,
                    witness={"notifications_disabled": (flags & NO_NOTIFY) != 0, "trait_notifiers": z3.If(tn == NULL, 0, ll[tn]),
                             "object_notifiers": z3.If(on == NULL, 0, ll[on])},
                    concretise=lambda m: dict(harness="notif", family="call_notifiers"))
        return st, [tn, on, obj, name, old, new], info

    def c_post(self, cx, ex, ov, info, ret, st):
        tn, on, obj, new = info["tn"], info["on"], info["obj"], info["new"]
        st0 = info["st0"]
        ll0, items0 = A.list_len_arr(st0), A.list_item_arr(st0)
        t_len = z3.If(tn == NULL, 0, ll0[tn])
        o_len = z3.If(on == NULL, 0, ll0[on])
        total = t_len + o_len
        g = st.ghost
        n = g["ncalls"]
        disabled = (ex.field_array(st0, "flags")[obj] & NO_NOTIFY) != 0
        j = z3.Int("j!post")
        expected = lambda q: z3.If(q < t_len, items0[tn][q], items0[on][q - t_len])
        vetoed = z3.And(A.subtype(A.type_of(new), cx.const_obj("has_traits_type")), (ex.field_array(st, "flags")[new] & VETO) != 0)
        args = st.env.get("args") if hasattr(st, "env") else None
        out = [("post:returns-0-or-minus-1", z3.Or(ret == 0, ret == -1)),
               ("post:minus-one-iff-error-indicator-set", (ret == -1) == (st.exc != 0)),
               ("post:notifications-disabled-means-nobody-is-called", z3.Implies(disabled, z3.And(n == 0, ret == 0))),
               ("post:handlers-called-are-a-prefix-of-trait-then-object-notifiers-as-on-entry", z3.And(
                   0 <= n, n <= total, z3.ForAll([j], z3.Implies(z3.And(0 <= j, j < n), g["callee"][j] == expected(j))))),
               ("post:every-handler-gets-the-same-argument-tuple", g["same_args"]),
               ("post:all-handlers-run-unless-one-fails-or-the-new-value-vetoes",
                z3.Implies(z3.And(ret == 0, z3.Not(disabled), z3.Not(vetoed)), n == total)),
               ("raise:a-failing-handler-stops-the-round", z3.Implies(ret == -1, n >= 1))]
        tup = st.ghost.get("args_tuple")
        if tup is not None:
            out.append(("post:arguments-are-object-name-old-new", z3.And(
                A.tuple_len(tup) == 4, A.tuple_item(tup, z3.IntVal(0)) == obj, A.tuple_item(tup, z3.IntVal(1)) == info["name"],
                A.tuple_item(tup, z3.IntVal(2)) == info["old"], A.tuple_item(tup, z3.IntVal(3)) == new)))
        if st.own is not None:
            o = z3.Const("o!own", Obj)
            out.append(("own:reference-neutral", z3.ForAll([o], st.own[o] == info["own0"][o]), {}, ("C18",)))
        return out

    def covers(self, cx, ov, info):
        return [("silent", lambda r, s: z3.And(r == 0, s.ghost["ncalls"] == 0)),
                ("notifies", lambda r, s: z3.And(r == 0, s.ghost["ncalls"] >= 1)),
                ("handler-fails", lambda r, s: z3.BoolVal(z3.is_int_value(z3.simplify(r)) and z3.simplify(r).as_long() == -1))]


# ---------------------------------------------------------------------------------------------------------------------
# default_value_for: C10 'the default is computed for THIS instance: mutable defaults are fresh copies, callables get the
# object, dynamic defaults go through the trait's validator'
# ---------------------------------------------------------------------------------------------------------------------
@register
class DefaultValueFor(CContract):
    qualname = "default_value_for"
    properties = ("C10", "C19")
    extra_properties = ("C18",)
    side_props = {"valid-deref": ("C18",), "bounds": ("C18",)}
    own = True
    overloads = tuple("kind:%d" % k for k in range(11)) + ("kind:out-of-range",)
    assumptions = ("A-API", "A-HAVOC", "A-ALLOC", "A-INT",
                   "A-TYPEINV (established by _trait_set_default_value): kind 7 carries a (callable, args, kw) tuple; kinds 5-9 a non-NULL default_value",
                   "_warn_on_attribute_error by summary: it only re-labels a pending AttributeError (error indicator stays set, no references kept)",
                   "trait->validate through its family contract",
                   "A-INIT: the container classes were registered (_ctraits_list_classes runs when traits is imported)",
                   "A-CB: the default-computing callable does not redefine the trait itself")

    def configure(self, cx, ex, ov):
        from contracts.c.setattr import install_families
        install_families(cx)
        cx.summaries.pop("default_value_for", None)
        trait = z3.Const("trait", Obj)

        def keep(api, before, after):
            # A-CB: the callable computing a default does not redefine the trait whose default it computes
            f = api.ex.field_array
            return after.assume(*[f(after, n)[trait] == f(before, n)[trait] for n in ("flags", "validate", "py_validate", "handler", "default_value")])
        cx.havoc_keeps = keep

        def warn(ex2, args, st, k):
            e = cx.fresh("exc", INT)
            relabel = z3.And(args[0] == NULL, st.exc == EXC["AttributeError"])
            return k(None, st.with_exc(z3.If(relabel, e, st.exc)).assume(z3.Implies(relabel, e >= 1)))
        cx.summaries["_warn_on_attribute_error"] = warn

        def seq_list(ex2, args, st, k):
            """PySequence_List(o): a NEW list with the items of o, or NULL with an error (o == NULL: SystemError)"""
            o = args[0]
            st = st.log(("copy", "list", o))
            def ok(r, s):
                known = [v for v in list(s.env.values()) + [o] if z3.is_expr(v) and v.sort() == Obj]
                return k(r, s.assume(A.is_exact(r, "PyList_Type"), *[r != v for v in known]))
            return cx.branch(st, o == NULL, lambda s: k(NULL, s.with_exc(EXC["SystemError"])),
                             lambda s: ex2.api.python_call(s, "PySequence_List", ok, lambda s2: k(NULL, s2), result_prefix="newlist"))
        cx.summaries["PySequence_List"] = seq_list

        def dict_copy(ex2, args, st, k):
            o = args[0]
            st = st.log(("copy", "dict", o))
            def ok(r, s):
                known = [v for v in list(s.env.values()) + [o] if z3.is_expr(v) and v.sort() == Obj]
                return k(r, s.assume(A.is_exact(r, "PyDict_Type"), *[r != v for v in known]))
            return cx.branch(st, o == NULL, lambda s: k(NULL, s.with_exc(EXC["SystemError"])),
                             lambda s: ex2.api.python_call(s, "PyDict_Copy", ok, lambda s2: k(NULL, s2), result_prefix="newdict"))
        cx.summaries["PyDict_Copy"] = dict_copy

    def c_setup(self, cx, ex, ov):
        trait, obj, name = z3.Consts("trait obj name", Obj)
        st = CSt().assume(trait != NULL, obj != NULL, name != NULL)
        kind = ex.field_array(st, "default_value_type")[trait]
        dv = ex.field_array(st, "default_value")[trait]
        tag = ov.split(":")[1]
        if tag == "out-of-range":
            st = st.assume(z3.Or(kind < 0, kind > 10))
        else:
            st = st.assume(kind == int(tag))
        st = st.assume(z3.Implies(kind == 7, z3.And(dv != NULL, A.is_inst(dv, "PyTuple_Type"), A.tuple_len(dv) == 3,
                                                    A.tuple_item(dv, z3.IntVal(0)) != NULL, A.tuple_item(dv, z3.IntVal(1)) != NULL,
                                                    A.tuple_item(dv, z3.IntVal(2)) != NULL)),
                       z3.Implies(z3.Or(kind == 5, kind == 6, kind == 8, kind == 9), dv != NULL),
                       ex.field_array(st, "handler")[trait] != NULL,
                       # module state set once by _ctraits_list_classes when traits is imported
                       *[cx.const_obj(c) != NULL for c in ("TraitListObject", "TraitDictObject", "TraitSetObject")])
        return st, [trait, obj, name], dict(trait=trait, obj=obj, name=name, kind=kind, dv=dv, st0=st, witness={"kind": kind})

    def c_post(self, cx, ex, ov, info, ret, st):
        trait, obj, name, kind, dv = (info[k] for k in ("trait", "obj", "name", "kind", "dv"))
        st0 = info["st0"]
        calls = [r for r in st.trace if r[0] == "call"]
        copies = [r for r in st.trace if r[0] == "copy"]
        validates = [r for r in st.trace if r[0] == "validate"]
        res = st.ghost.get("last_call_result")
        tag = ov.split(":")[1]
        out = [("post:validator-only-for-dynamic-defaults", z3.BoolVal(not validates or tag == "8"))]
        if tag != "out-of-range":
            out.append(("post:NULL-iff-error-indicator-set", (ret == NULL) == (st.exc != 0)))
        if tag in ("0", "1"):
            out.append(("post:constant-default-is-the-stored-object-or-None", z3.And(ret == z3.If(dv == NULL, A.NONE, dv), z3.BoolVal(not calls and not copies))))
        elif tag == "2":
            out.append(("post:object-default-is-the-object-itself", z3.And(ret == obj, z3.BoolVal(not calls and not copies))))
        elif tag in ("3", "4"):
            out.append(("post:mutable-default-is-copied-for-this-instance", z3.And(
                z3.BoolVal(len(copies) == 1 and copies[0][1] == ("list" if tag == "3" else "dict") and not calls),
                copies[0][2] == dv if copies else z3.BoolVal(False), z3.Implies(ret != NULL, ret != dv))))
        elif tag in ("5", "6", "9"):
            cls = {"5": "TraitListObject", "6": "TraitDictObject", "9": "TraitSetObject"}[tag]
            c = calls[0] if calls else None
            out.append(("post:container-object-built-for-this-object-and-name", z3.And(
                z3.BoolVal(len(calls) == 1), c[1] == cx.const_obj(cls), A.tuple_len(c[2]) == 4,
                A.tuple_item(c[2], z3.IntVal(0)) == ex.field_array(st0, "handler")[trait], A.tuple_item(c[2], z3.IntVal(1)) == obj,
                A.tuple_item(c[2], z3.IntVal(2)) == name, A.tuple_item(c[2], z3.IntVal(3)) == dv) if c else z3.BoolVal(False)))
            out.append(("post:its-result-is-the-default", z3.Implies(ret != NULL, ret == res if res is not None else z3.BoolVal(False))))
        elif tag == "7":
            c = calls[0] if calls else None
            kw = A.tuple_item(dv, z3.IntVal(2))
            out.append(("post:callable-called-with-stored-args-and-kw", z3.And(
                z3.BoolVal(len(calls) == 1), c[1] == A.tuple_item(dv, z3.IntVal(0)), c[2] == A.tuple_item(dv, z3.IntVal(1)),
                c[3] == z3.If(kw == A.NONE, NULL, kw)) if c else z3.BoolVal(False)))
            out.append(("post:its-result-is-the-default", z3.Implies(ret != NULL, ret == res if res is not None else z3.BoolVal(False))))
        elif tag == "8":
            c = calls[0] if calls else None
            has_validator = ex.field_array(st0, "validate")[trait] != 0
            orig = (ex.field_array(st0, "flags")[trait] & 0x8) != 0
            out.append(("post:callable-called-once-with-the-object", z3.And(
                z3.BoolVal(len(calls) == 1), c[1] == dv, A.tuple_len(c[2]) == 1, A.tuple_item(c[2], z3.IntVal(0)) == obj) if c else z3.BoolVal(False)))
            out.append(("post:dynamic-default-validated-at-most-once", z3.BoolVal(len(validates) <= 1)))
            if validates:
                v = validates[0]
                out.append(("post:validator-gets-the-computed-default", z3.And(v[1] == trait, v[2] == obj, v[3] == name,
                                                                                v[4] == res if res is not None else z3.BoolVal(False))))
                val = st.ghost.get("validated")
                if val is not None:
                    out.append(("post:validated-default-is-stored-unless-original-value-is-asked-for",
                                z3.Implies(ret != NULL, ret == z3.If(orig, res, val))))
                if st.ghost.get("validate_failed"):
                    out.append(("raise:default-rejected-by-the-validator-is-an-error", ret == NULL))
            else:
                out.append(("post:unvalidated-only-without-validator-or-after-a-failed-call", z3.Or(z3.Not(has_validator), ret == NULL)))
                out.append(("post:its-result-is-the-default", z3.Implies(ret != NULL, ret == res if res is not None else z3.BoolVal(False))))
        elif tag == "10":
            out.append(("post:disallowed-default-is-ValueError", z3.And(ret == NULL, st.exc == EXC["ValueError"])))
        else:
            out.append(("post:unknown-kind-yields-no-value", ret == NULL))
        if st.own is not None:
            o = z3.Const("o!own", Obj)
            out.append(("own:reference-neutral", z3.ForAll([o], st.own[o] == info["own0"][o] + z3.If(
                z3.And(o == ret, ret != NULL, z3.Not(A.immortal(ret))), 1, 0)), {}, ("C18",)))
        return out

    def covers(self, cx, ov, info):
        tag = ov.split(":")[1]
        if tag in ("10", "out-of-range"):
            return [("refuses", lambda r, s: r == NULL)]
        return [("yields", lambda r, s: r != NULL)]
