"""Contracts for the attribute write / default-read paths of ctraits.c: setattr_trait, setattr_event, getattr_trait
(C01 'validate before store', C02 'fires exactly once per real change with truthful old/new', C10 'default read is
silent and stored once', C19 'a failing callback leaves nothing half-updated', C18 reference neutrality).

The Python-running pieces reached from these functions -- the trait's validate / post_setattr / getattr handlers,
default_value_for and call_notifiers -- are used through *family contracts*: each may run arbitrary Python code
(A-HAVOC), returns success or failure with an exception, and is logged in the ghost call trace, over which the
ordering / exactly-once clauses are stated."""
import z3

from vc.unit import CContract, register
from vc.cvc.core import Obj, NULL, INT, BV32, EXC, CSt
from vc.cvc import api as A

NO_NOTIFY, VETO = 0x2, 0x4
F_NONE, F_IDENT, F_ORIG, F_POST_ORIG = 0x100, 0x4, 0x8, 0x10
UNDEFINED, UNINIT = A.SINGLETONS["Undefined"], A.SINGLETONS["Uninitialized"]


def install_families(cx):
    def validate(ex, fn, args, st, k):
        st = st.log(("validate",) + tuple(args))
        s1 = ex.api.havoc(st, "trait->validate")
        out = []
        r, s_ok = ex.api.fresh_obj("validated", s1)
        out += k(r, s_ok.gset("validated", r))
        e = cx.fresh("exc", INT)
        out += k(NULL, s1.assume(e >= 1).with_exc(e).gset("validate_failed", True))
        return out

    def post_setattr(ex, fn, args, st, k):
        st = st.log(("post_setattr",) + tuple(args))
        s1 = ex.api.havoc(st, "trait->post_setattr")
        e = cx.fresh("exc", INT)
        return k(z3.IntVal(0), s1) + k(z3.IntVal(-1), s1.assume(e >= 1).with_exc(e).gset("post_setattr_failed", True))

    def getattr_(ex, fn, args, st, k):
        st = st.log(("getattr",) + tuple(args))
        s1 = ex.api.havoc(st, "trait->getattr")
        r, s_ok = ex.api.fresh_obj("got", s1)
        e = cx.fresh("exc", INT)
        return k(r, s_ok.gset("got", r)) + k(NULL, s1.assume(e >= 1).with_exc(e))
    cx.field_call.update(validate=validate, post_setattr=post_setattr, getattr=getattr_)
    cx.globals["Undefined"] = UNDEFINED
    cx.globals["Uninitialized"] = UNINIT

    def default_value_for(ex, args, st, k):
        st = st.log(("default_value_for",) + tuple(args))
        s1 = ex.api.havoc(st, "default_value_for")
        r, s_ok = ex.api.fresh_obj("default", s1)
        e = cx.fresh("exc", INT)
        return k(r, s_ok.gset("default", r)) + k(NULL, s1.assume(e >= 1).with_exc(e).gset("default_failed", True))

    def call_notifiers(ex, args, st, k):
        st = st.log(("call_notifiers",) + tuple(args))
        s1 = ex.api.havoc(st, "call_notifiers")
        e = cx.fresh("exc", INT)
        return k(z3.IntVal(0), s1) + k(z3.IntVal(-1), s1.assume(e >= 1).with_exc(e))

    def invalid_attribute_error(ex, args, st, k):
        return k(z3.IntVal(-1), st.with_exc(EXC["TypeError"]))
    cx.summaries.update(default_value_for=default_value_for, call_notifiers=call_notifiers,
                        invalid_attribute_error=invalid_attribute_error)


def keep_objects(*objs):
    """A-HAVOC refinement used here: Python code may rebind anything *inside* dicts and lists, but the identity of the
    receiver's own __dict__ / notifier lists and the definition fields of the traits taking part are not replaced while
    the assignment is in progress (A-CB: handlers do not redefine the trait being assigned)."""
    def keep(api, before, after):
        fs = []
        for o in objs:
            for f in ("obj_dict", "notifiers", "flags", "validate", "post_setattr", "getattr", "setattr", "default_value_type",
                      "py_validate", "handler"):
                fs.append(api.ex.field_array(after, f)[o] == api.ex.field_array(before, f)[o])
        la0, la1 = A.list_len_arr(before), A.list_len_arr(after)
        after = after.with_mem("@listlen", la1) if "@listlen" not in after.mem else after
        return after.assume(*fs)
    return keep


def trace_kinds(st):
    return [r[0] for r in st.trace]


def own_neutral_int(st, info):
    if st.own is None:
        return []
    o = z3.Const("o!own", Obj)
    return [("own:reference-neutral", z3.ForAll([o], st.own[o] == info["own0"][o]), {}, ("C18",))]


class _SetattrBase(CContract):
    properties = ("C01", "C02", "C19")
    side_props = {"valid-deref": ("C18",), "bounds": ("C18",)}
    extra_properties = ("C18",)        # own: / valid-deref: / bounds: clauses of this unit belong to C18
    own = True
    assumptions = ("A-API", "A-HAVOC", "A-ALLOC", "A-INT", "A-CB:handlers-do-not-redefine-the-trait-being-assigned",
                   "call_notifiers / default_value_for / validate / post_setattr used through family contracts")

    def configure(self, cx, ex, ov):
        install_families(cx)
        traito, traitd, obj = z3.Consts("traito traitd obj", Obj)
        cx.havoc_keeps = keep_objects(traito, traitd, obj)


@register
class SetattrTraitAssign(_SetattrBase):
    """setattr_trait(traito, traitd, obj, name, value) with value != NULL (assignment)."""
    qualname = "setattr_trait"
    # the input space is split by (validator?, post_setattr?, listeners?) only to spread the paths over processes;
    # the eight overloads together cover every assignment (value != NULL)
    overloads = tuple("assign:%s%s%s" % (a, b, c) for a in "vV" for b in "pP" for c in "nN")

    def c_setup(self, cx, ex, ov):
        traito, traitd, obj, name, value = z3.Consts("traito traitd obj name value", Obj)
        st = CSt().assume(traito != NULL, traitd != NULL, obj != NULL, name != NULL, value != NULL)
        code = ov.split(":")[1]
        hv = ex.field_array(st, "validate")[traitd] != 0
        hp = ex.field_array(st, "post_setattr")[traitd] != 0
        listeners = z3.Or(ex.field_array(st, "notifiers")[traito] != NULL, ex.field_array(st, "notifiers")[obj] != NULL)
        st = st.assume(hv if code[0] == "V" else z3.Not(hv), hp if code[1] == "P" else z3.Not(hp),
                       listeners if code[2] == "N" else z3.Not(listeners))
        flags = ex.field_array(st, "flags")[traitd]
        w = {"mode_none": (flags & F_NONE) != 0, "setattr_original": (flags & F_ORIG) != 0,
             "has_validator": ex.field_array(st, "validate")[traitd] != 0, "value_is_Undefined": value == UNDEFINED,
             "has_post_setattr": ex.field_array(st, "post_setattr")[traitd] != 0, "same_trait": traito == traitd}
        conc = lambda m: dict(harness="cvalidators", family="setattr_name_refcount")
        return st, [traito, traitd, obj, name, value], dict(traito=traito, traitd=traitd, obj=obj, name=name, value=value,
                                                           st0=st, witness=w, concretise=conc)

    def c_post(self, cx, ex, ov, info, ret, st):
        traitd, obj, name, value = info["traitd"], info["obj"], info["name"], info["value"]
        st0 = info["st0"]
        flags = ex.field_array(st0, "flags")[traitd]
        has_validator = ex.field_array(st0, "validate")[traitd] != 0
        kinds = trace_kinds(st)
        T = [r for r in st.trace if r[0] in ("validate", "dict-set", "post_setattr", "call_notifiers", "default_value_for", "getattr")]
        out = [("post:minus-one-iff-error-indicator-set", (ret == -1) == (st.exc != 0)),
               ("post:returns-0-or-minus-1", z3.Or(ret == 0, ret == -1))]
        validates = [r for r in T if r[0] == "validate"]
        sets = [r for r in st.trace if r[0] == "dict-set"]
        notifies = [r for r in T if r[0] == "call_notifiers"]
        # --- C01 / C19: validate (once, with the value given) before anything is stored; a rejection stores nothing
        out.append(("post:validator-called-at-most-once", z3.BoolVal(len(validates) <= 1)))
        if validates:
            v = validates[0]
            out.append(("post:validator-gets-the-assigned-value", z3.And(v[1] == traitd, v[2] == obj, v[3] == name, v[4] == value)))
            out.append(("post:validate-precedes-every-store-and-callback", z3.BoolVal(
                all(x[0] not in ("dict-set", "post_setattr", "call_notifiers", "default_value_for") for x in st.trace[:st.trace.index(v)]))))
        else:
            out.append(("post:unvalidated-only-without-validator-or-for-Undefined",
                        z3.Or(z3.Not(has_validator), value == UNDEFINED)))
        if st.ghost.get("validate_failed"):
            out.append(("raise:rejected-value-stores-nothing-and-notifies-nobody", z3.BoolVal(
                not sets and not notifies and "post_setattr" not in kinds and "default_value_for" not in kinds)))
            out.append(("raise:rejection-returns-minus-1", ret == -1))
        # --- what is stored
        validated = st.ghost.get("validated")
        stored_value = z3.If((flags & F_ORIG) != 0, value, validated if validated is not None else value)
        finals = [r for r in sets if r[3] is not st.ghost.get("default")]
        out.append(("post:success-stores-exactly-once", z3.Implies(ret == 0, z3.BoolVal(len(finals) == 1))))
        if finals:
            f = finals[-1]
            out.append(("post:stores-the-validated-value-under-the-name", z3.And(f[2] == name, f[3] == stored_value)))
        # --- C02: notification exactly once iff it counts as a change, after the store, truthful old / new
        out.append(("post:notifiers-called-at-most-once", z3.BoolVal(len(notifies) <= 1)))
        if notifies:
            nrec = notifies[0]
            idx = st.trace.index(nrec)
            stored_before = any(r[0] == "dict-set" and r in finals for r in st.trace[:idx])
            out.append(("post:notification-follows-the-store", z3.BoolVal(stored_before)))
            old, new = nrec[5], nrec[6]
            out.append(("post:notified-new-is-the-stored-value", new == stored_value))
            # old is what was readable before: the previous dict entry, the default just materialised, or the result of
            # the (delegating) trait's own getattr
            prev = st.ghost.get("default")
            gets = [r for r in st.trace[:idx] if r[0] == "dict-get" and r[2] is name or (r[0] == "dict-get" and r[2].eq(name))]
            out.append(("post:notified-old-was-read-before-the-store", z3.BoolVal(bool(gets))))
            # ... and when the name has no entry yet and the trait is a delegating one (traitd is the resolved trait of the
            # delegate), what was READABLE is what the object's own trait (traito) gives: the delegate's current value -- not
            # the resolved trait's default
            asked = [r for r in st.trace[:idx] if r[0] == "getattr"]
            if asked:
                a = asked[-1]
                out.append(("post:the-readable-old-value-is-asked-of-the-object's-OWN-trait", z3.And(a[1] == info["traito"], a[2] == obj, a[3] == name)))
                got = st.ghost.get("got")
                out.append(("post:notified-old-is-what-the-object's-own-trait-returned", old == got if got is not None else z3.BoolVal(False)))
            cmp_val = validated if validated is not None else value
            out.append(("post:notifies-only-for-a-change-under-the-comparison-mode",
                        z3.Or((flags & F_NONE) != 0, old != cmp_val)))
            out.append(("post:notifier-arguments-name-the-object-and-attribute", z3.And(nrec[3] == obj, nrec[4] == name)))
        else:
            # silent: allowed only if nothing counts as a change, nobody listens, or an earlier step failed
            pass
        out += own_neutral_int(st, info)
        return out

    def covers(self, cx, ov, info):
        code = ov.split(":")[1]
        out = [("stores", lambda r, s: r == 0)]
        if code[0] == "V":
            out.append(("rejects", lambda r, s: z3.And(r == -1, z3.BoolVal(bool(s.ghost.get("validate_failed"))))))
        if code[2] == "N":
            out.append(("notifies", lambda r, s: z3.BoolVal(any(x[0] == "call_notifiers" for x in s.trace))))
        return out


@register
class GetattrTrait(CContract):
    """getattr_trait(trait, obj, name): the default is computed once, stored under the name, then post_setattr and the
    notifiers run with old = Uninitialized (which every notifier wrapper filters: 'silent'); when the default cannot be
    computed nothing is stored."""
    qualname = "getattr_trait"
    properties = ("C10", "C19", "C02")
    side_props = {"valid-deref": ("C18",), "bounds": ("C18",)}
    extra_properties = ("C18",)        # own: / valid-deref: / bounds: clauses of this unit belong to C18
    own = True
    assumptions = _SetattrBase.assumptions

    def configure(self, cx, ex, ov):
        install_families(cx)
        trait, obj = z3.Consts("trait obj", Obj)
        cx.havoc_keeps = keep_objects(trait, obj)

    def c_setup(self, cx, ex, ov):
        trait, obj, name = z3.Consts("trait obj name", Obj)
        st = CSt().assume(trait != NULL, obj != NULL, name != NULL)
        return st, [trait, obj, name], dict(trait=trait, obj=obj, name=name, st0=st, witness={})

    def c_post(self, cx, ex, ov, info, ret, st):
        trait, obj, name = info["trait"], info["obj"], info["name"]
        out = [("post:NULL-iff-error-indicator-set", (ret == NULL) == (st.exc != 0))]
        defaults = [r for r in st.trace if r[0] == "default_value_for"]
        sets = [r for r in st.trace if r[0] == "dict-set"]
        notifies = [r for r in st.trace if r[0] == "call_notifiers"]
        out.append(("post:default-computed-at-most-once", z3.BoolVal(len(defaults) <= 1)))
        if st.ghost.get("default_failed") or not defaults:
            out.append(("raise:failed-default-stores-nothing", z3.BoolVal(not sets and not notifies)))
            out.append(("raise:failed-default-returns-NULL", ret == NULL))
        d = st.ghost.get("default")
        if d is not None:
            out.append(("post:stores-the-default-under-the-name", z3.Or(z3.BoolVal(len(sets) == 1), ret == NULL)))
            if sets:
                out.append(("post:stored-value-is-the-default", z3.And(sets[0][2] == name, sets[0][3] == d)))
            out.append(("post:returns-the-stored-default", z3.Implies(ret != NULL, ret == d)))
            for nrec in notifies:
                out.append(("post:default-read-notifies-with-old-Uninitialized", z3.And(nrec[5] == UNINIT, nrec[6] == d,
                                                                                       nrec[3] == obj, nrec[4] == name)))
                out.append(("post:notification-follows-the-store", z3.BoolVal(
                    any(r[0] == "dict-set" for r in st.trace[:st.trace.index(nrec)]))))
        out.append(("post:notifiers-called-at-most-once", z3.BoolVal(len(notifies) <= 1)))
        if st.own is not None:
            o = z3.Const("o!own", Obj)
            out.append(("own:reference-neutral", z3.ForAll([o], st.own[o] == info["own0"][o] + z3.If(
                z3.And(o == ret, ret != NULL, z3.Not(A.immortal(ret))), 1, 0)), {}, ("C18",)))
        return out

    def covers(self, cx, ov, info):
        return [("returns-default", lambda r, s: r != NULL), ("fails", lambda r, s: r == NULL)]
