"""C18 -- the deallocators of the two GC-tracked types (has_traits_dealloc, trait_dealloc).

'garbage collection occurring at any point ... never uses a freed object': a tp_dealloc of a GC type must take the object out
of the collector's lists BEFORE it releases anything the object refers to -- releasing a member may run arbitrary Python code
(__del__, weak-reference callbacks), a collection started there would find the half-torn-down, reference-count-zero object still
tracked and deallocate it a second time.  (For instances of heap subclasses CPython's subtype_dealloc re-tracks the object just
before calling the base deallocator and relies on exactly this.)

What is decided: the ORDER of the calls in the function body, read from clang's AST of the real function on every run (macro
expansions included): the first call is PyObject_GC_UnTrack on the object, and the clear function / the type's tp_free come
after it, in that order.  A data lemma over the AST -- the trash-can macros are outside cvc's statement subset."""
import hashlib

import z3

from vc.unit import Contract, register


def _calls(node, out):
    """call expressions in source order: (callee name or '<indirect>:member', first-argument text)"""
    if isinstance(node, dict):
        if node.get("kind") == "CallExpr":
            inner = node.get("inner", [])
            callee = inner[0] if inner else {}
            name = None

            def find(n):
                if isinstance(n, dict):
                    if n.get("kind") == "DeclRefExpr":
                        return n.get("referencedDecl", {}).get("name")
                    if n.get("kind") == "MemberExpr":
                        return "<indirect>:" + n.get("name", "?")
                    for c in n.get("inner", []):
                        r = find(c)
                        if r:
                            return r
                return None
            name = find(callee)

            def arg_name(n):
                if isinstance(n, dict):
                    if n.get("kind") == "DeclRefExpr":
                        return n.get("referencedDecl", {}).get("name")
                    for c in n.get("inner", []):
                        r = arg_name(c)
                        if r:
                            return r
                return None
            out.append((name, arg_name(inner[1]) if len(inner) > 1 else None))
        for c in node.get("inner", []):
            _calls(c, out)
    elif isinstance(node, list):
        for c in node:
            _calls(c, out)


class _Dealloc(Contract):
    lang = "data"
    path = "traits/ctraits.c"
    properties = ("C18",)
    clear = None
    assumptions = ("order of the call expressions in clang's AST of the real function (macro expansions included); no symbolic execution of the trash-can macros",
                   "the clear function and tp_free are the only calls that release the object's members / memory")

    def data_obligations(self, ov):
        from vc.cvc import front
        from vc.solve import Obligation
        fn = front.function(self.qualname)
        obs = []
        name0 = "%s[%s]" % (self.cid, ov)

        def ob(clause, ok, detail):
            obs.append(Obligation("%s/lemma:%s" % (name0, clause), [], z3.BoolVal(bool(ok)), kind="lemma", props=self.properties, witness={"detail": detail}))
        ob("the-deallocator-exists", fn is not None, self.qualname)
        sha = "absent"
        if fn is not None:
            decl, params, rty, sha = fn
            me = params[0][0] if params else None
            calls = []
            _calls(decl, calls)
            names = [c[0] for c in calls]
            detail = "calls in order: %r" % (calls,)
            ob("untracks-the-object-itself-exactly-once", [c for c in calls if c[0] == "PyObject_GC_UnTrack"] == [("PyObject_GC_UnTrack", me)], detail)
            first_release = min([i for i, n in enumerate(names) if n == self.clear or (n or "").startswith("<indirect>:tp_free") or n in ("Py_DECREF", "Py_XDECREF", "_Py_DECREF")] or [len(names)])
            ut = names.index("PyObject_GC_UnTrack") if "PyObject_GC_UnTrack" in names else len(names)
            ob("the-object-is-untracked-BEFORE-anything-it-refers-to-is-released", ut < first_release, detail)
            ob("the-members-are-cleared-and-then-the-memory-is-freed", self.clear in names and any((n or "").startswith("<indirect>:tp_free") for n in names)
               and names.index(self.clear) < [i for i, n in enumerate(names) if (n or "").startswith("<indirect>:tp_free")][0], detail)
        cx = type("DataCx", (), dict(axioms=[], hints=[], notes=[], distinct_consts_axiom=lambda self: []))()
        return cx, obs, dict(sha=sha or "unknown", paths=1, lines=(1, None))


@register
class HasTraitsDealloc(_Dealloc):
    qualname = "has_traits_dealloc"
    clear = "has_traits_clear"


@register
class TraitDealloc(_Dealloc):
    qualname = "trait_dealloc"
    clear = "trait_clear"
