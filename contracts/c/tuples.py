"""C01 / C03: the TupleOf validator -- validate_trait_tuple_check and validate_trait_tuple.

'stores the documented conversion of the value, which satisfies the trait's declared criteria (... tuple shape ...)':
a value is accepted only if it is a tuple of exactly the declared length; every item is validated by the trait declared
for its position (once, in order, with (trait_i, object, name, item_i)); the result has the same length and its item at
each position is the original item or what that position's validator returned; if no validator changed anything the
original tuple itself is stored.  A TraitError from an item validator rejects the whole value (-> TraitError naming the
attribute), any other exception passes through.  For tuples of ANY length: outer loop and the copy-the-prefix loop by
inductive invariants; the tuple under construction is tracked slot by slot (ghost `filled`)."""
import z3

from vc.unit import CContract, register
from vc.cvc.core import Obj, NULL, INT, EXC, CSt
from vc.cvc import api as A
from contracts.c.validators import error_method_hook, own_neutral
from contracts.c.gate import wf_tuple_of, CTRAIT

IARR = z3.ArraySort(INT, Obj)
BARR = z3.ArraySort(INT, z3.BoolSort())


def install(cx, obj, name):
    """family contract of itrait->validate with ghost bookkeeping, slot-wise tuple construction"""
    def validate(ex, fn, args, st, k):
        i = st.env["i"]
        ok_args = z3.And(args[0] == st.env["itrait"], args[1] == obj, args[2] == name, args[3] == st.env["bitem"])
        st = st.gset("vargs_ok", z3.And(st.ghost["vargs_ok"], ok_args)).gset("nv", st.ghost["nv"] + 1)
        s1 = ex.api.havoc(st.log(("validate",) + tuple(args)), "itrait->validate")
        r, s_ok = ex.api.fresh_obj("validated", s1)
        e = cx.fresh("exc", INT)
        return k(r, s_ok.gset("vres", z3.Store(s_ok.ghost["vres"], i, r))) + k(NULL, s1.assume(e >= 1).with_exc(e).gset("item_failed", True))
    cx.field_call["validate"] = validate

    def tuple_new(ex, args, st, k):
        n = args[0]
        r, st2 = ex.api.fresh_obj("newtuple", st)
        known = [v for v in list(st.env.values()) + list(st.ghost.get("caller_kept", ())) if z3.is_expr(v) and v.sort() == Obj]
        st2 = st2.assume(A.is_exact(r, "PyTuple_Type"), A.is_inst(r, "PyTuple_Type"), A.tuple_len(r) == n, *[r != v for v in known])
        return k(r, st2.gset("filled", z3.K(INT, z3.BoolVal(False))).gset("building", r))
    cx.summaries["PyTuple_New"] = tuple_new

    def set_item(ex, args, st, k):
        t, i, v = args
        st = ex.api.nonnull(st, t, "PyTuple_SET_ITEM")
        st = cx.require(st, z3.And(0 <= i, i < A.tuple_len(t)), "bounds:PyTuple_SET_ITEM", witness={"index": i})
        st = cx.require(st, z3.And(t == st.ghost.get("building", NULL), z3.Not(st.ghost["filled"][i])), "bounds:PyTuple_SET_ITEM-slot-of-the-new-tuple-written-once")
        st = st.assume(A.tuple_item(t, i) == v).gset("filled", z3.Store(st.ghost["filled"], i, z3.BoolVal(True)))
        if st.own is not None:
            st = st.with_own(A.own_add(st.own, v, -1))       # the tuple takes over the reference
        return k(None, st)
    cx.summaries["PyTuple_SET_ITEM"] = set_item


class _TupleBase(CContract):
    properties = ("C01", "C03", "C19")
    extra_properties = ("C18",)
    side_props = {"valid-deref": ("C18",), "bounds": ("C18",)}
    own = True
    assumptions = ("A-API", "A-HAVOC", "A-ALLOC", "A-INT", "descriptor well formed: every declared item is a cTrait "
                   "(established by _trait_set_validate, contracts/c/gate.py)",
                   "item validators through the validate family contract (new reference, or NULL with an exception)",
                   "termination: variants n - i and i - j")

    def loops(self, cx, T, V, obj, name):
        q = z3.Int("q!tt")

        def outer(ex, st, entry):
            i, n, tup = st.env["i"], st.env["n"], st.env["tuple"]
            g = st.ghost
            own_e = entry.own
            return [("index-in-range", z3.And(0 <= i, i <= n, n == A.tuple_len(T), n == A.tuple_len(V))),
                    ("no-error-pending", st.exc == 0),
                    ("validators-called-with-their-position's-trait-and-item", g["vargs_ok"]),
                    ("at-most-one-validation-per-position", z3.And(g["nv"] >= 0, g["nv"] <= i)),
                    ("unchanged-so-far-means-no-new-tuple", z3.Implies(tup == NULL, st.own == own_e)),
                    ("new-tuple-holds-the-accepted-items-so-far", z3.Implies(tup != NULL, z3.And(
                        tup == g["building"], A.is_exact(tup, "PyTuple_Type"), A.tuple_len(tup) == n, tup != V, tup != T,
                        st.own == A.own_add(own_e, tup, 1),
                        z3.ForAll([q], z3.Implies(z3.And(0 <= q, q < i), z3.And(g["filled"][q], z3.Or(
                            A.tuple_item(tup, q) == A.tuple_item(V, q), A.tuple_item(tup, q) == g["vres"][q])))),
                        z3.ForAll([q], z3.Implies(q >= i, z3.Not(g["filled"][q]))))))]

        def inner(ex, st, entry):
            j, i, tup = st.env["j"], st.env["i"], st.env["tuple"]
            g = st.ghost
            return [("index-in-range", z3.And(0 <= j, j <= i)),
                    ("prefix-copied", z3.ForAll([q], z3.Implies(z3.And(0 <= q, q < j), z3.And(g["filled"][q], A.tuple_item(tup, q) == A.tuple_item(V, q))))),
                    ("rest-empty", z3.ForAll([q], z3.Implies(q >= j, z3.Not(g["filled"][q])))),
                    ("nothing-else-changes", z3.And(st.exc == entry.exc, st.own == entry.own, tup == entry.env["tuple"], g["building"] == tup))]

        def on_loop(ex, s, st):
            init = s["inner"][0]
            var = init["inner"][0]["name"] if init.get("kind") == "DeclStmt" else None
            if var == "i":
                return ex.invariant_loop(s, st, {"i": INT, "bitem": Obj, "itrait": Obj, "aitem": Obj, "tuple": Obj}, outer, heap=True,
                                         name="items", ghosts={"vres": IARR, "vargs_ok": z3.BoolSort(), "nv": INT, "filled": BARR, "building": Obj},
                                         variant=lambda e3, s3: s3.env["n"] - s3.env["i"])
            return ex.invariant_loop(s, st, {"j": INT, "bitem": Obj}, inner, heap=False, name="copy-prefix", ghosts={"filled": BARR},
                                     variant=lambda e3, s3: s3.env["i"] - s3.env["j"])
        cx.on_loop = on_loop

    def ghosts0(self, st):
        return st.gset("vres", z3.Const("vres0", IARR)).gset("vargs_ok", z3.BoolVal(True)).gset("nv", z3.IntVal(0)) \
                 .gset("filled", z3.K(INT, z3.BoolVal(False))).gset("building", NULL)

    def shape_clauses(self, ret, st, T, V):
        q = z3.Int("q!post")
        g = st.ghost
        n = A.tuple_len(T)
        return [("post:accepted-only-a-tuple-of-the-declared-length", z3.Implies(ret != NULL, z3.And(A.is_inst(V, "PyTuple_Type"), A.tuple_len(V) == n))),
                ("post:result-has-the-declared-length", z3.Implies(ret != NULL, z3.And(A.is_inst(ret, "PyTuple_Type"), A.tuple_len(ret) == n))),
                ("post:each-item-is-the-original-or-what-its-position's-validator-returned", z3.Implies(ret != NULL, z3.ForAll([q], z3.Implies(
                    z3.And(0 <= q, q < n), z3.Or(A.tuple_item(ret, q) == A.tuple_item(V, q), A.tuple_item(ret, q) == g["vres"][q]))))),
                ("post:validators-got-(trait_i, object, name, item_i)", g["vargs_ok"]),
                ("post:at-most-one-validation-per-position", g["nv"] <= n)]


@register
class ValidateTraitTupleCheck(_TupleBase):
    qualname = "validate_trait_tuple_check"

    def configure(self, cx, ex, ov):
        T, obj, name, V = z3.Consts("traits obj name value", Obj)
        install(cx, obj, name)
        cx.globals["ctrait_type"] = CTRAIT
        self.loops(cx, T, V, obj, name)

    def c_setup(self, cx, ex, ov):
        T, obj, name, V = z3.Consts("traits obj name value", Obj)
        st = CSt().assume(T != NULL, obj != NULL, name != NULL, V != NULL)
        q = z3.Int("q!wf")
        st = st.assume(A.is_exact(T, "PyTuple_Type"), A.is_inst(T, "PyTuple_Type"), z3.ForAll([q], z3.Implies(
            z3.And(0 <= q, q < A.tuple_len(T)), z3.And(A.tuple_item(T, q) != NULL, A.subtype(A.type_of(A.tuple_item(T, q)), CTRAIT)))),
            z3.ForAll([q], z3.Implies(z3.And(0 <= q, q < A.tuple_len(V)), A.tuple_item(V, q) != NULL)), A.tuple_len(T) >= 0, A.tuple_len(V) >= 0)
        st = self.ghosts0(st)
        return st, [T, obj, name, V], dict(T=T, V=V, obj=obj, name=name, witness={"declared_length": A.tuple_len(T), "value_is_tuple": A.is_inst(V, "PyTuple_Type"),
                                                                                   "value_length": A.tuple_len(V)},
                                           concretise=lambda m: dict(harness="cvalidators", family="tuple_refcount"))

    def c_post(self, cx, ex, ov, info, ret, st):
        T, V = info["T"], info["V"]
        out = self.shape_clauses(ret, st, T, V)
        out += [("post:not-a-tuple-or-wrong-length-is-rejected-silently", z3.Implies(
                    z3.Not(z3.And(A.is_inst(V, "PyTuple_Type"), A.tuple_len(V) == A.tuple_len(T))), z3.And(ret == NULL, st.exc == 0, st.ghost["nv"] == 0))),
                ("post:rejection-by-an-item-is-silent-only-for-TraitError", z3.Implies(z3.And(ret == NULL, st.exc == 0, st.ghost["nv"] > 0),
                                                                                        z3.BoolVal(bool(st.ghost.get("item_failed"))))),
                ("post:unchanged-items-store-the-original-tuple", z3.Implies(z3.And(ret != NULL, st.ghost["building"] == NULL), ret == V)),
                ("post:error-indicator-only-with-NULL", z3.Implies(st.exc != 0, ret == NULL))]
        return out + own_neutral(st, info, ret)

    def covers(self, cx, ov, info):
        return [("stores-the-original", lambda r, s: z3.And(r != NULL, r == info["V"])),
                ("stores-a-converted-copy", lambda r, s: z3.And(r != NULL, r != info["V"])),
                ("rejects", lambda r, s: z3.And(r == NULL, s.exc == 0)),
                ("passes-an-error-on", lambda r, s: z3.And(r == NULL, s.exc != 0))]


@register
class ValidateTraitTuple(CContract):
    """validate_trait_tuple: what validate_trait_tuple_check accepts is stored; its silent rejection becomes the TraitError
    of handler.error(object, name, value); an error raised by an item validator passes through unchanged."""
    qualname = "validate_trait_tuple"
    properties = ("C01", "C03", "C19")
    extra_properties = ("C18",)
    side_props = {"valid-deref": ("C18",), "bounds": ("C18",)}
    own = True
    assumptions = ("A-API", "A-HAVOC", "validate_trait_tuple_check through its contract (above)", "handler.error always raises TraitError")

    def configure(self, cx, ex, ov):
        cx.callmethod_hook = error_method_hook
        trait = z3.Const("trait", Obj)

        def keep(api, before, after):
            # A-CB(trait-definition-stable): item validators do not redefine the trait doing the validation
            f = api.ex.field_array
            return after.assume(*[f(after, n)[trait] == f(before, n)[trait] for n in ("py_validate", "handler", "validate", "flags")])
        cx.havoc_keeps = keep

        def check(ex2, args, st, k):
            T, obj, name, V = args
            st = cx.require(st, z3.And(T != NULL, V != NULL, wf_items(T)), "pre@validate_trait_tuple_check:descriptor-items-are-traits")
            st = st.log(("tuple_check",) + tuple(args))
            s1 = ex2.api.havoc(st, "validate_trait_tuple_check")
            r, s_ok = ex2.api.fresh_obj("checked", s1)
            e = cx.fresh("exc", INT)
            shape = z3.And(A.is_inst(V, "PyTuple_Type"), A.tuple_len(V) == A.tuple_len(T), A.is_inst(r, "PyTuple_Type"), A.tuple_len(r) == A.tuple_len(T))
            return k(r, s_ok.assume(shape).gset("checked", r)) + k(NULL, s1.assume(s1.exc == 0).gset("rejected", True)) + \
                k(NULL, s1.assume(e >= 1).with_exc(e).gset("item_error", True))
        cx.summaries["validate_trait_tuple_check"] = check

    def c_setup(self, cx, ex, ov):
        trait, obj, name, value = z3.Consts("trait obj name value", Obj)
        st = CSt()
        tinfo = ex.field_array(st, "py_validate")[trait]
        st = st.assume(trait != NULL, obj != NULL, name != NULL, value != NULL, tinfo != NULL, A.is_inst(tinfo, "PyTuple_Type"),
                       wf_tuple_of(tinfo), ex.field_array(st, "handler")[trait] != NULL, st.exc == 0)
        return st, [trait, obj, name, value], dict(trait=trait, obj=obj, name=name, value=value, tinfo=tinfo, witness={})

    def c_post(self, cx, ex, ov, info, ret, st):
        tinfo, value = info["tinfo"], info["value"]
        checks = [r for r in st.trace if r[0] == "tuple_check"]
        n = A.tuple_len(A.tuple_item(tinfo, z3.IntVal(1)))
        out = [("post:NULL-iff-error-indicator-set", (ret == NULL) == (st.exc != 0)),
               ("post:one-shape-and-item-check-with-the-declared-item-traits", z3.And(
                   z3.BoolVal(len(checks) == 1), checks[0][1] == A.tuple_item(tinfo, z3.IntVal(1)), checks[0][2] == info["obj"],
                   checks[0][3] == info["name"], checks[0][4] == value) if checks else z3.BoolVal(False)),
               ("post:stored-value-is-a-tuple-of-the-declared-length", z3.Implies(ret != NULL, z3.And(A.is_inst(ret, "PyTuple_Type"), A.tuple_len(ret) == n,
                                                                                                        ret == st.ghost.get("checked", NULL)))),
               ("post:rejection-is-TraitError", z3.Implies(z3.BoolVal(bool(st.ghost.get("rejected"))), z3.And(ret == NULL, st.exc == EXC["TraitError"]))),
               ("raise:an-item-validator's-own-error-passes-through", z3.Implies(z3.BoolVal(bool(st.ghost.get("item_error"))), z3.And(
                   ret == NULL, z3.BoolVal(not any(r[0] == "trait-error" for r in st.trace)))))]
        return out + own_neutral(st, info, ret)

    def covers(self, cx, ov, info):
        return [("accepts", lambda r, s: r != NULL), ("rejects-with-TraitError", lambda r, s: z3.And(r == NULL, s.exc == EXC["TraitError"])),
                ("passes-an-error-on", lambda r, s: z3.And(r == NULL, z3.BoolVal(bool(s.ghost.get("item_error")))))]


def wf_items(T):
    q = z3.Int("q!wfi")
    return z3.And(A.is_exact(T, "PyTuple_Type"), z3.ForAll([q], z3.Implies(z3.And(0 <= q, q < A.tuple_len(T)), z3.And(
        A.tuple_item(T, q) != NULL, A.subtype(A.type_of(A.tuple_item(T, q)), CTRAIT)))))
