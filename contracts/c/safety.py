"""C18, breadth: the reference / NULL / error-indicator discipline of the small C entry points of ctraits.c.

Every function below gets the same generic contract, instantiated by its calling convention:
  * no NULL or dead pointer is dereferenced (valid-deref:*, valid-deref:live-reference:*), tuple indices stay in bounds;
  * a PyObject* result is NULL exactly when the error indicator is set; an int result is negative exactly then;
  * the ledger of references the function owns is the same on return as on entry, plus the returned reference --
    on every path, successful or failing ('leave the reference counts of the values, names and objects passed in
    unchanged apart from the references the resulting state legitimately holds': references handed to an owning struct
    field are accounted to that field).
Preconditions are the calling convention (self / args / name non-NULL, value NULL only where the slot means 'delete') plus
the type invariant of the trait kind the handler is installed for (named per entry)."""
import z3

from vc.unit import CContract, register
from vc.cvc.core import Obj, NULL, INT, BV32, EXC, CSt
from vc.cvc import api as A
from contracts.c.validators import own_neutral, error_method_hook
from contracts.c.setattr import install_families, own_neutral_int


def fld(ex, st, name, o):
    return ex.field_array(st, name)[o]


CONVENTIONS = {
    # name: (parameter names, which may be NULL)
    "getattr": (("trait", "obj", "name"), ()),
    "setattr": (("traito", "traitd", "obj", "name", "value"), ("value",)),
    "validate": (("trait", "obj", "name", "value"), ()),
    "post_setattr": (("trait", "obj", "name", "value"), ()),
    "method": (("self", "args"), ()),
    "noargs": (("self", "unused"), ("unused",)),
    "getter": (("self", "closure"), ("closure",)),
    "setter": (("self", "value", "closure"), ("value", "closure")),
}


class Safety(CContract):
    properties = ("C18",)
    side_props = {"valid-deref": ("C18",), "bounds": ("C18",)}
    own = True
    convention = None
    returns = "object"            # "object" | "int"
    assumptions = ("A-API", "A-HAVOC", "A-ALLOC", "A-INT", "calling convention of the slot the function is installed in")

    def invariants(self, ex, st, a):
        """type invariant of the trait kind this handler is installed for -> list of z3 Bool"""
        return []

    def configure(self, cx, ex, ov):
        install_families(cx)
        cx.callmethod_hook = error_method_hook
        from contracts.c.lookup import lookup_env
        lookup_env(cx)

    def c_setup(self, cx, ex, ov):
        names, nullable = CONVENTIONS[self.convention]
        consts = {n: z3.Const(n, Obj) for n in names}
        st = CSt().assume(*[consts[n] != NULL for n in names if n not in nullable])
        if self.convention == "method":
            st = st.assume(A.is_inst(consts["args"], "PyTuple_Type"))
        st = st.assume(*self.invariants(ex, st, consts))
        args = [consts[n] for n in names]
        info = dict(args=consts, st0=st, witness={n: consts[n] == NULL for n in nullable})
        if self.convention == "setter":
            info["concretise"] = lambda m: dict(harness="cvalidators", family="getset_delete", setter=self.qualname,
                                                deleting=z3.is_true(m.eval(consts["value"] == NULL, model_completion=True)))
        elif getattr(self, "replay_case", None):
            info["concretise"] = lambda m: dict(self.replay_case)
        return st, args, info

    def c_post(self, cx, ex, ov, info, ret, st):
        if self.returns == "object":
            out = [("post:NULL-iff-error-indicator-set", (ret == NULL) == (st.exc != 0))]
            out += own_neutral(st, info, ret)
        elif self.returns == "int":
            out = [("post:negative-iff-error-indicator-set", (ret < 0) == (st.exc != 0))]
            out += own_neutral_int(st, info)
        else:
            out = own_neutral_int(st, info)
        return out + self.extra(cx, ex, info, ret, st)

    def extra(self, cx, ex, info, ret, st):
        return []

    def covers(self, cx, ov, info):
        if self.returns == "object":
            return [("returns", lambda r, s: r != NULL)]
        if self.returns == "int":
            return [("succeeds", lambda r, s: r >= 0)]
        return []


def safety(qualname, convention, returns="object", invariant=None, doc=None, props=("C18",), extra=None, assumptions=(), replay=None):
    ns = dict(qualname=qualname, convention=convention, returns=returns, properties=tuple(props), __doc__=doc,
              assumptions=Safety.assumptions + tuple(assumptions), replay_case=replay)
    if invariant is not None:
        ns["invariants"] = lambda self, ex, st, a: invariant(ex, st, a)
    if extra is not None:
        ns["extra"] = lambda self, cx, ex, info, ret, st: extra(cx, ex, info, ret, st)
    cls = type("Safety_" + qualname, (Safety,), ns)
    return register(cls)


def calls(st):
    return [r for r in st.trace if r[0] == "call"]


def one_call(target_field, arg_names, on="trait"):
    """exactly one call of the Python callable stored in `target_field` with the named arguments; result returned"""
    def extra(cx, ex, info, ret, st):
        a = info["args"]
        cs = calls(st)
        out = [("post:the-python-callable-runs-exactly-once", z3.BoolVal(len(cs) == 1))]
        if cs:
            c = cs[0]
            out.append(("post:callable-and-arguments", z3.And(
                c[1] == fld(ex, info["st0"], target_field, a[on]), A.tuple_len(c[2]) == len(arg_names),
                *[A.tuple_item(c[2], z3.IntVal(i)) == a[n] for i, n in enumerate(arg_names)])))
        return out
    return extra


# ---- property getters: trait->delegate_name holds the getter (installed by _trait_set_property together with the handler)
getter_inv = lambda ex, st, a: [fld(ex, st, "delegate_name", a["trait"]) != NULL]
for n_, argn in enumerate([(), ("obj",), ("obj", "name"), ("obj", "name", "trait")]):
    safety("getattr_property%d" % n_, "getattr", invariant=getter_inv, props=("C18", "C12"),
           extra=one_call("delegate_name", argn), assumptions=("A-TYPEINV: a property trait has its getter in delegate_name",),
           doc="Property read: the getter is called exactly once with the arity it was registered for; its result or its "
               "exception is the outcome (C12: 'a read calls the getter').")

# ---- property setters: traitd->delegate_prefix holds the setter; deleting a property is an error
setter_inv = lambda ex, st, a: [fld(ex, st, "delegate_prefix", a["traitd"]) != NULL]


def setter_extra(argn):
    base = one_call("delegate_prefix", argn, on="traitd")

    def extra(cx, ex, info, ret, st):
        a = info["args"]
        deleting = a["value"] == NULL
        cs = calls(st)
        out = [("post:deleting-a-property-is-an-error-and-calls-nothing", z3.Implies(deleting, z3.And(ret < 0, z3.BoolVal(not cs))))]
        if cs:
            out += base(cx, ex, info, ret, st)
        else:
            out.append(("post:setter-skipped-only-when-deleting", deleting))
        return out
    return extra


for n_, argn in enumerate([(), ("value",), ("obj", "value"), ("obj", "name", "value")]):
    safety("setattr_property%d" % n_, "setattr", returns="int", invariant=setter_inv, props=("C18", "C12"), extra=setter_extra(argn),
           assumptions=("A-TYPEINV: a settable property trait has its setter in delegate_prefix",),
           doc="Property write: the setter is called exactly once with the arity it was registered for; deletion is refused.")

# ---- validated property write: validate, then the real setter (kept in post_setattr) with the VALIDATED value
def svp_inv(ex, st, a):
    return [fld(ex, st, "validate", a["traitd"]) != 0, fld(ex, st, "post_setattr", a["traitd"]) != 0]


def svp_extra(cx, ex, info, ret, st):
    a = info["args"]
    v = [r for r in st.trace if r[0] == "validate"]
    p = [r for r in st.trace if r[0] == "post_setattr"]
    out = [("post:validator-runs-at-most-once", z3.BoolVal(len(v) <= 1)),
           ("post:setter-runs-only-after-a-successful-validation", z3.BoolVal(not p or (len(v) == 1 and st.trace.index(v[0]) < st.trace.index(p[0]))))]
    if v:
        out.append(("post:validator-gets-the-assigned-value", z3.And(v[0][1] == a["traitd"], v[0][2] == a["obj"], v[0][3] == a["name"], v[0][4] == a["value"])))
    if p:
        val = st.ghost.get("validated")
        out.append(("post:setter-gets-the-validated-value", z3.And(p[0][1] == a["traito"], p[0][2] == a["traitd"], p[0][3] == a["obj"], p[0][4] == a["name"],
                                                                   p[0][5] == val if val is not None else z3.BoolVal(False))))
    if st.ghost.get("validate_failed"):
        out.append(("raise:a-rejected-value-never-reaches-the-setter", z3.BoolVal(not p)))
    return out


safety("setattr_validate_property", "setattr", returns="int", invariant=svp_inv, props=("C18", "C12", "C01"), extra=svp_extra,
       assumptions=("A-TYPEINV: installed by _trait_set_property only together with a validator and the real setter in post_setattr",),
       doc="Property(trait) write: C01 'either raises ... or stores the documented conversion': the value handed to the setter is "
           "the validator's result, and a rejected value never reaches the setter.")

# ---- validator trampolines with explicit arity
val_inv = lambda ex, st, a: [fld(ex, st, "py_validate", a["trait"]) != NULL]
for n_, argn in enumerate([(), ("value",), ("obj", "value"), ("obj", "name", "value")]):
    safety("setattr_validate%d" % n_, "validate", invariant=val_inv, props=("C18", "C12"), extra=one_call("py_validate", argn),
           assumptions=("A-TYPEINV: py_validate holds the validator callable",),
           doc="Property validator trampoline: the validator is called exactly once with its registered arity.")


# ---------------------------------------------------------------------------------------------------------------------
# getset descriptors and small methods of CHasTraits / cTrait.  A setter is called with value == NULL for `del obj.attr`.
# ---------------------------------------------------------------------------------------------------------------------
def deleting_is_an_error(cx, ex, info, ret, st):
    a = info["args"]
    return [("post:deleting-the-attribute-is-refused-not-a-crash", z3.Implies(a["value"] == NULL, z3.And(ret < 0, st.exc != 0)))]


hastraits_inv = lambda ex, st, a: [fld(ex, st, "ctrait_dict", a["self"]) != NULL]
for fn in ("get_has_traits_dict", "get_trait_dict", "get_trait_handler", "get_trait_post_setattr", "get_trait_property_flag",
           "get_trait_modify_delegate_flag", "get_trait_setattr_original_value_flag", "get_trait_post_setattr_original_value_flag",
           "get_trait_is_mapped_flag", "_get_trait_comparison_mode_int"):
    safety(fn, "getter", doc="attribute getter: a new reference, never NULL without an error")

for fn in ("set_has_traits_dict", "set_trait_dict"):
    safety(fn, "setter", returns="int", extra=deleting_is_an_error,
           doc="__dict__ setter: only a dict is accepted; `del x.__dict__` (value == NULL) is refused")
for fn in ("set_trait_modify_delegate_flag", "set_trait_setattr_original_value_flag", "set_trait_post_setattr_original_value_flag",
           "set_trait_is_mapped_flag", "_set_trait_comparison_mode"):
    safety(fn, "setter", returns="int", extra=deleting_is_an_error, doc="flag setter: `del trait.flag` (value == NULL) is refused")
safety("set_trait_handler", "setter", returns="int", doc="handler setter (deleting clears the field)")
safety("set_trait_post_setattr", "setter", returns="int", extra=deleting_is_an_error,
       doc="post_setattr setter: a callable or None; deletion is refused")

for fn in ("_has_traits_notifications_enabled", "_has_traits_notifications_vetoed", "_has_traits_init", "_has_traits_inited",
           "_has_traits_set_inited", "_has_traits_instance_traits", "_trait_default_value"):
    safety(fn, "noargs", doc="argument-less method: a new reference")
safety("_trait_get_validate", "noargs",
       invariant=lambda ex, st, a: [z3.Implies(fld(ex, st, "validate", a["self"]) != 0, fld(ex, st, "py_validate", a["self"]) != NULL)],
       assumptions=("A-TYPEINV: a compiled validator is installed only together with its descriptor / callable (_trait_set_validate)",),
       doc="argument-less method: a new reference")
safety("_has_traits_class_traits", "noargs", invariant=hastraits_inv, assumptions=("A-TYPEINV: CHasTraits objects have a class-trait dict",),
       doc="argument-less method: a new reference")
safety("_trait_get_property", "noargs",
       invariant=lambda ex, st, a: [z3.Implies((fld(ex, st, "flags", a["self"]) & 1) != 0, z3.And(
           fld(ex, st, "delegate_name", a["self"]) != NULL, fld(ex, st, "delegate_prefix", a["self"]) != NULL,
           fld(ex, st, "py_validate", a["self"]) != NULL))],
       assumptions=("A-TYPEINV: the PROPERTY flag is set only together with getter, setter and validator (_trait_set_property)",),
       doc="property_fields: the (getter, setter, validator) triple of a property trait, None otherwise")
for fn in ("_has_traits_change_notify", "_has_traits_veto_notify", "_has_traits_notifiers", "_trait_notifiers", "_trait_set_default_value"):
    safety(fn, "method", doc="method taking an argument tuple: a new reference or NULL with an error")


# ---------------------------------------------------------------------------------------------------------------------
# CTrait.clone(source): the definition fields of `source` replace those of the trait; what the trait held before is released
# ---------------------------------------------------------------------------------------------------------------------
CLONED_OBJ = ("py_post_setattr", "py_validate", "default_value", "delegate_name", "delegate_prefix", "handler")
CLONED_ALL = ("flags", "getattr", "setattr", "post_setattr", "validate", "default_value_type", "delegate_attr_name") + CLONED_OBJ


def clone_extra(cx, ex, info, ret, st):
    a = info["args"]
    trait = a["self"]
    st0 = info["st0"]
    src = st.ghost.get("clone_source")
    out = []
    if src is not None:
        out.append(("post:every-definition-field-is-the-source's", z3.Implies(ret != NULL, z3.And(
            *[ex.field_array(st, n)[trait] == ex.field_array(st0, n)[src] for n in CLONED_ALL]))))
    else:
        out.append(("post:without-a-source-nothing-is-written", z3.BoolVal(not any(r[0] == "store" for r in st.trace))))
    return out


def clone_setup_hook(cls):
    orig = cls.configure

    def configure(self, cx, ex, ov):
        orig(self, cx, ex, ov)
        cx.globals["ctrait_type"] = z3.Const("g_ctrait_type", Obj)

        def parse(ex2, args, st, k):
            """PyArg_ParseTuple(args, "O!", ctrait_type, &source): a borrowed, non-NULL cTrait, or failure with TypeError"""
            fmt = args[1].s if hasattr(args[1], "s") else None
            if fmt != "O!":
                return A._parse_tuple(ex2.api, args, st, k)
            target = args[3]
            v = cx.fresh("parsed", Obj)
            ok = st.assume(v != NULL, A.subtype(A.type_of(v), args[2])).set(target.a, v).gset("clone_source", v)
            ok = ok.gset("caller_kept", tuple(ok.ghost.get("caller_kept", ())) + (v,))
            return k(z3.IntVal(1), ok) + k(z3.IntVal(0), st.with_exc(EXC["TypeError"]))
        cx.summaries["PyArg_ParseTuple"] = parse
    cls.configure = configure
    return cls


clone_setup_hook(safety("_trait_clone", "method", extra=clone_extra, props=("C18", "C14"), replay=dict(harness="hastraits", family="clone"),
                        doc="CTrait.clone(source): 'cloning ... trait definitions' leaves no reference behind: the six object-valued "
                            "definition fields the trait held before are released, the source's are shared with a reference each."))


# ---------------------------------------------------------------------------------------------------------------------
# the remaining attribute handlers and small entry points
# ---------------------------------------------------------------------------------------------------------------------
def generic_api(cls):
    """PyObject_GenericSetAttr: 0, or -1 with an exception; runs Python code (descriptors)"""
    orig = cls.configure

    def configure(self, cx, ex, ov):
        orig(self, cx, ex, ov)

        def generic_set(ex2, args, st, k):
            st = ex2.api.nonnull(st, args[0], "PyObject_GenericSetAttr")
            st = st.log(("generic-setattr",) + tuple(args))
            s1 = ex2.api.havoc(st, "PyObject_GenericSetAttr")
            e = cx.fresh("exc", INT)
            return k(z3.IntVal(0), s1) + k(z3.IntVal(-1), s1.assume(e >= 1).with_exc(e))
        cx.summaries["PyObject_GenericSetAttr"] = generic_set
    cls.configure = configure
    return cls


safety("getattr_python", "getattr", props=("C18", "C13"), doc="plain Python attribute read")
safety("getattr_generic", "getattr", props=("C18", "C13"), doc="plain Python attribute read")
safety("getattr_constant", "getattr", props=("C18", "C13"),
       invariant=lambda ex, st, a: [fld(ex, st, "default_value", a["trait"]) != NULL],
       extra=lambda cx, ex, info, ret, st: [("post:a-constant-reads-as-its-value", ret == fld(ex, info["st0"], "default_value", info["args"]["trait"]))],
       assumptions=("A-TYPEINV: a Constant trait carries its value in default_value",), doc="Constant(value): reads as the value")
generic_api(safety("setattr_generic", "setattr", returns="int", props=("C18", "C13"), doc="plain Python attribute write / delete"))


def python_set_extra(cx, ex, info, ret, st):
    a = info["args"]
    sets = [r for r in st.trace if r[0] == "dict-set"]
    dels = [r for r in st.trace if r[0] == "dict-del"]
    is_str = A.is_inst(a["name"], "PyUnicode_Type")
    out = [("post:non-string-name-is-refused", z3.Implies(z3.Not(is_str), z3.And(ret < 0, z3.BoolVal(not sets and not dels)))),
           ("post:assignment-stores-the-value-as-is", z3.Implies(z3.And(ret == 0, a["value"] != NULL), z3.And(
               z3.BoolVal(len(sets) == 1), sets[0][2] == a["name"], sets[0][3] == a["value"]) if sets else z3.BoolVal(False))),
           ("post:deletion-never-stores", z3.Implies(a["value"] == NULL, z3.BoolVal(not sets)))]
    return out


safety("setattr_python", "setattr", returns="int", props=("C18", "C13"), extra=python_set_extra,
       doc="Python-style attribute (names with a leading underscore by default): the value goes into the instance dictionary unvalidated; "
           "deleting a missing attribute is an AttributeError")


def event_extra(cx, ex, info, ret, st):
    a = info["args"]
    v = [r for r in st.trace if r[0] == "validate"]
    n = [r for r in st.trace if r[0] == "call_notifiers"]
    out = [("post:an-event-stores-nothing", z3.BoolVal(not any(r[0] in ("dict-set", "store") for r in st.trace))),
           ("post:validated-at-most-once-and-notified-at-most-once", z3.BoolVal(len(v) <= 1 and len(n) <= 1)),
           ("post:deleting-an-event-does-nothing", z3.Implies(a["value"] == NULL, z3.And(ret == 0, z3.BoolVal(not v and not n))))]
    if n:
        fired = st.ghost.get("validated") if v else a["value"]
        out.append(("post:handlers-get-Undefined-as-old-and-the-validated-value-as-new", z3.And(
            n[0][3] == a["obj"], n[0][4] == a["name"], n[0][5] == A.SINGLETONS["Undefined"], n[0][6] == fired)))
    if st.ghost.get("validate_failed"):
        out.append(("raise:a-rejected-value-fires-nothing", z3.And(ret < 0, z3.BoolVal(not n))))
    return out


safety("setattr_event", "setattr", returns="int", props=("C18", "C02", "C01"), extra=event_extra,
       doc="Event / Button: assignment validates, fires the handlers with (Undefined, value) and stores nothing")
safety("post_setattr_trait_python", "post_setattr", returns="int", props=("C18",),
       invariant=lambda ex, st, a: [fld(ex, st, "py_post_setattr", a["trait"]) != NULL],
       extra=one_call("py_post_setattr", ("obj", "name", "value")),
       assumptions=("A-TYPEINV: installed only together with the Python post_setattr callable (set_trait_post_setattr)",),
       doc="post_setattr hook: called once with (object, name, value)")
safety("_trait_validate", "method", props=("C18",), doc="CTrait.validate(object, name, value)")


def with_summaries(cls, **summaries):
    orig = cls.configure

    def configure(self, cx, ex, ov):
        orig(self, cx, ex, ov)
        for nm, fn in summaries.items():
            cx.summaries[nm] = fn(cx)
    cls.configure = configure
    return cls


def _get_trait_summary(cx):
    def get_trait(ex2, args, st, k):
        """get_trait by its contract (contracts/c/get_trait.py): a new reference to a trait / None, or NULL with an error"""
        st = st.log(("get_trait",) + tuple(args))
        return ex2.api.python_call(st, "get_trait", k, lambda s: k(NULL, s), result_prefix="trait")
    return get_trait


def _getattro_summary(cx):
    def getattro(ex2, args, st, k):
        st = st.log(("has_traits_getattro",) + tuple(args))
        return ex2.api.python_call(st, "has_traits_getattro", lambda r, s: k(r, s.gset("current_value", r)), lambda s: k(NULL, s), result_prefix="value")
    return getattro


def _dunder_summary(cx):
    def is_dunder(ex2, args, st, k):
        r = z3.Function("is_dunder_name", Obj, INT)(args[0])
        e = cx.fresh("exc", INT)
        return cx.branch(st, r >= 0, lambda s: k(r, s.assume(r <= 1)), lambda s: k(z3.IntVal(-1), s.assume(e >= 1, s.exc == 0).with_exc(e)))
    return is_dunder


def property_changed_extra(cx, ex, info, ret, st):
    a = info["args"]
    n = [r for r in st.trace if r[0] == "call_notifiers"]
    gets = [r for r in st.trace if r[0] == "has_traits_getattro"]
    out = [("post:handlers-notified-at-most-once", z3.BoolVal(len(n) <= 1)),
           ("post:current-value-read-only-when-no-new-value-is-given", z3.Implies(z3.BoolVal(bool(gets)), a["new_value"] == NULL))]
    if n:
        new = a["new_value"] if not gets else st.ghost.get("current_value", NULL)
        out.append(("post:handlers-get-(object, name, old, new)", z3.And(n[0][3] == a["obj"], n[0][4] == a["name"], n[0][5] == a["old_value"],
                                                                          n[0][6] == new)))
    return out


CONVENTIONS["property_changed"] = (("obj", "name", "old_value", "new_value"), ("new_value",))
with_summaries(safety("trait_property_changed", "property_changed", returns="int", props=("C18", "C12", "C02"), extra=property_changed_extra,
                      assumptions=("get_trait, has_traits_getattro and call_notifiers through their contracts",),
                      doc="trait_property_changed(name, old[, new]): C12 'a change of a property is announced once with truthful old and new': "
                          "one notification round with (object, name, old, new), new being the current value when none is given"),
               get_trait=_get_trait_summary, has_traits_getattro=_getattro_summary)
CONVENTIONS["getattro"] = (("obj", "name"), ())
with_summaries(safety("trait_getattro", "getattro", props=("C18",), doc="attribute read on a cTrait: unknown non-dunder names read as None"),
               is_dunder_name=_dunder_summary)


def _numeric_summary(exact_type, label):
    def mk(cx):
        def conv(ex2, args, st, k):
            v = args[0]
            def general(s):
                return ex2.api.python_call(s.log(("convert", label, v)), label, lambda r, s2: k(r, s2.assume(A.is_exact(r, exact_type))),
                                           lambda s2: k(NULL, s2), result_prefix="number")
            return cx.branch(st, A.is_exact(v, exact_type), lambda s: k(v, ex2.api.own_inc(s, v)), general)
        return conv
    return mk


def items_event_extra(cx, ex, info, ret, st):
    sets = [r for r in st.trace if r[0] == "setattr"]
    adds = [r for r in st.trace if r[0] == "callmethod" and r[2] == "add_trait"]
    return [("post:the-event-is-fired-at-most-once", z3.BoolVal(len(sets) <= 1)),
            ("post:the-items-trait-is-added-at-most-once", z3.BoolVal(len(adds) <= 1)),
            ("post:success-means-the-event-was-fired", z3.Implies(ret != NULL, z3.BoolVal(len(sets) == 1)))]


# _has_traits_items_event jumps into a nested block (`goto add_trait`): outside the C subset of cvc; not under contract
with_summaries(safety("_trait_default_value_for", "method", props=("C18", "C10"), doc="CTrait.default_value_for(object, name)"))
with_summaries(safety("validate_trait_complex_number", "validate", props=("C18", "C03"), doc="Complex: exact complex as is, else converted"),
               validate_complex_number=_numeric_summary("PyComplex_Type", "validate_complex_number"))


# ---------------------------------------------------------------------------------------------------------------------
# garbage-collection slots: tp_traverse visits, and tp_clear releases, EVERY object-valued field of the struct -- the field
# list is read from the struct declaration in ctraits.c on every run, so a field added later without updating the two slots
# fails here ('garbage collection at any point' of C18: an unvisited field makes reference cycles through it immortal, an
# uncleared one leaks)
# ---------------------------------------------------------------------------------------------------------------------
def struct_object_fields(typedef_name):
    import re
    txt = open(front.c_path()).read()
    m = re.search(r"typedef struct[^{]*\{([^}]*)\}\s*%s\s*;" % re.escape(typedef_name), txt)
    if not m:
        raise RuntimeError("struct %s not found" % typedef_name)
    body = re.sub(r"/\*.*?\*/", "", m.group(1), flags=re.S)
    return re.findall(r"\bPy\w*Object\s*\*\s*(\w+)\s*;", body)


from vc.cvc import front            # noqa: E402

CONVENTIONS["clear"] = (("self",), ())
CONVENTIONS["traverse"] = (("self", "visit", "arg"), ("arg",))


def clear_extra(typedef_name):
    def extra(cx, ex, info, ret, st):
        me = info["args"]["self"]
        fields = struct_object_fields(typedef_name)
        out = [("post:returns-0", ret == 0), ("post:struct-has-object-fields", z3.BoolVal(len(fields) >= 4))]
        for f in fields:
            out.append(("post:field-%s-is-released-and-emptied" % f, ex.field_array(st, f)[me] == NULL))
        return out
    return extra


safety("has_traits_clear", "clear", returns="int", extra=clear_extra("has_traits_object"), doc="tp_clear of CHasTraits")
safety("trait_clear", "clear", returns="int", extra=clear_extra("trait_object"), doc="tp_clear of cTrait")


def traverse_contract(qualname, typedef_name):
    class Traverse(CContract):
        properties = ("C18",)
        side_props = {"valid-deref": ("C18",), "bounds": ("C18",)}
        own = True
        assumptions = ("A-API", "the visit callback returns 0 to continue or a non-zero value to stop (tp_traverse protocol); it takes no references")

        def configure(self, cx, ex, ov):
            def visit(ex2, fn, args, st, k):
                r = cx.fresh("vret", INT)
                return k(r, st.log(("visit", args[0], args[1])))
            cx.field_call["visitproc"] = visit

        def c_setup(self, cx, ex, ov):
            me, arg = z3.Consts("self arg", Obj)
            visit = z3.Int("visit_fn")
            st = CSt().assume(me != NULL, visit != 0)
            return st, [me, visit, arg], dict(me=me, arg=arg, st0=st, witness={})

        def c_post(self, cx, ex, ov, info, ret, st):
            me = info["me"]
            fields = struct_object_fields(typedef_name)
            visits = [r for r in st.trace if r[0] == "visit"]
            out = [("post:struct-has-object-fields", z3.BoolVal(len(fields) >= 4)),
                   ("post:every-visit-passes-the-caller's-argument", z3.And(*[v[2] == info["arg"] for v in visits]) if visits else z3.BoolVal(True))]
            for f in fields:
                val = ex.field_array(info["st0"], f)[me]
                seen = z3.Or(*[v[1] == val for v in visits]) if visits else z3.BoolVal(False)
                out.append(("post:field-%s-is-visited-unless-the-walk-was-stopped" % f, z3.Implies(z3.And(val != NULL, ret == 0), seen)))
            out.append(("post:only-the-struct's-own-objects-are-visited", z3.And(*[
                z3.Or(*[v[1] == ex.field_array(info["st0"], f)[me] for f in fields]) for v in visits]) if visits else z3.BoolVal(True)))
            out.append(("post:NULL-is-never-visited", z3.And(*[v[1] != NULL for v in visits]) if visits else z3.BoolVal(True)))
            o = z3.Const("o!own", Obj)
            out.append(("own:reference-neutral", z3.ForAll([o], st.own[o] == info["own0"][o])))
            return out

        def covers(self, cx, ov, info):
            return [("walks-everything", lambda r, s: r == 0)]
    Traverse.qualname = qualname
    Traverse.__name__ = "Traverse_" + qualname
    return register(Traverse)


traverse_contract("has_traits_traverse", "has_traits_object")
traverse_contract("trait_traverse", "trait_object")
