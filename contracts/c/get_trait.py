"""C10 / C13 / C18: get_trait -- which trait definition answers for a name, and the copy-on-write creation of instance traits.

'No sequence of operations on one instance (... adding instance traits, attaching listeners) ever changes the ... trait
definitions observable on another instance': when an instance-specific trait is asked for (instance > 0) and none exists,
the class trait is CLONED into a new object (same definition fields), the clone gets its OWN notifier list (a new list
with the same items -- never the class trait's list object), and it is stored under the name in this object's instance
dictionary only.  Lookup order: instance trait, then class trait, then (except for instance == 0) the prefix trait.
The notifier copy loop is verified for lists of any length (inductive invariant)."""
import z3

from vc.unit import CContract, register
from vc.cvc.core import Obj, NULL, INT, EXC, CSt
from vc.cvc import api as A
from contracts.c.lookup import lookup_env, governing

CLONED = ("flags", "getattr", "setattr", "post_setattr", "py_post_setattr", "validate", "py_validate", "default_value_type",
          "default_value", "delegate_name", "delegate_prefix", "delegate_attr_name", "handler")


@register
class GetTrait(CContract):
    qualname = "get_trait"
    properties = ("C10", "C13")
    extra_properties = ("C18",)
    side_props = {"valid-deref": ("C18",), "bounds": ("C18",)}
    own = True
    overloads = ("instance<=0", "instance==1", "instance>=2/class-trait", "instance>=2/prefix-trait")
    assumptions = ("A-API", "A-HAVOC", "A-ALLOC", "A-INT", "A-TYPEINV: CHasTraits objects have a class-trait dict; notifier lists hold no NULL",
                   "get_prefix_trait through its contract (borrowed trait or NULL with an error)", "termination: variant n - i")

    def configure(self, cx, ex, ov):
        lookup_env(cx)
        cx.globals["ctrait_type"] = z3.Const("g_ctrait_type", Obj)
        # the type invariant of notifier lists holds of every heap the function sees, also after Python code ran
        cx.havoc_keeps = lambda api, before, after: after.assume(*self._typeinv(api.ex, after))
        j = z3.Int("j!gt")

        def inv(ex2, st, entry):
            i, n = st.env["i"], st.env["n"]
            src, dst = st.env["notifiers"], st.env["inotifiers"]
            items, items_e = A.list_item_arr(st), A.list_item_arr(entry)
            l = z3.Const("l!gt", Obj)
            return [("index-in-range", z3.And(0 <= i, i <= n)),
                    ("copied-so-far", z3.ForAll([j], z3.Implies(z3.And(0 <= j, j < i), items[dst][j] == items_e[src][j]))),
                    ("rest-still-empty", z3.ForAll([j], z3.Implies(j >= i, items[dst][j] == NULL))),
                    ("other-lists-untouched", z3.ForAll([l], z3.Implies(l != dst, items[l] == items_e[l]))),
                    ("references-balanced", st.own == entry.own), ("no-error-pending", st.exc == entry.exc)]
        cx.on_loop = lambda ex2, s, st: ex2.invariant_loop(s, st, {"i": INT, "item": Obj}, inv, heap=False, mems=["@listitem"],
                                                           name="copy-notifiers", variant=lambda e3, s3: s3.env["n"] - s3.env["i"])

    def c_setup(self, cx, ex, ov):
        obj, name = z3.Consts("obj name", Obj)
        instance = z3.Int("instance")
        st = CSt().assume(obj != NULL, name != NULL)
        st = st.with_mem("@listlen", z3.Const("listlen_in", z3.ArraySort(Obj, INT)))
        st = st.with_mem("@listitem", z3.Const("listitem_in", z3.ArraySort(Obj, z3.ArraySort(INT, Obj))))
        st = st.assume(ex.field_array(st, "ctrait_dict")[obj] != NULL)
        inst, cls = governing(ex, st, obj, name)
        st = st.assume({"instance<=0": instance <= 0, "instance==1": instance == 1, "instance>=2/class-trait": z3.And(instance >= 2, cls != NULL),
                        "instance>=2/prefix-trait": z3.And(instance >= 2, cls == NULL)}[ov])
        ll, items = A.list_len_arr(st), A.list_item_arr(st)
        j = z3.Int("j!in")
        nf = ex.field_array(st, "notifiers")
        pt = z3.Function("prefix_trait_for", Obj, Obj, Obj)(obj, name)
        # A-TYPEINV: a trait's notifier list is a list without NULL slots (stated for the two traits that can be cloned)
        def typeinv(ex2, s):
            nf2, ll2, it2 = ex2.field_array(s, "notifiers"), A.list_len_arr(s), A.list_item_arr(s)
            return [z3.Implies(z3.And(t != NULL, nf2[t] != NULL), z3.And(ll2[nf2[t]] >= 0, z3.ForAll([j], z3.Implies(
                z3.And(0 <= j, j < ll2[nf2[t]]), it2[nf2[t]][j] != NULL)))) for t in (cls, pt)]
        self._typeinv = typeinv
        st = st.assume(*typeinv(ex, st))
        return st, [obj, name, instance], dict(obj=obj, name=name, instance=instance, inst=inst, cls=cls, st0=st,
                                               witness={"instance": instance, "has_instance_trait": inst != NULL, "has_class_trait": cls != NULL},
                                               concretise=lambda m: dict(harness="hastraits", family="get_trait"))

    def c_post(self, cx, ex, ov, info, ret, st):
        obj, name, instance, inst, cls, st0 = (info[k] for k in ("obj", "name", "instance", "inst", "cls", "st0"))
        pt = z3.Function("prefix_trait_for", Obj, Obj, Obj)(obj, name)
        prefix_calls = [r for r in st.trace if r[0] == "get_prefix_trait"]
        created = st.ghost.get("fresh_object")
        sets = [r for r in st.trace if r[0] == "dict-set"]
        out = [("post:an-existing-instance-trait-always-answers", z3.Implies(inst != NULL, z3.And(ret == inst, z3.BoolVal(created is None and not sets)))),
               ("post:error-only-with-NULL", z3.Implies(st.exc != 0, ret == NULL))]
        if ov == "instance==1":
            out.append(("post:instance-only-query-never-creates", z3.And(z3.BoolVal(created is None and not sets and not prefix_calls),
                                                                        z3.Implies(inst == NULL, ret == A.NONE))))
        elif ov == "instance<=0":
            out.append(("post:read-only-query-never-creates", z3.BoolVal(created is None and not sets)))
            out.append(("post:class-trait-answers-when-there-is-no-instance-trait", z3.Implies(z3.And(inst == NULL, cls != NULL), ret == cls)))
            out.append(("post:instance-0-without-class-trait-is-None", z3.Implies(z3.And(inst == NULL, cls == NULL, instance == 0),
                                                                                  z3.And(ret == A.NONE, z3.BoolVal(not prefix_calls)))))
            out.append(("post:prefix-trait-answers-last", z3.Implies(z3.And(inst == NULL, cls == NULL, instance != 0, ret != NULL), ret == pt)))
        else:
            source = z3.If(cls != NULL, cls, pt)
            if created is not None:
                f0 = lambda n: ex.field_array(st0, n)
                f1 = lambda n: ex.field_array(st, n)
                out.append(("post:new-instance-trait-only-when-there-was-none", inst == NULL))
                out.append(("post:clone-is-a-new-object", z3.And(created != source, created != obj)))
                if ret is not None:
                    out.append(("post:the-clone-is-returned", z3.Implies(ret != NULL, ret == created)))
                same = [f1(n)[created] == f1(n)[source] for n in CLONED]
                out.append(("post:clone-has-the-definition-of-the-class-trait", z3.Implies(ret != NULL, z3.And(*same))))
                nl_src, nl_new = f1("notifiers")[source], f1("notifiers")[created]
                ll, items = A.list_len_arr(st), A.list_item_arr(st)
                j = z3.Int("j!post")
                out.append(("post:clone-gets-its-own-notifier-list-with-the-same-handlers", z3.Implies(ret != NULL, z3.If(
                    nl_src == NULL, nl_new == NULL, z3.And(nl_new != NULL, nl_new != nl_src, ll[nl_new] == ll[nl_src],
                                                             z3.ForAll([j], z3.Implies(z3.And(0 <= j, j < ll[nl_src]), items[nl_new][j] == items[nl_src][j])))))))
                out.append(("post:stored-under-the-name-in-this-object's-instance-dictionary-only", z3.Implies(ret != NULL, z3.And(
                    z3.BoolVal(len(sets) == 1), sets[0][1] == f1("itrait_dict")[obj], sets[0][2] == name, sets[0][3] == created) if sets else z3.BoolVal(False))))
            else:
                out.append(("post:without-creation-the-instance-trait-existed-or-the-lookup-failed", z3.Or(inst != NULL, ret == NULL)))
        if st.own is not None:
            o = z3.Const("o!own", Obj)
            out.append(("own:reference-neutral", z3.ForAll([o], st.own[o] == info["own0"][o] + z3.If(
                z3.And(o == ret, ret != NULL, z3.Not(A.immortal(ret))), 1, 0)), {}, ("C18",)))
        return out

    def covers(self, cx, ov, info):
        out = [("answers", lambda r, s: r != NULL)]
        if ov.startswith("instance>=2"):
            out.append(("creates", lambda r, s: z3.And(r != NULL, z3.BoolVal(s.ghost.get("fresh_object") is not None))))
        return out


@register
class GetPrefixTrait(CContract):
    """get_prefix_trait(obj, name, is_set): the trait for a name no class or instance trait declares, made by the Python
    method __prefix_trait__, recorded in the class-trait dictionary and announced through trait_added.

    The callers (has_traits_getattro / has_traits_setattro / get_trait / the delegate walkers) use the result as a
    BORROWED trait pointer: C18 requires that a non-NULL result is a trait object backed by the class-trait dictionary
    entry for the name -- never None, never an object whose only reference was just dropped."""
    qualname = "get_prefix_trait"
    properties = ("C13",)
    extra_properties = ("C18",)
    side_props = {"valid-deref": ("C18",), "bounds": ("C18",)}
    own = True
    assumptions = ("A-API", "A-HAVOC", "A-ALLOC", "get_trait and has_traits_setattro through their contracts",
                   "A-CB: trait_added handlers do not remove the trait being added")

    def configure(self, cx, ex, ov):
        cx.globals["trait_added"] = z3.Const("g_trait_added", Obj)

        def get_trait(ex2, args, st, k):
            """get_trait(obj, name, 0) by its contract: an existing instance trait, else the class trait, else None"""
            obj, name, _inst = args
            st = st.log(("get_trait",) + tuple(args))
            d = A.dict_arr(st)
            cls = d[ex2.field_array(st, "ctrait_dict")[obj]][name]
            itd = ex2.field_array(st, "itrait_dict")[obj]
            inst = z3.If(itd == NULL, NULL, d[itd][name])
            r = z3.If(inst != NULL, inst, z3.If(cls != NULL, cls, A.NONE))
            return k(r, ex2.api.own_inc(st, r).gset("looked_up", (inst, cls)))
        cx.summaries["get_trait"] = get_trait

        def setattro(ex2, args, st, k):
            st = st.log(("has_traits_setattro",) + tuple(args))
            s1 = ex2.api.havoc(st, "has_traits_setattro")
            e = cx.fresh("exc", INT)
            return k(z3.IntVal(0), s1) + k(z3.IntVal(-1), s1.assume(e >= 1).with_exc(e))
        cx.summaries["has_traits_setattro"] = setattro
        obj, name = z3.Consts("obj name", Obj)

        def keep(api, before, after):
            # A-CB: the handlers leave the entry just made in the class-trait dictionary (and the dictionary) in place
            f = api.ex.field_array
            cd0, cd1 = f(before, "ctrait_dict")[obj], f(after, "ctrait_dict")[obj]
            if not before.ghost.get("entry_made"):
                return after.assume(cd1 == cd0)
            return after.assume(cd1 == cd0, A.dict_arr(after)[cd1][name] == A.dict_arr(before)[cd0][name])
        cx.havoc_keeps = keep

        def set_item(ex2, args, st, k):
            return A._dict_setitem(ex2.api, args, st, lambda r, s: k(r, s.gset("entry_made", True) if z3.is_int_value(z3.simplify(r)) and z3.simplify(r).as_long() == 0 else s))
        cx.summaries["PyDict_SetItem"] = set_item

    def c_setup(self, cx, ex, ov):
        obj, name = z3.Consts("obj name", Obj)
        is_set = z3.Int("is_set")
        st = CSt().assume(obj != NULL, name != NULL, ex.field_array(CSt(), "ctrait_dict")[obj] != NULL)
        st = st.with_mem("@dict", A.dict_arr(st))
        return st, [obj, name, is_set], dict(obj=obj, name=name, witness={"name_is_exact_str": A.is_exact(name, "PyUnicode_Type")},
                                            concretise=lambda m: dict(harness="hastraits", family="prefix_trait_unhashable"))

    def c_post(self, cx, ex, ov, info, ret, st):
        obj, name = info["obj"], info["name"]
        made = [r for r in st.trace if r[0] == "callmethod" and r[2] == "__prefix_trait__"]
        cd = ex.field_array(st, "ctrait_dict")[obj]
        out = [("post:NULL-iff-error-indicator-set", (ret == NULL) == (st.exc != 0)),
               ("post:__prefix_trait__-is-asked-exactly-once", z3.BoolVal(len(made) == 1)),
               ("post:a-result-is-never-None", z3.Implies(ret != NULL, ret != A.NONE)),
               ("post:the-borrowed-result-is-backed-by-a-trait-dictionary-of-the-object", z3.Implies(ret != NULL, z3.Or(
                   A.dict_arr(st)[cd][name] == ret,
                   z3.And(ex.field_array(st, "itrait_dict")[obj] != NULL, A.dict_arr(st)[ex.field_array(st, "itrait_dict")[obj]][name] == ret))))]
        # C13 over histories: the class-trait dictionary is what subclasses defined LATER copy their inherited traits from
        # (MetaHasTraits); a trait resolved for an undeclared name is not a declaration and must not end up there
        sets = [r for r in st.trace if r[0] == "dict-set"]
        cd0 = ex.field_array(CSt(), "ctrait_dict")[obj]
        out.append(("frame:resolving-an-undeclared-name-adds-no-declaration-to-the-class", z3.And(*[r[1] != cd0 for r in sets]) if sets else z3.BoolVal(True),
                    dict(note="the resolved trait is cached in the class-trait dictionary, which later subclasses inherit"), ("C13",)))
        if st.own is not None:
            o = z3.Const("o!own", Obj)
            out.append(("own:reference-neutral-the-result-is-borrowed", z3.ForAll([o], st.own[o] == info["own0"][o]), {}, ("C18",)))
        return out

    def covers(self, cx, ov, info):
        return [("resolves", lambda r, s: r != NULL), ("fails", lambda r, s: r == NULL)]
