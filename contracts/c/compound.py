"""C03 / C01 / C19: validate_trait_complex -- the compiled validator of compound traits (Either, Trait(...), handlers
combined with |), for ANY number of alternatives (loop invariant) and for the coercing alternative's two scans.

What is proved about one validation:
  * the alternatives are examined in descriptor order; between two alternatives NO exception is pending (an alternative
    that does not match leaves the error indicator clear -- otherwise a later alternative would 'succeed with an exception
    set' and the assignment would surface SystemError, or fail for a reason that has nothing to do with it);
  * the outcome is NULL exactly when the error indicator is set; a value is returned only by an alternative that accepted
    it: the value itself, or the single conversion that alternative made;
  * when every alternative rejects, the outcome is the TraitError of handler.error(object, name, value);
  * reference neutrality on every path.
Which alternative is tried first is decided where the descriptor is built (TraitCompound.set_validate, C03 known finding)."""
import z3

from vc.unit import CContract, register
from vc.cvc.core import Obj, NULL, INT, EXC, CSt
from vc.cvc import api as A
from contracts.c.validators import (error_method_hook, own_neutral, in_float_range_summary, wf_float_range_info, ADAPT)
from contracts.c.gate import CTRAIT
from contracts.c.tuples import wf_items


def kind_of(e):
    return A.long_val(A.tuple_item(e, z3.IntVal(0)))


def wf_entry(e):
    """shape of one alternative, as produced by the trait types' own fast_validate tuples (each passes the gate for its kind)"""
    k = kind_of(e)
    n = A.tuple_len(e)
    item = lambda i: A.tuple_item(e, z3.IntVal(i))
    by_kind = [
        (0, z3.Or(n == 2, n == 3)), (1, z3.Or(n == 2, n == 3)), (2, z3.Or(n == 1, n == 2)), (4, wf_float_range_info(e)),
        (5, n == 2), (6, n == 2), (8, n == 2), (9, z3.And(n == 2, wf_items(item(1)))), (11, n >= 2), (12, n == 2), (13, n == 2),
        (19, z3.And(n == 4, A.is_inst(item(2), "PyLong_Type"))), (20, n >= 1), (21, n >= 1), (22, n >= 1), (23, n >= 1)]
    head = A.tuple_item(e, z3.IntVal(0))
    return z3.And(e != NULL, A.is_inst(e, "PyTuple_Type"), n >= 1, head != NULL, A.is_inst(head, "PyLong_Type"), A.long_fits(head),
                  z3.Or(*[k == kk for kk, _w in by_kind]),          # one of the kinds the compound validator knows
                  *[z3.Implies(k == kk, w) for kk, w in by_kind])


@register
class ValidateTraitComplex(CContract):
    qualname = "validate_trait_complex"
    properties = ("C03", "C01", "C19")
    # differential oracle (compiled path vs the handler's Python validate, flat and nested compounds): asked for a failing
    # input when the verifier's own model does not replay, and when an obligation stays undecided
    undecided_probe = dict(harness="pyvalidators", family="nested_compound")
    extra_properties = ("C18",)
    side_props = {"valid-deref": ("C18",), "bounds": ("C18",)}
    own = True
    assumptions = ("A-API", "A-HAVOC", "A-ALLOC", "A-INT", "A-TUPLE", "A-INIT: adapt registered",
                   "every alternative is a well-formed descriptor of its kind (built by TraitCompound.set_validate from fast_validate "
                   "tuples that each pass _trait_set_validate; NOT enforced by the gate for hand-made compounds: known finding)",
                   "in_float_range, validate_trait_tuple_check, default_value_for and the numeric conversions through their contracts",
                   "A-CB(trait-definition-stable)", "handler.error always raises TraitError",
                   "termination: variants n - i, k - j")

    def configure(self, cx, ex, ov):
        from contracts.c.setattr import install_families
        install_families(cx)
        cx.callmethod_hook = self.callmethod
        cx.summaries["in_float_range"] = in_float_range_summary
        cx.globals["adapt"] = ADAPT
        cx.globals["ctrait_type"] = CTRAIT
        trait, value = z3.Consts("trait value", Obj)

        def keep(api, before, after):
            f = api.ex.field_array
            return after.assume(*[f(after, n)[trait] == f(before, n)[trait] for n in ("py_validate", "handler", "validate", "flags")])
        cx.havoc_keeps = keep

        def numeric(exact_type, label):
            def conv(ex2, args, st, k):
                v = args[0]
                st = st.log(("convert", label, v))
                def general(s):
                    return ex2.api.python_call(s, label, lambda r, s2: k(r, s2.assume(A.is_exact(r, exact_type)).gset("converted", r)),
                                               lambda s2: k(NULL, s2), result_prefix="number")
                return cx.branch(st, A.is_exact(v, exact_type), lambda s: k(v, ex2.api.own_inc(s, v).gset("converted", v)), general)
            return conv
        cx.summaries["as_integer"] = numeric("PyLong_Type", "as_integer")
        cx.summaries["validate_float"] = numeric("PyFloat_Type", "validate_float")
        cx.summaries["validate_complex_number"] = numeric("PyComplex_Type", "validate_complex_number")

        def tuple_check(ex2, args, st, k):
            T, obj, name, V = args
            st = cx.require(st, z3.And(T != NULL, V != NULL, wf_items(T)), "pre@validate_trait_tuple_check:descriptor-items-are-traits")
            s1 = ex2.api.havoc(st.log(("tuple_check",) + tuple(args)), "validate_trait_tuple_check")
            r, s_ok = ex2.api.fresh_obj("checked", s1)
            e = cx.fresh("exc", INT)
            return k(r, s_ok.gset("converted", r)) + k(NULL, s1.assume(s1.exc == 0)) + k(NULL, s1.assume(e >= 1).with_exc(e))
        cx.summaries["validate_trait_tuple_check"] = tuple_check

        def py_call(ex2, args, st, k):
            st = ex2.api.nonnull(st, args[0], "PyObject_Call")
            st = st.log(("call", args[0], args[1], args[2] if len(args) > 2 else NULL))
            return ex2.api.python_call(st, "PyObject_Call", lambda r, s: k(r, s.gset("converted", r)), lambda s: k(NULL, s))
        cx.summaries["PyObject_Call"] = py_call
        q = z3.Int("q!vc")

        def inv(ex2, st, entry):
            i, n = st.env["i"], st.env["n"]
            return [("index-in-range", z3.And(0 <= i, i <= n, n == A.tuple_len(st.env["list_type_info"]))),
                    ("no-exception-pending-between-alternatives", st.exc == 0,
                     {"kind_of_the_alternative_just_tried": kind_of(st.env["type_info"]) if st.env.get("type_info") is not None else z3.IntVal(-1)}),
                    ("references-balanced-between-alternatives", st.own == entry.own),
                    ("descriptor-unchanged", st.env["list_type_info"] == entry.env["list_type_info"])]

        def inv_asis(ex2, st, entry):
            j, k_ = st.env["j"], st.env["k"]
            return [("index-in-range", z3.And(2 <= j, z3.Or(j <= k_, k_ < 2), k_ == A.tuple_len(st.env["type_info"]))),
                    ("nothing-changes", z3.And(st.exc == entry.exc, st.own == entry.own))]

        def inv_coerce(ex2, st, entry):
            j, k_ = st.env["j"], st.env["k"]
            return [("index-in-range", z3.And(entry.env["j"] <= j, z3.Or(j <= k_, j == entry.env["j"]), j >= 3)),
                    ("nothing-changes", z3.And(st.exc == entry.exc, st.own == entry.own))]

        def on_loop(ex2, s, st):
            init = s["inner"][0]
            if init.get("kind") == "DeclStmt":          # for (Py_ssize_t i = 0; ...)
                outs = ex2.invariant_loop(s, st, {"i": INT, "type_info": Obj, "result": Obj, "type": Obj, "type2": Obj, "args": Obj,
                                                  "mode": INT, "rc": INT, "in_range": INT}, inv, heap=True, name="alternatives",
                                          variant=lambda e3, s3: s3.env["n"] - s3.env["i"])
                # a jump to `error:` out of an iteration rejects the value although later alternatives were not tried
                return [(kd, p, s2.gset("early_error", True) if kd == "goto" and p == "error" else s2) for (kd, p, s2) in outs]
            if not init.get("kind"):                     # for (; j < k; j++)
                return ex2.invariant_loop(s, st, {"j": INT, "type2": Obj}, inv_asis, heap=False, name="as-is-types",
                                          variant=lambda e3, s3: s3.env["k"] - s3.env["j"])
            return ex2.invariant_loop(s, st, {"j": INT, "type2": Obj}, inv_coerce, heap=False, name="coercible-types",
                                      variant=lambda e3, s3: s3.env["k"] - s3.env["j"])
        cx.on_loop = on_loop

    @staticmethod
    def callmethod(api, rec, st, k):
        if rec[2] == "error":
            return error_method_hook(api, rec, st, k)
        if rec[2] == "slow_validate":
            return api.python_call(st, "slow_validate", lambda r, s: k(r, s.gset("converted", r)),
                                   lambda s: k(NULL, s.gset("slow_alternative_failed_with", s.exc)))
        return None

    def c_setup(self, cx, ex, ov):
        trait, obj, name, value = z3.Consts("trait obj name value", Obj)
        st = CSt()
        tinfo = ex.field_array(st, "py_validate")[trait]
        entries = A.tuple_item(tinfo, z3.IntVal(1))
        q = z3.Int("q!wfc")
        t, p = z3.Const("t!tup", Obj), z3.Int("p!tup")
        cx.axioms.append(z3.ForAll([t, p], z3.Implies(z3.And(A.is_inst(t, "PyTuple_Type"), 0 <= p, p < A.tuple_len(t)), A.tuple_item(t, p) != NULL)))
        st = st.assume(trait != NULL, obj != NULL, name != NULL, value != NULL, tinfo != NULL, A.is_inst(tinfo, "PyTuple_Type"),
                       A.tuple_len(tinfo) == 2, entries != NULL, A.is_exact(entries, "PyTuple_Type"), A.is_inst(entries, "PyTuple_Type"),
                       A.tuple_len(entries) >= 0, ex.field_array(st, "handler")[trait] != NULL, ADAPT != NULL, st.exc == 0,
                       z3.ForAll([q], z3.Implies(z3.And(0 <= q, q < A.tuple_len(entries)), wf_entry(A.tuple_item(entries, q)))))
        return st, [trait, obj, name, value], dict(trait=trait, obj=obj, name=name, value=value, entries=entries,
                                                   witness={"alternatives": A.tuple_len(entries)},
                                                   concretise=lambda m: dict(harness="cvalidators", family="compound_pending_exception"))

    def c_post(self, cx, ex, ov, info, ret, st):
        value = info["value"]
        conv = st.ghost.get("converted")
        dflt = st.ghost.get("default")
        out = [("post:NULL-iff-error-indicator-set", (ret == NULL) == (st.exc != 0)),
               ("post:stores-the-value-itself-or-the-accepting-alternative's-conversion-or-default",
                z3.Implies(ret != NULL, z3.Or(ret == value, ret == conv if conv is not None else z3.BoolVal(False),
                                              ret == dflt if dflt is not None else z3.BoolVal(False)))),
               ("post:no-store-no-write", z3.BoolVal(not any(r[0] == "store" for r in st.trace)))]
        if any(r[0] == "trait-error" for r in st.trace):
            out.append(("post:rejection-by-every-alternative-is-TraitError", z3.And(ret == NULL, st.exc == EXC["TraitError"])))
            out.append(("post:the-value-is-rejected-only-after-every-alternative-was-tried", z3.BoolVal(not st.ghost.get("early_error")),
                        dict(note="an alternative that does not accept must leave the decision to the ones after it")))
        sf = st.ghost.get("slow_alternative_failed_with")
        if sf is not None:
            # the Python-validated ('slow') alternatives are alternatives like the others: their TraitError means 'not this one',
            # and the decision passes to the alternatives after them (a nested compound puts a slow entry in the MIDDLE of the table)
            out.append(("post:a-TraitError-of-the-slow-alternative-is-not-the-compound's-answer", z3.Implies(
                z3.And(ret == NULL, sf == EXC["TraitError"]), z3.BoolVal(any(r[0] == "trait-error" for r in st.trace))),
                dict(note="only the final handler.error, after every alternative, may reject")))
        return out + own_neutral(st, info, ret)

    def covers(self, cx, ov, info):
        return [("accepts-as-is", lambda r, s: z3.And(r != NULL, r == info["value"])),
                ("accepts-converted", lambda r, s: z3.And(r != NULL, r != info["value"])),
                ("rejects-with-TraitError", lambda r, s: z3.And(r == NULL, s.exc == EXC["TraitError"]))]
