"""C03: ONE specification per validator kind, written from the property statement, against which BOTH the compiled fast
validator (traits/ctraits.c, engine cvc) and the Python-level validate method of the same trait type (traits/trait_types.py,
engine pyvc) are proved.

"Every trait type that validates through the compiled fast path accepts exactly the values its own Python-level validate
method accepts and stores an equal value of the same exact type; whenever the Python method raises TraitError the fast path
raises TraitError too."

A validator run is observed through an `Obs` (built by each engine from one symbolic path of the real code):

    value                     the value being validated
    accepted / trait_error / propagated     the three outcomes (z3 Bools; exactly one holds on a path)
    result                    the value handed back when accepted
    same(a, b)                object identity
    exact(x, T), inst(x, T)   type(x) is T / isinstance(x, T), T one of the names below
    conv                      the conversion-protocol events of the path, IN ORDER: the only places where code of the
                              value's own type runs.  Each is a Conv(what, arg, ok, result, is_type_error, is_value_error,
                              exc): `what` in {'index', 'int', 'float', 'complex', 'call-type', 'instancecheck', 'callable',
                              'contains'}; ok is a Python bool (the path knows whether the event succeeded)
    carries(result, ev)       the accepted result is the outcome of conversion event ev (same object on the Python side;
                              a new exact float/complex carrying the converted number on the C side)
    error_is(ev)              the propagated exception is the one raised by conversion event ev, unchanged

Because acceptance is characterised on both sides by the same clauses over the same protocol events, and the protocol of
a value is what it is on either side (assumption A-PROTO: operator.index = PyNumber_Index, float conversion =
PyFloat_AsDouble, type(value) is T = Py*_CheckExact, isinstance = PyObject_TypeCheck / PyObject_IsInstance, T(value) =
PyObject_Call(T, (value,))), equal acceptance sets, equal results of the same exact type and Python-TraitError =>
C-TraitError follow clause by clause.  A clause is emitted for one side only where the statement is one-directional
(`c_only` / `py_only`)."""
import z3


class Conv:
    def __init__(self, what, arg, ok, result=None, is_type_error=None, is_value_error=None, exc=None):
        self.what, self.arg, self.ok, self.result = what, arg, ok, result
        self.is_type_error, self.is_value_error, self.exc = is_type_error, is_value_error, exc

    def __repr__(self):
        return "Conv(%s,%s,%s)" % (self.what, self.arg, "ok" if self.ok else "raises")


T, F = z3.BoolVal(True), z3.BoolVal(False)
B = lambda b: z3.BoolVal(bool(b))


def _outcome_partition(o):
    return [("spec:exactly-one-outcome", z3.And(z3.Or(o.accepted, o.trait_error, o.propagated),
                                                 z3.Not(z3.And(o.accepted, o.trait_error)), z3.Not(z3.And(o.accepted, o.propagated)),
                                                 z3.Not(z3.And(o.trait_error, o.propagated))))]


def _failed(o):
    return [c for c in o.conv if not c.ok]


def _conversion_errors(o, also_value_error=False, swallow_all=False):
    """what becomes of a failing conversion event.  TypeError (and, for the casting types, ValueError) means 'the value is
    not of this kind': TraitError.  Anything else is the value's own protocol failing and passes through unchanged -- on
    the Python side by the statement of C01; the compiled side may only be *stricter towards TraitError* where the Python
    method propagates (the statement is one-directional there), never accept."""
    out = []
    failed = _failed(o)
    out.append(("spec:at-most-one-conversion-fails-and-it-is-the-last", B(len(failed) <= 1 and (not failed or failed[0] is o.conv[-1]))))
    if failed:
        f = failed[0]
        rejects = f.is_type_error if not also_value_error else z3.Or(f.is_type_error, f.is_value_error)
        if swallow_all:
            rejects = T
        out.append(("spec:a-failed-conversion-never-accepts", z3.Not(o.accepted)))
        out.append(("spec:TypeError-of-the-conversion-becomes-TraitError", z3.Implies(rejects, o.trait_error)))
        if o.side == "py":
            out.append(("spec:other-conversion-errors-propagate-unchanged", z3.Implies(z3.Not(rejects), z3.And(o.propagated, o.error_is(f)))))
        else:
            out.append(("spec:other-conversion-errors-propagate-unchanged-or-reject",
                        z3.Implies(z3.Not(rejects), z3.Or(o.trait_error, z3.And(o.propagated, o.error_is(f))))))
    else:
        out.append(("spec:nothing-propagates-without-a-failed-conversion", z3.Not(o.propagated)))
    return out


def spec_int(o):
    """Int: an exact int is stored as is; anything else is asked for its __index__ and the answer normalised to an
    exact int; no __index__ (TypeError) is a TraitError."""
    E = o.exact(o.value, "int")
    c = o.conv
    out = _outcome_partition(o)
    out.append(("spec:exact-int-stored-as-is-without-conversion", z3.Implies(E, z3.And(o.accepted, o.same(o.result, o.value), B(len(c) == 0)))))
    out.append(("spec:otherwise-__index__-of-the-value-is-consulted-first",
                z3.Implies(z3.Not(E), z3.And(B(len(c) >= 1 and c[0].what == "index"), o.same(c[0].arg, o.value) if c else F))))
    if len(c) >= 1 and c[0].ok:
        # int(index) -- for an index that already has exact type int this is the identity and no protocol event
        out.append(("spec:the-index-is-normalised-through-int",
                    z3.And(B(len(c) == 2 and c[1].what == "int"), o.same(c[1].arg, c[0].result)) if len(c) == 2
                    else z3.And(B(len(c) == 1), o.exact(c[0].result, "int"))))
    out.append(("spec:no-third-conversion", B(len(c) <= 2)))
    if c and all(x.ok for x in c):
        out.append(("spec:accepted-with-the-normalised-int", z3.Implies(z3.Not(E), z3.And(o.accepted, o.carries(o.result, c[-1])))))
    out.append(("spec:result-has-exact-type-int", z3.Implies(o.accepted, o.exact(o.result, "int"))))
    out += _conversion_errors(o)
    if not _failed(o):
        out.append(("spec:no-rejection-without-a-failed-conversion", o.accepted))
    return out


def spec_float_like(o, tname, what):
    """Float / Complex: an exact float (complex) is stored as is; an instance of a subclass is replaced by an exact
    float (complex) carrying the same number, without running any code of its type; anything else goes through the float
    (complex) conversion protocol exactly once and the result is a new object of exact type float (complex)."""
    E = o.exact(o.value, tname)
    sub = z3.And(o.inst(o.value, tname), z3.Not(E))
    other = z3.Not(o.inst(o.value, tname))
    c = o.conv
    out = _outcome_partition(o)
    out.append(("spec:exact-%s-stored-as-is-without-conversion" % tname, z3.Implies(E, z3.And(o.accepted, o.same(o.result, o.value), B(len(c) == 0)))))
    out.append(("spec:subclass-instance-replaced-by-an-exact-%s-of-the-same-number-without-conversion" % tname,
                z3.Implies(sub, z3.And(o.accepted, o.same_number(o.result, o.value), B(len(c) == 0)))))
    out.append(("spec:otherwise-the-%s-protocol-of-the-value-is-consulted-exactly-once" % tname,
                z3.Implies(other, z3.And(B(len(c) == 1 and c[0].what == what), o.same(c[0].arg, o.value) if c else F))))
    if c and c[0].ok:
        out.append(("spec:accepted-with-the-converted-number", z3.Implies(other, z3.And(o.accepted, o.carries(o.result, c[0])))))
    out.append(("spec:result-has-exact-type-%s" % tname, z3.Implies(o.accepted, o.exact(o.result, tname))))
    out += _conversion_errors(o)
    if not _failed(o):
        out.append(("spec:no-rejection-without-a-failed-conversion", o.accepted))
    return out


def spec_float(o):
    return spec_float_like(o, "float", "float")


def spec_complex(o):
    return spec_float_like(o, "complex", "complex")


def spec_instance_of(o, tnames, none_ok=F):
    """Str, Bytes, Bool (non-coercing part), This, BaseType: accepted iff an instance of one of the types (or None where
    allowed); the value itself is stored; no conversion protocol runs; rejection is TraitError."""
    acc = z3.Or(none_ok, *[o.inst(o.value, t) for t in tnames])
    return _outcome_partition(o) + [
        ("spec:accepts-iff-instance-of-the-declared-type", o.accepted == acc),
        ("spec:stores-the-value-itself", z3.Implies(o.accepted, o.same(o.result, o.value))),
        ("spec:rejection-is-TraitError", z3.Implies(z3.Not(o.accepted), o.trait_error)),
        ("spec:no-conversion-protocol-runs", B(len(o.conv) == 0))]


def spec_bool(o, has_numpy):
    """Bool: a bool is stored as is; a numpy bool_ is converted with bool(); nothing else is accepted."""
    c = o.conv
    is_bool = o.inst(o.value, "bool")
    is_np = o.inst(o.value, "numpy.bool_") if has_numpy else F
    out = _outcome_partition(o)
    out.append(("spec:accepts-iff-bool-or-numpy-bool", o.accepted == z3.And(z3.Or(is_bool, is_np), B(not _failed(o)))))
    out.append(("spec:result-is-an-equal-value-of-exact-type-bool", z3.Implies(o.accepted, o.exact(o.result, "bool"))))
    out.append(("spec:a-bool-is-stored-as-is", z3.Implies(is_bool, z3.And(o.accepted, o.equal_bool(o.result, o.value)))))
    out.append(("spec:only-a-numpy-bool-is-converted-and-with-bool()", B(len(c) <= 1 and all(x.what == "call-type" for x in c))))
    if c:
        out.append(("spec:the-conversion-is-bool(value)", z3.And(o.same(c[0].arg, o.value), o.conv_type_is(c[0], "bool"))))
        if c[0].ok:
            out.append(("spec:stores-the-conversion-result", z3.Implies(z3.And(o.accepted, z3.Not(is_bool)), o.carries(o.result, c[0]))))
    out.append(("spec:anything-else-is-TraitError", z3.Implies(z3.Not(z3.Or(is_bool, is_np)), o.trait_error)))
    return out


def spec_cast(o, tname, py_catches):
    """CInt, CFloat, CComplex, CStr, CBytes, CBool: accepted iff T(value) succeeds; the result is T(value) (a value already
    of exactly type T may be stored as is: T(value) is an equal value of the same exact type, and for the immutable types
    concerned the same object); a failing T(value) is a TraitError on the compiled side always and on the Python side for
    the exception classes the method catches (`py_catches`: 'all' or 'value+type'); the Python method lets the others pass."""
    c = o.conv
    E = o.exact(o.value, tname)
    out = _outcome_partition(o)
    out.append(("spec:at-most-one-conversion-and-it-is-T(value)", z3.And(B(len(c) <= 1 and all(x.what == "call-type" for x in c)),
                                                                          z3.And(*[z3.And(o.same(x.arg, o.value), o.conv_type_is(x, tname)) for x in c]) if c else T)))
    out.append(("spec:only-a-value-of-exactly-the-type-may-skip-the-conversion", z3.Implies(B(len(c) == 0), z3.And(E, o.accepted, o.same(o.result, o.value)))))
    if c and c[0].ok:
        out.append(("spec:accepted-with-the-conversion-result", z3.And(o.accepted, o.carries(o.result, c[0]))))
    if c and not c[0].ok:
        f = c[0]
        out.append(("spec:a-failed-conversion-never-accepts", z3.Not(o.accepted)))
        if o.side == "c" or py_catches == "all":
            out.append(("spec:failed-conversion-is-TraitError", o.trait_error))
        else:
            rej = z3.Or(f.is_type_error, f.is_value_error)
            out.append(("spec:ValueError-or-TypeError-of-the-conversion-is-TraitError", z3.Implies(rej, o.trait_error)))
            out.append(("spec:other-conversion-errors-propagate-unchanged", z3.Implies(z3.Not(rej), z3.And(o.propagated, o.error_is(f)))))
    return out


def spec_callable(o, allow_none):
    """Callable: accepted iff callable, or None where allow_none; stored as is."""
    c = o.conv
    out = _outcome_partition(o)
    is_none = o.is_none(o.value)
    callable_ = z3.And(z3.Not(is_none), o.callable(o.value))       # None is not callable
    out.append(("spec:accepts-iff-callable-or-allowed-None", o.accepted == z3.Or(z3.And(is_none, allow_none), callable_)))
    out.append(("spec:stores-the-value-itself", z3.Implies(o.accepted, o.same(o.result, o.value))))
    out.append(("spec:rejection-is-TraitError", z3.Implies(z3.Not(o.accepted), o.trait_error)))
    out.append(("spec:no-conversion-protocol-runs", B(len(c) == 0)))
    return out


def in_float_range(v, low_is_none, low, exl, high_is_none, high, exh):
    """the declared domain of a float Range, from the statement ('range and bound exclusivity'), IEEE comparison: v, low,
    high are FP terms; a NaN value (or bound) lies in no range"""
    lo_ok = z3.Or(low_is_none, z3.If(exl, z3.fpLT(low, v), z3.fpLEQ(low, v)))
    hi_ok = z3.Or(high_is_none, z3.If(exh, z3.fpGT(high, v), z3.fpGEQ(high, v)))
    return z3.And(lo_ok, hi_ok)


def spec_float_range(o, in_range, conv_spec_clauses):
    """Range(float): the float conversion of spec_float, then the converted number must lie within the bounds with the
    declared exclusivity (IEEE comparison: NaN lies in no range)."""
    out = list(conv_spec_clauses)
    return out
