"""Spec functions for the container properties (C04-C07, C19), written from
the statements in properties.jsonl -- not from the code.

C05: "After any sequence of operations a TraitList holds exactly what a
built-in list holds after the same operations on the validated items, raises
the same exception class where list raises, and is untouched by a failing
operation.  Every operation that changes the contents emits exactly one
notification (index, removed, added) such that replacing, in a snapshot taken
before the operation, the removed items at index by the added items yields the
contents after; index is a non-negative integer, or for extended slices a
slice with 0 <= start < stop <= old length and step >= 2 selecting exactly the
removed items; an operation that changes nothing may only emit an event whose
replay is the identity."
"""
import z3

from vc.pyvc.values import *  # noqa: F401,F403
from vc.pyvc.core import HObj, St
from vc.pyvc.builtins_model import ite


class Ev:
    """One emitted list notification: index (VInt | VSlice | VIdx), removed / added (SeqV terms)
    and `at`: the contents of the list at the moment of emission."""

    def __init__(self, index, removed, added, at):
        self.index, self.removed, self.added, self.at = index, removed, added, at


def _idx_cases(index):
    """-> list of (guard, 'int', i) / (guard, 'slice', (a, b, c, wellformed))"""
    T, F = z3.BoolVal(True), z3.BoolVal(False)
    if isinstance(index, VInt):
        return [(T, "int", index.t)]
    if isinstance(index, VBool):
        return [(T, "int", z3.If(index.t, 1, 0))]
    if isinstance(index, VSlice):
        wf = z3.And(z3.Not(index.start.is_none), z3.Not(index.stop.is_none), z3.Not(index.step.is_none))
        return [(T, "slice", (index.start.t, index.stop.t, index.step.t, wf))]
    if isinstance(index, VIdx):
        return [(z3.Not(index.is_slice), "int", index.i), (index.is_slice, "slice", (index.a, index.b, index.c, T))]
    return [(T, "bad", None)]


def list_event_laws(B, before, ev):
    """Clauses (name, z3 Bool) the statement of C05 imposes on one emitted event, given the
    snapshot `before` taken before the operation.

    replay(before, e) for an integer index i is  before[:i] + added + before[i+len(removed):];
    for a slice index it is `before[index] = added` (or `del before[index]` when nothing is added),
    expressed with the canonical extended-slice primitives of the builtin model."""
    n = z3.Length(before)
    out = []
    nf, sel, rep = [], [], []
    for (g, tag, x) in _idx_cases(ev.index):
        if tag == "int":
            i = x
            r = z3.Length(ev.removed)
            nf.append(z3.Implies(g, z3.And(0 <= i, i <= n)))
            sel.append(z3.Implies(g, z3.And(i + r <= n, ev.removed == z3.Extract(before, i, r))))
            rep.append(z3.Implies(g, z3.Concat(z3.Extract(before, 0, i), ev.added,
                                               z3.Extract(before, i + r, n - i - r)) == ev.at))
        elif tag == "slice":
            a, b, c, wf = x
            cnt = B.range_count(a, b, c, None)
            nf.append(z3.Implies(g, z3.And(wf, 0 <= a, a < b, b <= n, c >= 2)))
            sel.append(z3.Implies(g, ev.removed == B.ext_get(before, a, c, cnt)))
            rep.append(z3.Implies(g, z3.If(z3.Length(ev.added) == 0,
                                           B.ext_del(before, a, c, cnt) == ev.at,
                                           z3.And(z3.Length(ev.added) == cnt,
                                                  B.ext_set(before, a, c, cnt, ev.added) == ev.at))))
        else:
            nf.append(z3.BoolVal(False))
    out.append(("post:normal-form", z3.And(*nf)))
    out.append(("post:removed-are-the-items-at-index", z3.And(*sel)))
    out.append(("post:replay-law", z3.And(*rep)))
    return out


class Validator:
    """A-CB validator effect class: a partial function.  ok(x): accepts; val(x): the converted
    item; exc(x): the exception raised when it does not accept.  It reads and writes nothing else."""

    def __init__(self, cx, name):
        self.name = name
        self.ok = z3.Function("ok_" + name, Val, z3.BoolSort())
        self.val = z3.Function("val_" + name, Val, Val)
        self.exc = z3.Function("exc_" + name, Val, Exc)
        self.cx = cx

    def as_value(self):
        from vc.pyvc.core import as_val

        def apply(I, args, kwargs, st, k):
            if len(args) != 1 or kwargs:
                return [("raise", VExc(cname="TypeError"), st)]
            x = as_val(I.cx, args[0], st)
            out = []
            out += I.cx.branch(st, self.ok(x), lambda a: k(VElem(self.val(x)), a), lambda b: [])
            e = self.exc(x)

            def bad(st2):
                return [("raise", VExc(sym=e, origin=("validator", self.name, x)), st2.assume(*I.cx.exc_axioms(e)))]
            out += I.cx.branch(st, z3.Not(self.ok(x)), bad, lambda b: [])
            return out
        return VFunc("opaque", apply=apply, name=self.name, validator=self)


def exc_same(a, b):
    """z3 Bool: exceptions a and b (VExc) are the same exception (class and, when symbolic, instance)."""
    if a.cname is not None and b.cname is not None:
        return z3.BoolVal(a.cname == b.cname)
    if a.sym is not None and b.sym is not None:
        return a.sym == b.sym
    return z3.BoolVal(False)
