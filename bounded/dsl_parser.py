"""Bounded stand-in for C15 (labelled bounded): shipped LALR parser vs lark Earley on the grammar text.
usage: dsl_parser.py <repo root> <length bound>; prints one JSON line."""
import importlib.util
import itertools
import json
import multiprocessing
import sys

REPO, BOUND = sys.argv[1], int(sys.argv[2])
TOKENS = ["a", "items", "+", "*", ".", ":", ",", "[", "]"]
_state = {}


def load():
    if not _state:
        import lark
        spec = importlib.util.spec_from_file_location("gp", REPO + "/traits/observation/_generated_parser.py")
        m = importlib.util.module_from_spec(spec)
        spec.loader.exec_module(m)
        _state["lalr"] = m.Lark_StandAlone()
        _state["lark_error"] = m.LarkError
        g = open(REPO + "/traits/observation/_dsl_grammar.lark").read()
        # Earley with the dynamic lexer recognises exactly the language of the grammar text; the only ambiguity is the
        # word "items" (keyword vs NAME), resolved as documented: the `items` rule wins where both apply
        _state["earley"] = lark.Lark(g, parser="earley", start="start", ambiguity="explicit")
        _state["lark"] = lark
    return _state


def shape(t):
    if hasattr(t, "data"):
        if str(t.data) == "_ambig":
            alts = [shape(c) for c in t.children]
            pick = [a for a in alts if a == ("items", ())]
            rest = [a for a in alts if a not in (("items", ()), ("trait", (("tok", "items"),)))]
            if pick and not rest:
                return pick[0]
            return ("_ambig", tuple(alts))
        return (str(t.data), tuple(shape(c) for c in t.children))
    return ("tok", str(t))


def render(tokens, spaced):
    out = []
    names = iter("abcdefgh")
    for i, tk in enumerate(tokens):
        s = next(names) + "1" if tk == "a" else tk
        out.append(s)
    sep = " " if spaced else ""
    txt = sep.join(out)
    if not spaced:
        # adjacent NAME-like tokens must be separated to stay distinct tokens
        txt = ""
        for i, s in enumerate(out):
            if i and (out[i - 1][-1].isalnum() or out[i - 1][-1] == "_") and (s[0].isalnum() or s[0] == "_"):
                txt += " "
            txt += s
    return txt


def check(tokens):
    st = load()
    bad = []
    acc = 0
    for spaced in (False, True):
        text = render(tokens, spaced)
        try:
            a = shape(st["lalr"].parse(text))
        except st["lark_error"]:
            a = None
        except Exception as e:
            bad.append("%r: shipped parser raised %r (not a LarkError)" % (text, e))
            continue
        try:
            b = shape(st["earley"].parse(text))
            if "_ambig" in repr(b):
                bad.append("%r: grammar is ambiguous here beyond the items keyword" % text)
        except st["lark"].exceptions.LarkError:
            b = None
        if (a is None) != (b is None):
            bad.append("%r: shipped parser %s, grammar %s" % (text, "accepts" if a else "rejects", "accepts" if b else "rejects"))
        elif a != b:
            bad.append("%r: different trees %r vs %r" % (text, a, b))
        acc += a is not None
    return bad, acc


def main():
    cases = []
    for n in range(0, BOUND + 1):
        cases += list(itertools.product(TOKENS, repeat=n))
    with multiprocessing.Pool(16) as pool:
        res = pool.map(check, cases, chunksize=500)
    viol = [v for (b, _a) in res for v in b]
    print(json.dumps(dict(cases=2 * len(cases), accepted=sum(a for (_b, a) in res), violations=viol[:50])))


if __name__ == "__main__":
    main()
