"""Bounded stand-in for C15 (labelled bounded): the shipped parser AND the real parse()/compile_str() pipeline against an
independent Earley recogniser built from the grammar text.

stage 1 (python3-vt, has lark): for every token string up to the bound (plus a whitespace variant), the Earley verdict
  and tree from _dsl_grammar.lark, compared with the shipped stand-alone LALR parser; written to a JSON file.
stage 2 (/venv/bin/python with the tree under test on PYTHONPATH): every string goes through traits.observation.parsing
  -- parse() must raise ValueError exactly for the strings the grammar rejects, and compile_str(text) must equal the
  graphs compiled from an expression built from the *oracle* tree with the documented meaning (notify on an element iff
  last or followed by '.', items = trait items | dict | list | set items, all optional).
usage: dsl_parser.py <repo root> <length bound>; prints one JSON line."""
import importlib.util
import itertools
import json
import multiprocessing
import os
import subprocess
import sys
import tempfile

TOKENS = ["a", "items", "+", "*", ".", ":", ",", "[", "]"]
_state = {}


def load(repo):
    if not _state:
        import lark
        spec = importlib.util.spec_from_file_location("gp", repo + "/traits/observation/_generated_parser.py")
        m = importlib.util.module_from_spec(spec)
        spec.loader.exec_module(m)
        _state["lalr"] = m.Lark_StandAlone()
        _state["lark_error"] = m.LarkError
        g = open(repo + "/traits/observation/_dsl_grammar.lark").read()
        # Earley with the dynamic lexer recognises exactly the language of the grammar text; the only ambiguity is the
        # word "items" (keyword vs NAME), resolved as documented: the `items` rule wins where both apply
        _state["earley"] = lark.Lark(g, parser="earley", start="start", ambiguity="explicit")
        _state["lark"] = lark
    return _state


def shape(t):
    if hasattr(t, "data"):
        if str(t.data) == "_ambig":
            alts = [shape(c) for c in t.children]
            pick = [a for a in alts if a == ["items", []]]
            rest = [a for a in alts if a not in (["items", []], ["trait", [["tok", "items"]]])]
            if pick and not rest:
                return pick[0]
            return ["_ambig", alts]
        return [str(t.data), [shape(c) for c in t.children]]
    return ["tok", str(t)]


def render(tokens, spaced):
    out = []
    names = iter("abcdefgh")
    for tk in tokens:
        out.append(next(names) + "1" if tk == "a" else tk)
    if spaced == "trail":
        return render(tokens, False) + "\n"            # nothing but one trailing newline (a line read from a file)
    if spaced == "odd":
        # the other blanks the grammar ignores: a leading tab, newlines between tokens, one trailing newline
        return "\t" + "\n".join(out) + "\n"
    if spaced:
        return " ".join(out)
    txt = ""
    for i, s in enumerate(out):
        if i and (out[i - 1][-1].isalnum() or out[i - 1][-1] == "_") and (s[0].isalnum() or s[0] == "_"):
            txt += " "
        txt += s
    return txt


def check(arg):
    repo, tokens = arg
    st = load(repo)
    bad, rows = [], []
    for spaced in (False, True, "odd", "trail"):
        text = render(tokens, spaced)
        try:
            a = shape(st["lalr"].parse(text))
        except st["lark_error"]:
            a = None
        except Exception as e:
            bad.append("%r: shipped parser raised %r (not a LarkError)" % (text, e))
            continue
        try:
            b = shape(st["earley"].parse(text))
            if "_ambig" in repr(b):
                bad.append("%r: grammar is ambiguous here beyond the items keyword" % text)
        except st["lark"].exceptions.LarkError:
            b = None
        if (a is None) != (b is None):
            bad.append("%r: shipped parser %s, grammar %s" % (text, "accepts" if a else "rejects", "accepts" if b else "rejects"))
        elif a != b:
            bad.append("%r: different trees %r vs %r" % (text, a, b))
        rows.append((text, b))
    return bad, rows


STAGE2 = r'''
import json, sys
from traits.observation import parsing, expression
rows = json.load(open(sys.argv[1]))
bad = []


def build(t, notify):
    kind, kids = t
    if kind in ("series", "series_terminal"):
        l, c, r = kids
        return build(l, c[0] == "notify").then(build(r, notify))
    if kind in ("parallel", "parallel_terminal"):
        l, r = kids
        return build(l, notify) | build(r, notify)
    if kind == "trait":
        return expression.trait(kids[0][1], notify=notify)
    if kind == "metadata":
        return expression.metadata(kids[0][1], notify=notify)
    if kind == "anytrait":
        return expression.anytrait(notify=notify)
    if kind == "items":
        return (expression.trait("items", notify=notify, optional=True) | expression.dict_items(notify=notify, optional=True)
                | expression.list_items(notify=notify, optional=True) | expression.set_items(notify=notify, optional=True))
    raise ValueError(kind)


accepted = 0
dup = []
for text, tree in rows:
    parsing.parse.cache_clear()
    parsing.compile_str.cache_clear()
    try:
        expr = parsing.parse(text)
        got = True
    except ValueError:
        got = False
    except Exception as e:
        bad.append("%r: parse raised %r (neither a result nor ValueError)" % (text, e))
        continue
    if got != (tree is not None):
        bad.append("%r: parse() %s but the grammar %s it" % (text, "accepts" if got else "raises ValueError", "generates" if tree is not None else "does not generate"))
        continue
    if not got:
        continue
    accepted += 1
    try:
        want = expression.compile_expr(build(tree, True))
    except ValueError:
        # the documented meaning itself cannot be compiled: equal parallel branches below a series element ('a.[b,b]')
        try:
            parsing.compile_str(text)
            bad.append("%r: compile_str succeeds where compiling the documented meaning fails" % text)
        except ValueError:
            dup.append(text)
        continue
    try:
        have = parsing.compile_str(text)
    except Exception as e:
        bad.append("%r: compile_str raised %r" % (text, e))
        continue
    if have != want or parsing.compile_str(text) != have:
        bad.append("%r: compiled pattern differs from the documented meaning" % text)
print(json.dumps(dict(accepted=accepted, violations=bad[:50], duplicate_branch_rejections=dup[:5], n_dup=len(dup))))
'''


def main():
    repo, bound = sys.argv[1], int(sys.argv[2])
    cases = []
    for n in range(0, bound + 1):
        cases += [(repo, t) for t in itertools.product(TOKENS, repeat=n)]
    with multiprocessing.Pool(16) as pool:
        res = pool.map(check, cases, chunksize=500)
    viol = [v for (b, _r) in res for v in b]
    rows = [r for (_b, rs) in res for r in rs]
    # extra strings outside the token enumeration: blanks inside a name / keyword, non-ASCII blanks
    rows += [(s, None) for s in ("na me", "it ems", "+m n", "a\xa0.b", "a b")] + [("a\nb", None), ("[a b]", None)]
    st = load(repo)
    for text in (" a . b ", "a,\n\tb", "a.[b,b]", "[a,a].b", "a:[b.c,b.c].d", "x.[items,items]"):
        try:
            rows.append((text, shape(st["earley"].parse(text))))
        except st["lark"].exceptions.LarkError:
            rows.append((text, None))
    accepted = None
    dup, ndup = [], 0
    with tempfile.NamedTemporaryFile("w", suffix=".json", delete=False, dir=os.environ.get("VERIF_SCRATCH")) as f:
        json.dump(rows, f)
        path = f.name
    try:
        env = dict(os.environ)
        env["PYTHONPATH"] = repo if os.path.exists(os.path.join(repo, "traits", "__init__.py")) else "/repo"
        # a partial overlay tree (selftest mutants) is completed by /repo
        if env["PYTHONPATH"] != "/repo" and not os.path.exists(os.path.join(repo, "traits", "ctraits.c")):
            env["PYTHONPATH"] = "/repo"
        p = subprocess.run(["/venv/bin/python", "-c", STAGE2, path], capture_output=True, text=True, env=env)
        try:
            r2 = json.loads(p.stdout.strip().splitlines()[-1])
            viol += r2["violations"]
            accepted = r2["accepted"]
            dup = r2.get("duplicate_branch_rejections", [])
            ndup = r2.get("n_dup", 0)
        except Exception:
            viol.append("stage 2 (real parse/compile_str) failed to run: %s" % (p.stderr or p.stdout)[-500:])
    finally:
        os.unlink(path)
    print(json.dumps(dict(cases=len(rows), accepted=accepted, violations=viol[:50],
                          known=[dict(id="bounded:duplicate-parallel-branches", count=ndup, examples=dup)] if ndup else [])))


if __name__ == "__main__":
    main()
