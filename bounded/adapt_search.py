"""Bounded stand-in for C17 (labelled bounded): AdaptationManager.adapt vs brute-force path enumeration.
usage: adapt_search.py <max offers> <seed>; prints one JSON line.  Runs under /venv/bin/python with PYTHONPATH=<tree>."""
import itertools
import json
import random
import sys

from traits.adaptation.adaptation_manager import AdaptationManager
from traits.adaptation.adaptation_error import AdaptationError

MAXOFF = int(sys.argv[1])
SEED = int(sys.argv[2]) if len(sys.argv) > 2 else 0


def hierarchies():
    """small class hierarchies: chain A <- B <- C, diamond-free multiple inheritance, and unrelated classes"""
    out = []
    # 1: four unrelated protocols
    P = [type("P%d" % i, (), {}) for i in range(4)]
    out.append(("unrelated", P))
    # 2: P1 subclass of P0; P2, P3 unrelated
    A = type("A", (), {})
    B = type("B", (A,), {})
    out.append(("B<A", [A, B, type("C", (), {}), type("D", (), {})]))
    # 3: multiple inheritance M(A2, C2)
    A2, C2 = type("A2", (), {}), type("C2", (), {})
    M = type("M", (A2, C2), {})
    out.append(("M(A2,C2)", [A2, C2, M, type("T", (), {})]))
    return out


class Adapter:
    def __init__(self, adaptee, proto, depth):
        self.adaptee, self.proto, self.depth = adaptee, proto, depth


def run(hname, protos, offers, src, dst):
    """offers: list of (from index, to index, fails?)"""
    mgr = AdaptationManager()
    made = []
    for (f, t, fails) in offers:
        def factory(adaptee, t=t, fails=fails):
            # fails: 0 never, 1 always, 2 a CONDITIONAL factory that declines the original object but accepts an adapter
            if fails == 1 or (fails == 2 and not isinstance(adaptee, Adapter)):
                return None
            d = getattr(adaptee, "depth", 0) + 1
            cls = type("Ad_%s" % protos[t].__name__, (Adapter, protos[t]), {})
            return cls(adaptee, protos[t], d)
        mgr.register_factory(factory, protos[f], protos[t])
    obj = protos[src]()
    try:
        res = mgr.adapt(obj, protos[dst], None)
    except Exception as e:
        return "adapt raised %r" % (e,)
    # brute force: simple offer paths (each offer at most once) from type(obj) to dst, all factories succeeding
    best = None
    def provides(t_, p_):
        return issubclass(t_, p_)
    def search(cur, used, length):
        nonlocal best
        for i, (f, t, fails) in enumerate(offers):
            if i in used or fails == 1 or (fails == 2 and length == 0) or not provides(cur, protos[f]):
                continue
            if provides(protos[t], protos[dst]):
                if best is None or length + 1 < best:
                    best = length + 1
            else:
                search(protos[t], used | {i}, length + 1)
    if provides(type(obj), protos[dst]):
        if res is not obj:
            return "object already provides the protocol but adapt returned something else"
        return None
    search(type(obj), frozenset(), 0)
    if best is None:
        # no all-succeeding chain: a result is still legitimate only if some chain works -- there is none
        if res is not None:
            return "adapt returned an adapter although no chain of succeeding offers exists"
        return None
    if res is None:
        return "a chain of %d succeeding offer(s) exists but adapt returned None" % best
    if not isinstance(res, protos[dst]):
        return "result does not provide the protocol"
    if res.depth != best:
        return "chain of %d adapters returned, a chain of %d exists" % (res.depth, best)
    return None


def main():
    random.seed(SEED)
    viol, cases = [], 0
    for hname, protos in hierarchies():
        n = len(protos)
        edges = [(f, t) for f in range(n) for t in range(n) if f != t]
        for k in range(0, MAXOFF + 1):
            combos = list(itertools.combinations_with_replacement(edges, k))
            if len(combos) > 400:
                combos = random.sample(combos, 400)
            for combo in combos:
                modes = list(itertools.product((0, 1, 2), repeat=k)) if k <= 3 else [(0,) * k, (1,) * k, tuple(random.choice((0, 1, 2)) for _ in range(k)),
                                                                                       tuple(random.choice((0, 2)) for _ in range(k))]
                for mode in modes:
                    offers = [(f, t, mode[i]) for i, (f, t) in enumerate(combo)]
                    for src in range(n):
                        for dst in range(n):
                            cases += 1
                            r = run(hname, protos, offers, src, dst)
                            if r:
                                viol.append("%s offers=%r %s->%s: %s" % (hname, offers, protos[src].__name__, protos[dst].__name__, r))
    print(json.dumps(dict(cases=cases, bound="3 hierarchies of 4 protocols, all offer multisets of <= %d offers (sampled to 400 per size), "
                                             "every assignment of {succeeds, declines, declines the original object only} to the factories (<= 3 offers), every source and target" % MAXOFF, violations=viol[:30])))


if __name__ == "__main__":
    main()
