#!/usr/bin/env python3
"""Regenerates the table of the later seeded changes in DESIGN.md (between the two marker lines) from seeded/*/meta.json."""
import glob
import json
import os
import re

ROOT = os.path.dirname(os.path.dirname(os.path.abspath(__file__)))
BEGIN, END = "<!-- seeds:begin -->", "<!-- seeds:end -->"
rows = []
design = open(os.path.join(ROOT, "DESIGN.md")).read()
head = design.split(BEGIN)[0]
for d in sorted(glob.glob(os.path.join(ROOT, "seeded", "*"))):
    name = os.path.basename(d)
    if name in head:
        continue                       # already described in the hand-written table above
    m = json.load(open(os.path.join(d, "meta.json")))
    rows.append("| %s | %s | %s |" % (name, m.get("needs_to_manifest", "").replace("|", "/"), m.get("caught_by", "").replace("|", "/")))
table = "\n".join(["| Seed | Needs, to manifest | Caught by (and what the first run did) |", "|---|---|---|"] + rows)
block = "%s\n%s\n%s" % (BEGIN, table, END)
if BEGIN in design:
    design = re.sub(re.escape(BEGIN) + r".*?" + re.escape(END), lambda _m: block, design, flags=re.S)
else:
    raise SystemExit("markers missing in DESIGN.md")
open(os.path.join(ROOT, "DESIGN.md"), "w").write(design)
print(len(rows), "rows")
