#!/usr/bin/env python3
"""Regenerates MANIFEST.json from the table below (kept in one place so claims and reasons stay in sync)."""
import json

TECH = "contract-based deductive verification: VCs generated from the real source (Python AST / clang AST of ctraits.c) against sidecar contracts, discharged by z3/cvc5"
NOTE_PY = "A-PY (semantics of the supported Python subset), A-BUILTIN (list/dict/set/slice axioms, conformance-tested), A-EQ (lawful ==/hash of items), A-CB (validators pure; notifiers do not mutate the container); see DESIGN.md section 3"

CLAIMS = {
    "C05": ("Every TraitList mutator and the two index helpers are symbolically executed from their real source; each path x clause of the refinement-against-list, exactly-one-event, replay-law and normal-form contract is discharged for all list lengths, indices, slices and validators (no bound).",
            NOTE_PY + "; keys other than int / slice-of-int-or-None are outside the proved domain", "6 C05"),
    "C06": ("Every TraitDict mutator (incl. update/|= over mappings and pair iterables with duplicate keys, by loop invariant) and dict_event_factory is proved against refinement-of-dict, the reconstruction laws of the (removed, added, changed) event and silence; unbounded.",
            NOTE_PY + "; setdefault tests containment of the raw key first (pinned by the suite); update(**kwargs) outside the overloads", "6 C06"),
    "C07": ("Every TraitSet mutator is proved against refinement-of-set on validated items, the (removed, added) delta laws and silence; __deepcopy__/__getstate__/__setstate__ against the copy contract; unbounded (array theory).",
            NOTE_PY + "; for ^= with a coercing validator only event laws / atomicity / provenance of new members are required (the statement does not determine the result there); copy.copy and pickle go through object.__reduce_ex__ (A-BUILTIN)", "6 C07"),
    "C04": ("Representation invariant of the container traits: every TraitList/TraitDict/TraitSet mutator inserts only validated items (refinement clauses shared with C05-C07), every TraitListObject mutator keeps minlen <= len <= maxlen and is failure-atomic, the owner-bound item validators return exactly the inner trait's result; per-function, unbounded.",
            NOTE_PY + "; validity of an item is relative to the opaque inner-trait validator (its own correctness is C01/C03); List/Dict/Set.validate wrappers and nested containers rely on the modularity argument of DESIGN 6 C04, not on a separate obligation", "6 C04"),
}

NOTE_C = "A-API (contracts of ~70 CPython C-API primitives, 31 of their facts probed against the interpreter on every run), A-HAVOC (calls that run Python may change every dict/list/mutable field, except the definition fields of the traits taking part: A-CB), A-ALLOC (allocation never fails), A-INT (C ints as mathematical integers), IEEE-754 doubles in z3 FP; ctraits.c parsed by clang with -DNDEBUG as in the shipped build; see DESIGN.md sections 2.2 and 3"
CLAIMS.update({
    "C03": ("All 19 compiled validators of ctraits.c (type, instance, self_type, enum, map, float, float_range, integer, cast, coerce, python, function, callable, adapt, complex_number, tuple_check, tuple, complex = compound) and in_float_range are executed symbolically from the clang AST and proved against spec functions written from the statement (acceptance set, exact result type, the single conversion / adapt call and what is stored, tuple shape, TraitError vs propagated conversion errors, IEEE semantics incl. NaN/+-0/inf); descriptor scans, tuple items and compound alternatives by loop invariant (any length). _trait_set_validate (the gate) is proved to accept only descriptors that satisfy the well-formedness each validator is verified under; TraitCompound.set_validate builds the compound descriptor in declaration order (fold invariants).",
            NOTE_C + "; the Python-side validate methods are not under contract ('decide exactly like the Python validators' is proved as 'both meet the same spec' only for the float range); inside a compound, which alternative accepts is not re-proved per kind (stand-alone validators only) and the alternatives of a hand-made compound descriptor are not checked by the gate (known finding); Either tries fast alternatives before slow ones (known finding)", "6 C03"),
    "C01": ("Storage contract of setattr_trait (assignment path, all 8 combinations of validator / post_setattr / listeners): the validator is called at most once with the assigned value before any store or callback, a rejection stores nothing and notifies nobody, success stores exactly the validated (or original, per flag) value under the name; plus the validator contracts of C03, setattr_validate_property (the setter gets the validated value, a rejected one never reaches it), setattr_event, and the Python BaseRange._validate of dynamic ranges (the CONVERTED value lies inside the bounds with the declared exclusivity; numbers opaque).",
            NOTE_C + "; validate / post_setattr are used through family contracts (return success or failure, run Python); other Python-only trait types (PrefixList, Array...) not under contract", "6 C01"),
    "C02": ("Per assignment: setattr_trait calls the notifiers at most once, only after the store, only when the value counts as a change under the C pre-filter (mode none or old is not new), with new = the stored value and old read before the store; getattr_trait notifies with old = Uninitialized; the Python filters _change_accepted / ctrait_prevent_event are proved against counts(mode, old, new) under a four-valued model of == / != (raises, result whose bool() raises, true, false) and never raise; the three container notify() methods call each notifier once in order; call_notifiers itself: the handlers called are a prefix of trait-notifiers ++ object-notifiers as they were on entry (snapshot), each once, in order, with (object, name, old, new), stopping only at a failing handler or a veto, nobody when notifications are disabled (three loops by invariant, calls counted in ghost state); trait_property_changed and setattr_event notify once with truthful arguments.",
            NOTE_C + "; the notifier wrapper classes (TraitChangeNotifyWrapper etc.) are not under contract", "6 C02"),
    "C10": ("getattr_trait: the default is computed at most once per call, stored under the name before post_setattr/notifiers run, notifiers get old = Uninitialized (filtered by both Python filters, proved), a failing default stores nothing; reference-neutral.  default_value_for, one overload per default kind: constants as stored, mutable defaults copied per call (never the shared object), container objects built for this object and name, callable defaults called with the object and validated.  get_trait: an instance trait is created only on request and only when none exists, as a clone of the class trait with its OWN notifier list (copied by loop invariant), stored in this object's instance dictionary only.  HasTraits.add_trait installs a fresh clone and attaches handlers to the clone only.",
            NOTE_C + "; instance isolation over whole histories is argued from these per-call contracts, not mechanised", "6 C10"),
    "C14": ("Trait definition objects: the function-table invariant TI (each handler field is an entry of the table it is pickled through) is the precondition of func_index/_trait_getstate and is re-established by _trait_set_property and trait_new; _trait_getstate records indices that map back to the same handlers; _trait_setstate restores exactly the handlers of the recorded indices and takes its own reference to every object field (state from getstate on a new trait), and for ARBITRARY state tuples neither reads outside the tables nor keeps borrowed references (after repair 3841f54); _trait_clone; stand-alone containers: __deepcopy__/__getstate__/__setstate__ of TraitList/TraitSet/TraitDict; String._init/__getstate__/__setstate__ (representation invariant re-established); HasTraits.__setstate__ (listeners and observers set up before the values are assigned, every step once, in order, no inited flag on a half-restored object).",
            NOTE_C + "; HasTraits.__getstate__/clone_traits/copy_traits and the state methods of the other TraitTypes are not under contract", "6 C14"),
    "C18": ("For 104 of the 151 functions of ctraits.c (all validators, all attribute handlers, lookup, get_trait / get_prefix_trait, the delegation walkers, call_notifiers, default_value_for, getstate / setstate / clone, every getset descriptor and small method; most of the rest are helpers verified inlined): every pointer dereference is on a non-NULL pointer, no new reference is used after its release (live-reference obligations), every table / tuple / list index is in range, a setter called with value == NULL (deletion) is handled, the delegation recursion terminates (recursion budget / hop counter variants), and the reference ledger is neutral on every path, successful or failing (aware of CPython 3.12's immortal objects).  Loops of unknown length by inductive invariants.  Thirteen defects found by these obligations were repaired (KNOWN_FINDINGS.jsonl).",
            NOTE_C + "; type slots (new/init/clear/dealloc/traverse), module registration functions and _has_traits_items_event (jumps into a nested block) are not under contract; no allocation-failure paths; GC/dealloc re-entrancy (A-FINAL) not modelled; hand-made compound descriptors (known finding)", "6 C18"),
    "C19": ("Conjunction of the exceptional postconditions of the functions under contract: every container mutator leaves contents and events untouched when a validator raises at any item (incl. TraitListObject length violations), setattr_trait stores/notifies nothing when the validator fails, getattr_trait stores nothing when the default fails, the notification filters never raise.",
            NOTE_PY + " / " + NOTE_C + "; property getter/setter wrappers, adaptation factories and observer registration rollback not yet under contract", "6 C19"),
})

CLAIMS.update({
    "C09": ("Failure atomicity of observer registration, proved structurally over two ghost multisets of pending effects (own attachments, completed sub-walks): each step of the graph walker records what it does (children / extra-graph steps by loop invariant), _AddOrRemoveNotifier.__call__ and apply_observers compensate everything recorded on any exception (two undo loops by invariant over a bag abstraction), so on an exceptional exit nothing is left attached; the recursion is modular (a recursive walk is used through this very contract).",
            NOTE_PY + "; A-UNDO (compensating a just-completed walk / just-made attachment does not raise); weak references and GC schedules are not under contract.  Counting: TraitEventNotifier.add_to / remove_from are proved against a multiset abstraction of the notifier list under its representation invariant (at most one notifier per equivalence class, counts >= 1): add_to raises count(self) by exactly one, remove_from lowers it by exactly one and unlists at zero, other counts unchanged, NotifierNotFound changes nothing -- lists of any length", "6 C09"),
    "C20": ("sync_trait(remove=True): the link is deleted and the change handlers (value handler, and the '<name>_items' handler for list traits) are removed exactly when the last partner of that attribute is removed; both change handlers leave the lock table as found on every exit, raise nothing for every faithful list event (int or normalised-slice index) and when no partner is left.",
            NOTE_PY + "; _on_trait_change(remove=True) detaching its handler is assumed (C16 level); the convergence argument (recursion depth <= 2 through the lock) and sync_trait's registration branch are not yet under contract; GC timing replaced by 'recorded partners are alive'", "6 C20"),
})

CLAIMS.update({
    "C11": ("Name computation of deferred traits, for all prefix strings: Delegate.__init__ classifies the prefix style and stores what the compiled handlers need; the four delegate_attr_name_* C handlers and _trait_delegate compute delegate_target(name, prefix, class prefix) (z3 strings); lemma listener-pattern=target: the real get_delegate_pattern and _trait_delegate_name, executed on the metadata Delegate.__init__ really stores, yield ' delegate:target' for every prefix style -- the Python listener watches the attribute the C code reads.  Routing: setattr_delegate and _has_traits_trait follow a delegation chain of ANY length (loop invariant, variant 100 - i): DelegatesTo hands (final trait, final delegate, final name, value) to the final trait's handler and leaves the listener alone; PrototypedFrom stores on the object through the prototype's trait and unhooks the listener only after a successful assignment; getattr_delegate is one lookup of the computed name on the current delegate, charged to the recursion budget.",
            NOTE_PY + " / " + NOTE_C + "; the listener install/remove functions in has_traits.py are not under contract", "6 C11"),
    "C13": ("Compiled lookup and policies: has_traits_setattro / has_traits_getattro dispatch exactly once to the handler of the governing trait -- instance trait, else class trait, else the prefix trait, which is consulted only when neither exists (getattro: after the stored-value fast path and the plain Python lookup) -- with the right arguments; setattr_disallow / setattr_constant always refuse with TraitError, getattr_disallow / getattr_event with AttributeError, storing nothing; setattr_readonly writes iff no default is declared and no value other than Undefined is stored (exactly one defining assignment), refuses deletion; the python / generic / constant handlers; get_trait's lookup order; get_prefix_trait returns a borrowed trait backed by a trait dictionary of the object, never None; HasTraits.__prefix_trait__: the longest matching prefix governs (loop invariant, z3 strings).",
            NOTE_C + "; remove_trait is not under contract; the trait resolved for an undeclared name is cached in the class dictionary and inherited by subclasses defined later (known finding: governance depends on that history)", "6 C13"),
})

CLAIMS.update({
    "C15": ("Translator of the mini-language, by structural induction over parse trees: each _handle_* function of parsing.py is proved to yield the documented meaning den(tree, notify) in an abstract path algebra (notify on an element iff last or followed by '.', 'items' = trait items | dict | list | set items, all optional), given the same for its sub-trees; _handle_tree dispatches every rule name of the grammar file to the handler of that construct and rejects unknown labels. The generated LALR tables are covered by a BOUNDED stand-in (all token strings up to length 5 / 7 vs an Earley recogniser built from the grammar text), reported separately and not counted as proved.",
            NOTE_PY + "; contracts of the expression constructors / then / | (paths algebra) are assumed: expression.py -> ObserverGraph compilation and graph equality/hash are not yet under contract; parse()'s lru_cache transparency not proved", "6 C15"),
    "C17": ("AdaptationManager.adapt: returns the object itself iff its type provides the protocol (without searching), else the search result, AdaptationError / the supplied default exactly when the search finds none, only factory errors propagate; the edge comparator orders by MRO distance then by strict-subclass specificity. Completeness and minimality of the _adapt search are covered by a BOUNDED stand-in (exhaustive small offer graphs vs brute-force chain enumeration), reported separately and not counted as proved.",
            NOTE_PY + "; _adapt's soundness invariant, _get_applicable_offers, register_* and the C side validate_trait_adapt are not yet under contract", "6 C17"),
})

CLAIMS.update({
    "C08": ("Per-operation delta contracts of the observer maintainers: observer_change_handler detaches the downstream graph from the old value and attaches it to the new one, each at most once, in that order, each iff the value is observable (not Undefined / Uninitialized / None), absorbing only NotifierNotFound of the detach step; the list-items maintainer detaches every removed item and attaches every added item exactly once (multisets, by loop invariant), all detaches first; ctrait_prevent_event filters exactly the non-changes; the event factories pass the container event through faithfully (and do not mutate it); registration / rollback from C09. The whole-history statement ('after any history ... iff currently reachable') follows from these deltas only by an induction over histories that is NOT machine-checked (false to assume for cycles through the mutated cell).",
            NOTE_PY + "; dict/set item maintainers, the observers' iter_observables/get_notifier/get_maintainer and trait_added handling are not under contract; where the solver cannot decide the list-item maintainer or the children step (changed code outside the subset), an independent concrete oracle (random histories with repeated objects and overlapping slices, reachable set computed from the containers) is run on the real code and only a failing history it finds counts", "6 C08"),
    "C12": ("cached_property wrapper: a cached value is returned without calling the getter, a miss calls the getter exactly once, stores and returns its result, a failing getter caches nothing, only the cache entry changes; the observe-state handler drops the cache entry and announces the change exactly once through trait_property_changed(name, old) with old = the dropped value (Undefined without a cache). 'Never stale' then reduces to C08's delivery guarantee for the property's observe expression and inherits its unmechanised composition.",
            NOTE_PY + "; C side: getattr_property0-3 / setattr_property0-3 / setattr_validate0-3 call the getter / setter / validator exactly once with the registered arity, setattr_validate_property hands the VALIDATED value to the setter, trait_property_changed announces once with (object, name, old, new); observer installation order is under contract for __setstate__ only (not __init__/clone_traits)", "6 C12"),
    "C16": ("Handler level only: ListenerItem.handle_simple unregisters the old value then registers the new one, once each; handle_list unregisters every item that left and registers every item that arrived exactly once (multisets, by loop invariant), all unregistrations first; handle_list_items forwards the event's removed/added. This is the same delta law as the observe maintainers (C08); agreement of the two systems on unshared graphs follows only with the unmechanised induction over histories.",
            NOTE_PY + "; ListenerParser, register/unregister bookkeeping, _register_* (the '.' vs ':' clause), dict handlers, WeakIDKeyDict and deferred registration are not covered: this is the weakest claim of the set", "6 C16"),
})


# ---- additions of the later sessions: what else is under contract now, and the notes that went stale -------------------
EXTRA_TEXT = {
    "C03": " The Python side is now under contract as well: BaseInt/BaseFloat/BaseComplex/BaseStr/BaseBytes/BaseBool.validate, the six casting validates, This.validate/validate_none, BaseCallable.validate and BaseRange.float_validate are proved against the SAME per-kind spec functions (spec/validators.py, over an engine-neutral observation of outcome, result and conversion-protocol events) as validate_trait_integer/float/self_type/callable/cast_type/float_range; a data lemma ties every literal fast_validate descriptor to the ValidateTrait number and the validate_handlers entry of that C function; BaseInstance.resolve_class installs on a trait the descriptor of that trait's own handler (compound table recomputed first).",
    "C01": " Also: BaseRange.int_validate / float_validate (static ranges: the converted value lies in the bounds, integer / IEEE ordering) and HasTraits.trait_set (every keyword through setattr, in order; quiet mode switched back on on every exit).",
    "C02": " Delivery wrappers: AbstractStaticChangeNotifyWrapper.__call__ (both argument tables, arities 0-4), TraitChangeNotifyWrapper._notify_function_listener / _notify_method_listener / _dispatch_change_event: the handler is called exactly once iff _change_accepted, with the documented arguments of its arity (the three argument_transforms tables are checked against the documented signatures), any Exception of the handler is contained; HasTraits.trait_set re-enables notifications on every exit.",
    "C04": " Whole-value assignment: List/Set/Dict.validate build a fresh wrapper bound to (trait, receiving object, name) from a legal value and reject everything else; the in-place set operators are also proved for frozenset operands.",
    "C05": " *= is proved for integer multipliers and for multipliers without __index__ (TypeError, list untouched); every mutator contract has a random probe oracle as fallback when a rewritten function leaves the subset.",
    "C06": " __setitem__ is proved with == between values as an arbitrary equivalence (the assigned object itself is stored); probe oracle as fallback.",
    "C07": " In-place operators also for frozenset operands; probe oracle as fallback.",
    "C08": " Set-item and dict-value maintainers under the same delta contract as the list-item maintainer; ObserverChangeNotifier.add_to / remove_from (multiplicity counting).",
    "C09": " ObserverChangeNotifier.add_to / remove_from (one entry per registration, the first equivalent entry removed, NotifierNotFound and nothing changed otherwise); apply_observers is decided also for rollbacks written with reversed(); the atomic oracle covers removals that raise half-way with registration counts 1-3.",
    "C10": " Union.__init__: only a CONSTANT first-member default becomes the Union's constant default, any other kind is computed per instance through the first member.",
    "C11": " HasTraits._init_trait_delegate_listener: one non-deferred on_trait_change(forwarder, listener name, target=self), recorded under the trait name for later removal.",
    "C12": " Cut-point contract inside update_traits_class_dict: the observer state of an observed Property is rebuilt from the class's own final trait (its cached flag) whatever was merged from the bases; clone_traits installs listeners and observers before copy_traits assigns.",
    "C14": " HasTraits.clone_traits (fresh object, memo[id(self)] before copying, listeners/observers before values, every step once in order), HasTraits.copy_traits (values carried over by setattr on the receiver, value under the trait's copy mode, delegates/properties only after ordinary traits) and List/Set/Dict.validate (restored containers re-wrapped for the new owner).",
    "C16": " handle_dict / handle_dict_items: values under removed, added AND changed keys (bags over loops by invariant), with a legacy-vs-observe oracle on unshared graphs as replay.",
    "C17": " mro_distance_to_protocol (None iff not provided now; number of leading providing supertypes by loop invariant; recomputed at every call -- no memoisation) and _get_applicable_offers (exactly the applicable offers not on the path, with their distance, in order; bounded shape 2x2).",
    "C18": " New obligation kind: a value borrowed from an instance dictionary may be handed to Python-running code (type slots, trait handlers, PyObject_Call...) only while the function holds a reference of its own.",
    "C19": " trait_set, the notification wrappers and the sync weak-reference callback add their exceptional postconditions.",
    "C20": " The weak-reference callback of sync_trait (partner collected): dead links deleted, empty partner tables pruned, the lock table entry left as found (bounded shape 2 traits x 2 links).",
}
STALE = [
    ("; the Python-side validate methods are not under contract ('decide exactly like the Python validators' is proved as 'both meet the same spec' only for the float range)", "; BaseEnum/Map/BaseTuple/BaseInstance/BaseType.validate and the C side of Complex are not under contract"),
    ("; the notifier wrapper classes (TraitChangeNotifyWrapper etc.) are not under contract", "; TraitChangeNotifyWrapper.init/equals, the ui/new dispatch wrappers and TraitEventNotifier.__call__ are not under contract"),
    ("; HasTraits.__getstate__/clone_traits/copy_traits and the state methods of the other TraitTypes are not under contract", "; HasTraits.__getstate__ and the state methods of the other TraitTypes are not under contract; copy_traits' coverage clause (every requested name assigned / reported / event) only through the concrete oracle"),
    ("; the listener install/remove functions in has_traits.py are not under contract", "; _remove_trait_delegate_listener and the nested forwarder are not under contract"),
    ("; _adapt's soundness invariant, _get_applicable_offers, register_* and the C side validate_trait_adapt are not yet under contract", "; _adapt's soundness invariant and register_* are not yet under contract"),
    ("; dict/set item maintainers, the observers'", "; the observers'"),
    ("_register_* (the '.' vs ':' clause), dict handlers, WeakIDKeyDict", "_register_* (the '.' vs ':' clause), WeakIDKeyDict"),
    ("; List/Dict/Set.validate wrappers and nested containers rely on the modularity argument", "; nested containers rely on the modularity argument"),
]
for pid, extra in EXTRA_TEXT.items():
    t, n, r = CLAIMS[pid]
    for old, new in STALE:
        n = n.replace(old, new)
    CLAIMS[pid] = (t + extra, n, r)
for pid in list(CLAIMS):
    t, n, r = CLAIMS[pid]
    for old, new in STALE:
        n = n.replace(old, new)
    CLAIMS[pid] = (t, n, r)

NOT_YET = "not claimed yet: the contracts for this property are still being built (plan in DESIGN.md section 6); no other technique is substituted"


def main():
    props = [json.loads(l) for l in open("/verif/properties.jsonl")]
    checks = []
    for pid, (text, note, ref) in CLAIMS.items():
        checks.append(dict(
            property_id=pid, quick_cmd="./check %s --tier quick" % pid, thorough_cmd="./check %s --tier thorough" % pid,
            evidence_file="/verif/evidence/%s.json" % pid, replay_cmd_template="./check %s --replay {path}" % pid,
            engine="cvc+pyvc" if pid in ("C01", "C02", "C03", "C10", "C11", "C13", "C14", "C18", "C19") else "pyvc", level_claimed=dict(category="proof", text=text, design_ref=ref), level_note=note, technique=TECH))
    man = dict(
        version=1,
        setup_cmd="python3-vt -m compileall -q /verif/vc /verif/contracts /verif/spec /verif/replay",
        hooks=dict(guard="TRAITS_VERIF",
                   enable="no hooks are needed: contracts are sidecars and the functions are extracted from /repo's source on every run",
                   baseline_off_cmd="cd /repo && /venv/bin/python -m pytest -ra -q -p no:cacheprovider --timeout=900 --continue-on-collection-errors",
                   source_commits=[], add_only=True),
        engines=[dict(name="pyvc", path="/verif/vc/pyvc", serves_properties=sorted(CLAIMS),
                      kind_free_text="verification-condition generator over the Python AST of the real functions + z3/cvc5"),
                 dict(name="cvc", path="/verif/vc/cvc", serves_properties=["C01", "C02", "C03", "C10", "C11", "C12", "C13", "C14", "C18", "C19"],
                      kind_free_text="verification-condition generator over the clang JSON AST of traits/ctraits.c + z3 (FP, bit-vectors, arrays)")],
        checks=checks,
        notes="Exit codes of ./check: 0 held, 1 VIOLATION, 2 UNDECIDED (never on the unchanged tree), 3 internal error. "
              "fix: commits in /repo: see KNOWN_FINDINGS.jsonl (status fixed).",
        not_applicable=[dict(property_id=p["id"], reason=NOT_YET) for p in props if p["id"] not in CLAIMS])
    json.dump(man, open("/verif/MANIFEST.json", "w"), indent=1)


if __name__ == "__main__":
    main()
