#!/usr/bin/env python3
"""Regenerates MANIFEST.json from the table below (kept in one place so claims and reasons stay in sync)."""
import json

TECH = "contract-based deductive verification: VCs generated from the real source (Python AST / clang AST of ctraits.c) against sidecar contracts, discharged by z3/cvc5"
NOTE_PY = "A-PY (semantics of the supported Python subset), A-BUILTIN (list/dict/set/slice axioms, conformance-tested), A-EQ (lawful ==/hash of items), A-CB (validators pure; notifiers do not mutate the container); see DESIGN.md section 3"

CLAIMS = {
    "C05": ("Every TraitList mutator and the two index helpers are symbolically executed from their real source; each path x clause of the refinement-against-list, exactly-one-event, replay-law and normal-form contract is discharged for all list lengths, indices, slices and validators (no bound).",
            NOTE_PY + "; keys other than int / slice-of-int-or-None are outside the proved domain", "6 C05"),
    "C06": ("Every TraitDict mutator (incl. update/|= over mappings and pair iterables with duplicate keys, by loop invariant) and dict_event_factory is proved against refinement-of-dict, the reconstruction laws of the (removed, added, changed) event and silence; unbounded.",
            NOTE_PY + "; setdefault tests containment of the raw key first (pinned by the suite); update(**kwargs) outside the overloads", "6 C06"),
    "C07": ("Every TraitSet mutator is proved against refinement-of-set on validated items, the (removed, added) delta laws and silence; __deepcopy__/__getstate__/__setstate__ against the copy contract; unbounded (array theory).",
            NOTE_PY + "; for ^= with a coercing validator only event laws / atomicity / provenance of new members are required (the statement does not determine the result there); copy.copy and pickle go through object.__reduce_ex__ (A-BUILTIN)", "6 C07"),
    "C04": ("Representation invariant of the container traits: every TraitList/TraitDict/TraitSet mutator inserts only validated items (refinement clauses shared with C05-C07), every TraitListObject mutator keeps minlen <= len <= maxlen and is failure-atomic, the owner-bound item validators return exactly the inner trait's result; per-function, unbounded.",
            NOTE_PY + "; validity of an item is relative to the opaque inner-trait validator (its own correctness is C01/C03); List/Dict/Set.validate wrappers and nested containers rely on the modularity argument of DESIGN 6 C04, not on a separate obligation", "6 C04"),
}

NOT_YET = "not claimed yet: the contracts for this property are still being built (plan in DESIGN.md section 6); no other technique is substituted"


def main():
    props = [json.loads(l) for l in open("/verif/properties.jsonl")]
    checks = []
    for pid, (text, note, ref) in CLAIMS.items():
        checks.append(dict(
            property_id=pid, quick_cmd="./check %s --tier quick" % pid, thorough_cmd="./check %s --tier thorough" % pid,
            evidence_file="/verif/evidence/%s.json" % pid, replay_cmd_template="./check %s --replay {path}" % pid,
            engine="pyvc", level_claimed=dict(category="proof", text=text, design_ref=ref), level_note=note, technique=TECH))
    man = dict(
        version=1,
        setup_cmd="python3-vt -m compileall -q /verif/vc /verif/contracts /verif/spec /verif/replay",
        hooks=dict(guard="TRAITS_VERIF",
                   enable="no hooks are needed: contracts are sidecars and the functions are extracted from /repo's source on every run",
                   baseline_off_cmd="cd /repo && /venv/bin/python -m pytest -ra -q -p no:cacheprovider --timeout=900 --continue-on-collection-errors",
                   source_commits=[], add_only=True),
        engines=[dict(name="pyvc", path="/verif/vc/pyvc", serves_properties=sorted(CLAIMS),
                      kind_free_text="verification-condition generator over the Python AST of the real functions + z3/cvc5")],
        checks=checks,
        notes="Exit codes of ./check: 0 held, 1 VIOLATION, 2 UNDECIDED (never on the unchanged tree), 3 internal error. "
              "fix: commits in /repo so far: 3524dc0 (dict_event_factory), ce06215 (TraitSet.__deepcopy__); see KNOWN_FINDINGS.jsonl.",
        not_applicable=[dict(property_id=p["id"], reason=NOT_YET) for p in props if p["id"] not in CLAIMS])
    json.dump(man, open("/verif/MANIFEST.json", "w"), indent=1)


if __name__ == "__main__":
    main()
