#!/usr/bin/env python3
"""Regenerates MANIFEST.json from the table below (kept in one place so claims and reasons stay in sync)."""
import json

TECH = "contract-based deductive verification: VCs generated from the real source (Python AST / clang AST of ctraits.c) against sidecar contracts, discharged by z3/cvc5"
NOTE_PY = "A-PY (semantics of the supported Python subset), A-BUILTIN (list/dict/set/slice axioms, conformance-tested), A-EQ (lawful ==/hash of items), A-CB (validators pure; notifiers do not mutate the container); see DESIGN.md section 3"

CLAIMS = {
    "C05": ("Every TraitList mutator and the two index helpers are symbolically executed from their real source; each path x clause of the refinement-against-list, exactly-one-event, replay-law and normal-form contract is discharged for all list lengths, indices, slices and validators (no bound).",
            NOTE_PY + "; keys other than int / slice-of-int-or-None are outside the proved domain", "6 C05"),
    "C06": ("Every TraitDict mutator (incl. update/|= over mappings and pair iterables with duplicate keys, by loop invariant) and dict_event_factory is proved against refinement-of-dict, the reconstruction laws of the (removed, added, changed) event and silence; unbounded.",
            NOTE_PY + "; setdefault tests containment of the raw key first (pinned by the suite); update(**kwargs) outside the overloads", "6 C06"),
    "C07": ("Every TraitSet mutator is proved against refinement-of-set on validated items, the (removed, added) delta laws and silence; __deepcopy__/__getstate__/__setstate__ against the copy contract; unbounded (array theory).",
            NOTE_PY + "; for ^= with a coercing validator only event laws / atomicity / provenance of new members are required (the statement does not determine the result there); copy.copy and pickle go through object.__reduce_ex__ (A-BUILTIN)", "6 C07"),
    "C04": ("Representation invariant of the container traits: every TraitList/TraitDict/TraitSet mutator inserts only validated items (refinement clauses shared with C05-C07), every TraitListObject mutator keeps minlen <= len <= maxlen and is failure-atomic, the owner-bound item validators return exactly the inner trait's result; per-function, unbounded.",
            NOTE_PY + "; validity of an item is relative to the opaque inner-trait validator (its own correctness is C01/C03); List/Dict/Set.validate wrappers and nested containers rely on the modularity argument of DESIGN 6 C04, not on a separate obligation", "6 C04"),
}

NOTE_C = "A-API (contracts of ~45 CPython C-API primitives), A-HAVOC (calls that run Python may change every dict/list/mutable field, except the definition fields of the traits taking part: A-CB), A-ALLOC (allocation never fails), A-INT (C ints as mathematical integers), IEEE-754 doubles in z3 FP; ctraits.c parsed by clang with -DNDEBUG as in the shipped build; see DESIGN.md sections 2.2 and 3"
CLAIMS.update({
    "C03": ("The compiled validators validate_trait_type/_instance/_self_type/_enum/_map/_float/_float_range/_integer and in_float_range are executed symbolically from the clang AST of ctraits.c and proved against spec functions written from the statement (acceptance set, exact result type, TraitError vs propagated conversion errors, IEEE semantics incl. NaN/+-0/inf for ranges); unbounded.",
            NOTE_C + "; the Python-side validate methods and the compound/tuple validators are not yet under contract: 'decide exactly like the Python validators' is proved as 'both meet the same spec' only for the float range (BaseRange side replayed, not proved)", "6 C03"),
    "C01": ("Storage contract of setattr_trait (assignment path, all 8 combinations of validator / post_setattr / listeners): the validator is called at most once with the assigned value before any store or callback, a rejection stores nothing and notifies nobody, success stores exactly the validated (or original, per flag) value under the name; plus the validator contracts of C03.",
            NOTE_C + "; validate / post_setattr / default_value_for / call_notifiers are used through family contracts (return success or failure, run Python); Python-only trait types (String, PrefixList, Array...) not under contract", "6 C01"),
    "C02": ("Per assignment: setattr_trait calls the notifiers at most once, only after the store, only when the value counts as a change under the C pre-filter (mode none or old is not new), with new = the stored value and old read before the store; getattr_trait notifies with old = Uninitialized; the Python filters _change_accepted / ctrait_prevent_event are proved against counts(mode, old, new) under a four-valued model of == / != (raises, result whose bool() raises, true, false) and never raise; the three container notify() methods call each notifier once in order.",
            NOTE_C + "; call_notifiers itself and the notifier wrapper classes are not yet under contract", "6 C02"),
    "C10": ("getattr_trait: the default is computed at most once per call, stored under the name before post_setattr/notifiers run, notifiers get old = Uninitialized (filtered by both Python filters, proved), a failing default stores nothing; reference-neutral.",
            NOTE_C + "; default_value_for's per-kind freshness and instance isolation (get_trait copy-on-write) are not yet under contract", "6 C10"),
    "C14": ("Trait definition objects: the function-table invariant TI (each handler field is an entry of the table it is pickled through) is the precondition of func_index/_trait_getstate and is re-established by _trait_set_property and trait_new; _trait_getstate records indices that map back to the same handlers; stand-alone containers: __deepcopy__/__getstate__/__setstate__ of TraitList/TraitSet/TraitDict.",
            NOTE_C + "; HasTraits.__getstate__/__setstate__/clone_traits and _trait_setstate are not yet under contract", "6 C14"),
    "C18": ("For the C functions under contract (9 validators, setattr_trait, getattr_trait, func_index, _trait_getstate, _trait_set_property, trait_new): every pointer dereference is on a non-NULL pointer of the right type, every table/tuple index is in range, and (ownership ghost map) every reference taken is released on every path except the one returned.",
            NOTE_C + "; the remaining ~130 functions of ctraits.c are unverified; no allocation-failure paths; GC/dealloc re-entrancy (A-FINAL) not modelled", "6 C18"),
    "C19": ("Conjunction of the exceptional postconditions of the functions under contract: every container mutator leaves contents and events untouched when a validator raises at any item (incl. TraitListObject length violations), setattr_trait stores/notifies nothing when the validator fails, getattr_trait stores nothing when the default fails, the notification filters never raise.",
            NOTE_PY + " / " + NOTE_C + "; property getter/setter wrappers, adaptation factories and observer registration rollback not yet under contract", "6 C19"),
})

CLAIMS.update({
    "C09": ("Failure atomicity of observer registration, proved structurally over two ghost multisets of pending effects (own attachments, completed sub-walks): each step of the graph walker records what it does (children / extra-graph steps by loop invariant), _AddOrRemoveNotifier.__call__ and apply_observers compensate everything recorded on any exception (two undo loops by invariant over a bag abstraction), so on an exceptional exit nothing is left attached; the recursion is modular (a recursive walk is used through this very contract).",
            NOTE_PY + "; A-UNDO (compensating a just-completed walk / just-made attachment does not raise); the counting clause (add_to/remove_from reference counts), weak references and GC schedules are not yet under contract", "6 C09"),
    "C20": ("sync_trait(remove=True): the link is deleted and the change handlers (value handler, and the '<name>_items' handler for list traits) are removed exactly when the last partner of that attribute is removed; both change handlers leave the lock table as found on every exit, raise nothing for every faithful list event (int or normalised-slice index) and when no partner is left.",
            NOTE_PY + "; _on_trait_change(remove=True) detaching its handler is assumed (C16 level); the convergence argument (recursion depth <= 2 through the lock) and sync_trait's registration branch are not yet under contract; GC timing replaced by 'recorded partners are alive'", "6 C20"),
})

CLAIMS.update({
    "C11": ("Name computation of deferred traits, for all prefix strings: Delegate.__init__ classifies the prefix style and stores what the compiled handlers need; the four delegate_attr_name_* C handlers and _trait_delegate compute delegate_target(name, prefix, class prefix) (z3 strings); lemma listener-pattern=target: the real get_delegate_pattern and _trait_delegate_name, executed on the metadata Delegate.__init__ really stores, yield ' delegate:target' for every prefix style -- the Python listener watches the attribute the C code reads.",
            NOTE_PY + " / " + NOTE_C + "; read/write routing (getattr_delegate / setattr_delegate chain walk) and the listener install/remove functions are not yet under contract", "6 C11"),
    "C13": ("Compiled lookup and policies: has_traits_setattro / has_traits_getattro dispatch exactly once to the handler of the governing trait -- instance trait, else class trait, else the prefix trait, which is consulted only when neither exists (getattro: after the stored-value fast path and the plain Python lookup) -- with the right arguments; setattr_disallow / setattr_constant always refuse with TraitError, getattr_disallow / getattr_event with AttributeError, storing nothing; setattr_readonly writes iff no default is declared and no value other than Undefined is stored (exactly one defining assignment), refuses deletion.",
            NOTE_C + "; __prefix_trait__ (longest-prefix search, Python), add_trait/remove_trait and the class-dictionary cache coherence are not yet under contract", "6 C13"),
})

CLAIMS.update({
    "C15": ("Translator of the mini-language, by structural induction over parse trees: each _handle_* function of parsing.py is proved to yield the documented meaning den(tree, notify) in an abstract path algebra (notify on an element iff last or followed by '.', 'items' = trait items | dict | list | set items, all optional), given the same for its sub-trees; _handle_tree dispatches every rule name of the grammar file to the handler of that construct and rejects unknown labels. The generated LALR tables are covered by a BOUNDED stand-in (all token strings up to length 5 / 7 vs an Earley recogniser built from the grammar text), reported separately and not counted as proved.",
            NOTE_PY + "; contracts of the expression constructors / then / | (paths algebra) are assumed: expression.py -> ObserverGraph compilation and graph equality/hash are not yet under contract; parse()'s lru_cache transparency not proved", "6 C15"),
    "C17": ("AdaptationManager.adapt: returns the object itself iff its type provides the protocol (without searching), else the search result, AdaptationError / the supplied default exactly when the search finds none, only factory errors propagate; the edge comparator orders by MRO distance then by strict-subclass specificity. Completeness and minimality of the _adapt search are covered by a BOUNDED stand-in (exhaustive small offer graphs vs brute-force chain enumeration), reported separately and not counted as proved.",
            NOTE_PY + "; _adapt's soundness invariant, _get_applicable_offers, register_* and the C side validate_trait_adapt are not yet under contract", "6 C17"),
})

CLAIMS.update({
    "C08": ("Per-operation delta contracts of the observer maintainers: observer_change_handler detaches the downstream graph from the old value and attaches it to the new one, each at most once, in that order, each iff the value is observable (not Undefined / Uninitialized / None), absorbing only NotifierNotFound of the detach step; the list-items maintainer detaches every removed item and attaches every added item exactly once (multisets, by loop invariant), all detaches first; ctrait_prevent_event filters exactly the non-changes; the event factories pass the container event through faithfully (and do not mutate it); registration / rollback from C09. The whole-history statement ('after any history ... iff currently reachable') follows from these deltas only by an induction over histories that is NOT machine-checked (false to assume for cycles through the mutated cell).",
            NOTE_PY + "; dict/set item maintainers, the observers' iter_observables/get_notifier/get_maintainer, trait_added handling and the C firing rule beyond setattr_trait/getattr_trait are not yet under contract", "6 C08"),
    "C12": ("cached_property wrapper: a cached value is returned without calling the getter, a miss calls the getter exactly once, stores and returns its result, a failing getter caches nothing, only the cache entry changes; the observe-state handler drops the cache entry and announces the change exactly once through trait_property_changed(name, old) with old = the dropped value (Undefined without a cache). 'Never stale' then reduces to C08's delivery guarantee for the property's observe expression and inherits its unmechanised composition.",
            NOTE_PY + "; trait_property_changed (C), observer installation order in __init__/__setstate__/clone_traits are not yet under contract", "6 C12"),
    "C16": ("Handler level only: ListenerItem.handle_simple unregisters the old value then registers the new one, once each; handle_list unregisters every item that left and registers every item that arrived exactly once (multisets, by loop invariant), all unregistrations first; handle_list_items forwards the event's removed/added. This is the same delta law as the observe maintainers (C08); agreement of the two systems on unshared graphs follows only with the unmechanised induction over histories.",
            NOTE_PY + "; ListenerParser, register/unregister bookkeeping, _register_* (the '.' vs ':' clause), dict handlers, WeakIDKeyDict and deferred registration are not covered: this is the weakest claim of the set", "6 C16"),
})

NOT_YET = "not claimed yet: the contracts for this property are still being built (plan in DESIGN.md section 6); no other technique is substituted"


def main():
    props = [json.loads(l) for l in open("/verif/properties.jsonl")]
    checks = []
    for pid, (text, note, ref) in CLAIMS.items():
        checks.append(dict(
            property_id=pid, quick_cmd="./check %s --tier quick" % pid, thorough_cmd="./check %s --tier thorough" % pid,
            evidence_file="/verif/evidence/%s.json" % pid, replay_cmd_template="./check %s --replay {path}" % pid,
            engine="cvc+pyvc" if pid in ("C01", "C02", "C03", "C10", "C11", "C13", "C14", "C18", "C19") else "pyvc", level_claimed=dict(category="proof", text=text, design_ref=ref), level_note=note, technique=TECH))
    man = dict(
        version=1,
        setup_cmd="python3-vt -m compileall -q /verif/vc /verif/contracts /verif/spec /verif/replay",
        hooks=dict(guard="TRAITS_VERIF",
                   enable="no hooks are needed: contracts are sidecars and the functions are extracted from /repo's source on every run",
                   baseline_off_cmd="cd /repo && /venv/bin/python -m pytest -ra -q -p no:cacheprovider --timeout=900 --continue-on-collection-errors",
                   source_commits=[], add_only=True),
        engines=[dict(name="pyvc", path="/verif/vc/pyvc", serves_properties=sorted(CLAIMS),
                      kind_free_text="verification-condition generator over the Python AST of the real functions + z3/cvc5"),
                 dict(name="cvc", path="/verif/vc/cvc", serves_properties=["C01", "C02", "C03", "C10", "C14", "C18", "C19"],
                      kind_free_text="verification-condition generator over the clang JSON AST of traits/ctraits.c + z3 (FP, bit-vectors, arrays)")],
        checks=checks,
        notes="Exit codes of ./check: 0 held, 1 VIOLATION, 2 UNDECIDED (never on the unchanged tree), 3 internal error. "
              "fix: commits in /repo: see KNOWN_FINDINGS.jsonl (status fixed).",
        not_applicable=[dict(property_id=p["id"], reason=NOT_YET) for p in props if p["id"] not in CLAIMS])
    json.dump(man, open("/verif/MANIFEST.json", "w"), indent=1)


if __name__ == "__main__":
    main()
