#!/bin/bash
# run_seeds.sh [seed-name ...]: for every stored seeded change build an overlay tree (the files the patch touches, taken from
# /repo's HEAD with the patch applied) outside /repo and /verif, run the check of its property against it and report whether a
# VIOLATION line for that property is printed.  /repo itself is not touched.  Evidence files are restored afterwards.
cd /verif
seeds=${@:-$(ls seeded)}
tmp=$(mktemp -d /tmp/verif-seedrun-XXXX)
for s in $seeds; do
  prop=$(python3 -c "import json;print(json.load(open('seeded/$s/meta.json'))['property'])")
  o=$tmp/$s; mkdir -p $o
  ok=1
  for f in $(grep '^+++ b/' seeded/$s/patch.diff | sed 's,^+++ b/,,'); do
    mkdir -p $o/$(dirname $f); git -C /repo show HEAD:$f > $o/$f 2>/dev/null || ok=0
  done
  (cd $o && patch -p1 -s < /verif/seeded/$s/patch.diff) || ok=0
  if [ $ok = 0 ]; then echo "$s $prop PATCH-DOES-NOT-APPLY"; continue; fi
  out=$(VERIF_REPO=$o timeout 1800 ./check $prop --tier quick 2>&1)
  n=$(echo "$out" | grep -c "^VIOLATION property=$prop")
  u=$(echo "$out" | grep -c "^UNDECIDED")
  first=$(echo "$out" | grep "^VIOLATION property=$prop" | head -1 | sed 's/.*obligation=//' | cut -c1-150)
  if [ $n -gt 0 ]; then echo "$s $prop CAUGHT ($n violation lines, $u undecided) $first"; else echo "$s $prop MISSED (undecided=$u) $(echo "$out" | tail -1 | cut -c1-120)"; fi
  rm -rf $o
done
rm -rf $tmp
git checkout -- evidence 2>/dev/null
