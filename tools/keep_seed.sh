#!/bin/bash
# keep_seed.sh <prop> <seed-name> "<needs>" "<caught-by>" : stores a confirmed seeded change under /verif/seeded/<seed-name>/ and removes the worktree
p=$1; n=$2; needs=$3; caught=$4
d=/verif/seeded/$n; mkdir -p $d
cp /tmp/wt/$p.confirm.patch $d/patch.diff
cp /tmp/wt/$p/demo_$p.py $d/demo.py
python3 - "$p" "$n" "$needs" "$caught" <<'PY'
import json,sys
p,n,needs,caught=sys.argv[1:5]
json.dump(dict(property=p, seed=n, origin="independent sub-agent given only the property text and a scratch worktree",
  needs_to_manifest=needs,
  confirmed=dict(suite_with_change="1 failed (known path-dependent test_default_application_home), 1617 passed",
                 demo_with_change="exit 1 (FAIL)", demo_without_change="exit 0 (PASS)",
                 how="ran demo with/without the patch (git stash) and the full suite in the scratch worktree"),
  checked_with="git -C /repo apply seeded/%s/patch.diff; ./check %s; git -C /repo checkout -- ." % (n,p),
  caught_by=caught), open('/verif/seeded/%s/meta.json'%n,'w'), indent=1)
PY
git -C /repo worktree remove --force /tmp/wt/$p
