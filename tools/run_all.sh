#!/bin/bash
# run_all.sh [tier]: every registered check in turn on /repo's working tree; one summary line per property, exit codes listed
cd /verif
tier=${1:-quick}
for p in C01 C02 C03 C04 C05 C06 C07 C08 C09 C10 C11 C12 C13 C14 C15 C16 C17 C18 C19 C20; do
  out=$(./check $p --tier $tier 2>&1); rc=$?
  echo "$p exit=$rc $(echo "$out" | grep '^property=' | tail -1)"
  echo "$out" | grep "^VIOLATION\|^UNDECIDED\|^KNOWN-FINDING" | cut -c1-300
done
