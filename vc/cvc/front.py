"""C front end: the functions and static tables of traits/ctraits.c as clang JSON ASTs.

Extraction on every run (DESIGN 2.2):
  clang -fsyntax-only -I<python include> -include Python.h -include api_shim.h
        -Xclang -ast-dump=json -Xclang -ast-dump-filter=<name> <repo>/traits/ctraits.c
Dropped by extraction, exactly: the bodies of CPython's macros / static inline functions -- every CPython name is
an API primitive whose meaning is its contract in vc/cvc/api.py.  The text of ctraits.c itself is parsed unmodified.
"""
import hashlib
import json
import os
import subprocess
import tempfile

REPO = os.environ.get("VERIF_REPO", "/repo")
HERE = os.path.dirname(os.path.abspath(__file__))
PYINC = "/root/.pyenv/versions/3.12.1/include/python3.12"
_mem = {}


def c_path():
    p = os.path.join(REPO, "traits", "ctraits.c")
    if not os.path.exists(p):
        p = "/repo/traits/ctraits.c"
    return p


def c_sha():
    return hashlib.sha256(open(c_path(), "rb").read()).hexdigest()


def _cache_dir():
    d = os.path.join(os.environ.get("VERIF_SCRATCH") or tempfile.gettempdir(), "verif-cast-" + c_sha()[:16])
    os.makedirs(d, exist_ok=True)
    return d


def dump(name):
    """All top-level declarations of ctraits.c whose name contains `name` (clang's filter is a substring match)."""
    key = (c_sha(), name)
    if key in _mem:
        return _mem[key]
    cache = os.path.join(_cache_dir(), name + ".json")
    if os.path.exists(cache):
        txt = open(cache).read()
    else:
        cmd = ["clang", "-fsyntax-only", "-w", "-DNDEBUG", "-I", PYINC, "-include", "Python.h", "-include", os.path.join(HERE, "api_shim.h"),
               "-Xclang", "-ast-dump=json", "-Xclang", "-ast-dump-filter=" + name, c_path()]
        p = subprocess.run(cmd, capture_output=True, text=True)
        if p.returncode != 0:
            raise RuntimeError("clang failed: %s" % p.stderr[-2000:])
        txt = p.stdout
        tmp = cache + ".%d" % os.getpid()
        open(tmp, "w").write(txt)
        os.replace(tmp, cache)
    dec = json.JSONDecoder()
    pos, docs = 0, []
    while pos < len(txt):
        while pos < len(txt) and txt[pos].isspace():
            pos += 1
        if pos >= len(txt):
            break
        o, pos = dec.raw_decode(txt, pos)
        docs.append(o)
    _mem[key] = docs
    return docs


def function(name):
    """-> (FunctionDecl with a body, params [(name, qualType)], return type, sha of the source lines)"""
    for d in dump(name):
        if d.get("kind") == "FunctionDecl" and d.get("name") == name and any(
                c.get("kind") == "CompoundStmt" for c in d.get("inner", [])):
            params = [(c["name"], c["type"]["qualType"]) for c in d.get("inner", []) if c.get("kind") == "ParmVarDecl"]
            rty = d["type"]["qualType"].split("(")[0].strip()
            lo = d.get("range", {}).get("begin", {})
            hi = d.get("range", {}).get("end", {})
            return d, params, rty, source_sha(d)
    return None


def _line_of(loc):
    for k in ("expansionLoc", "spellingLoc"):
        if k in loc and "line" in loc[k]:
            return loc[k]["line"]
    return loc.get("line")


def source_sha(decl):
    """sha256 of the function's text; clang gives byte offsets of the range."""
    r = decl.get("range", {})
    b = r.get("begin", {})
    e = r.get("end", {})
    bo = b.get("offset", (b.get("expansionLoc") or {}).get("offset"))
    eo = e.get("offset", (e.get("expansionLoc") or {}).get("offset"))
    if bo is None or eo is None:
        return None
    data = open(c_path(), "rb").read()
    return hashlib.sha256(data[bo:eo + 1]).hexdigest()


def table(name):
    """A static table `T name[] = { a, b, ..., NULL }`: -> list of entry names (None for NULL / 0)."""
    for d in dump(name):
        if d.get("kind") == "VarDecl" and d.get("name") == name:
            init = [c for c in d.get("inner", []) if c.get("kind") == "InitListExpr"]
            if not init:
                continue
            out = []
            for e in init[0].get("inner", []):
                out.append(_entry_name(e))
            return out
    return None


def _entry_name(e):
    while e.get("kind") in ("ImplicitCastExpr", "ParenExpr", "CStyleCastExpr", "UnaryOperator"):
        if not e.get("inner"):
            return None
        e = e["inner"][0]
    if e.get("kind") == "DeclRefExpr":
        return e["referencedDecl"]["name"]
    if e.get("kind") in ("IntegerLiteral", "GNUNullExpr", "CXXNullPtrLiteralExpr"):
        return None
    return "?" + e.get("kind", "")


def all_function_names():
    """names of all functions defined in ctraits.c (cheap textual scan used only for reports)."""
    import re
    txt = open(c_path()).read()
    return re.findall(r"^([a-zA-Z_][a-zA-Z_0-9]*)\(", txt, flags=re.M)
