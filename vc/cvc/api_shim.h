/* api_shim.h -- included after Python.h when ctraits.c is parsed for verification (never compiled into anything).
   Only macros whose expansion takes the address of their argument are redefined, as the equivalent
   assignment sequence, so that the AST contains plain assignments and calls. */
#undef Py_CLEAR
#define Py_CLEAR(op) do { PyObject *_verif_tmp = (PyObject *)(op); (op) = NULL; Py_XDECREF(_verif_tmp); } while (0)
#undef Py_XSETREF
#define Py_XSETREF(dst, src) do { PyObject *_verif_tmp = (PyObject *)(dst); (dst) = (src); Py_XDECREF(_verif_tmp); } while (0)
#undef Py_SETREF
#define Py_SETREF(dst, src) do { PyObject *_verif_tmp = (PyObject *)(dst); (dst) = (src); Py_DECREF(_verif_tmp); } while (0)
/* item access macros expand to raw struct indexing; present them as calls */
#undef PyTuple_GET_ITEM
PyObject *PyTuple_GET_ITEM(PyObject *, Py_ssize_t);
#undef PyList_GET_ITEM
PyObject *PyList_GET_ITEM(PyObject *, Py_ssize_t);
