"""cvc core: forward symbolic execution of the clang AST of a function of traits/ctraits.c.

State model (DESIGN 2.2): PyObject pointers are values of the uninterpreted sort Obj (NULL is a constant);
C int / long / Py_ssize_t are mathematical integers (A-INT); `unsigned int` flag words are 32-bit vectors;
double is IEEE binary64 (z3 FP); struct fields are one z3 array per field; the CPython API is a set of
primitives with contracts (api.py).  Ghost state: the error indicator `exc`, the reference-ownership map
`own`, and the trace of calls that run Python code.
"""
import itertools

import z3

from ..pyvc.values import Unsupported

Obj = z3.DeclareSort("Obj")
NULL = z3.Const("NULL", Obj)
INT = z3.IntSort()
F64 = z3.Float64()
BV32 = z3.BitVecSort(32)
FN = z3.IntSort()                 # function pointers: index into the table of known C functions (0 = NULL)

# exception kinds (error indicator): 0 = no error
EXC = {"none": 0, "TypeError": 1, "TraitError": 2, "AttributeError": 3, "KeyError": 4, "ValueError": 5,
       "OverflowError": 6, "DelegationError": 7, "SystemError": 8, "RuntimeError": 9, "IndexError": 10}
EXC_OTHER_BASE = 100              # codes >= 100: any other exception raised by Python code


class Ptr:
    """address of a local variable (&x) or of a struct field (&p->f) -- only ever passed to API out-parameters"""

    def __init__(self, kind, a, b=None):
        self.kind, self.a, self.b = kind, a, b


class FnRef:
    """a C function designator (address of a function of ctraits.c)"""

    def __init__(self, name):
        self.name = name


class StrLit:
    def __init__(self, s):
        self.s = s


class CSt:
    __slots__ = ("env", "pc", "mem", "exc", "own", "trace", "ghost")

    def __init__(self, env=None, pc=(), mem=None, exc=None, own=None, trace=(), ghost=None):
        self.env = env or {}
        self.pc = tuple(pc)
        self.mem = mem or {}
        self.exc = exc if exc is not None else z3.IntVal(0)
        self.own = own
        self.trace = tuple(trace)
        self.ghost = ghost or {}

    def _copy(self, **kw):
        d = dict(env=self.env, pc=self.pc, mem=self.mem, exc=self.exc, own=self.own, trace=self.trace, ghost=self.ghost)
        d.update(kw)
        return CSt(**d)

    def set(self, name, v):
        e = dict(self.env)
        e[name] = v
        return self._copy(env=e)

    def assume(self, *cs):
        return self._copy(pc=self.pc + tuple(cs))

    def with_mem(self, field, arr):
        m = dict(self.mem)
        m[field] = arr
        return self._copy(mem=m)

    def with_exc(self, e):
        return self._copy(exc=e if z3.is_expr(e) else z3.IntVal(e))

    def with_own(self, o):
        return self._copy(own=o)

    def log(self, rec):
        return self._copy(trace=self.trace + (rec,))

    def gset(self, k, v):
        g = dict(self.ghost)
        g[k] = v
        return self._copy(ghost=g)


FIELD_SORTS = {
    # has_traits_object
    "ctrait_dict": Obj, "itrait_dict": Obj, "notifiers": Obj, "flags": BV32, "obj_dict": Obj,
    # trait_object
    "getattr": FN, "setattr": FN, "post_setattr": FN, "py_post_setattr": Obj, "validate": FN, "py_validate": Obj,
    "default_value_type": INT, "default_value": Obj, "delegate_name": Obj, "delegate_prefix": Obj,
    "delegate_attr_name": FN, "handler": Obj,
    # PyTypeObject slots called through
    "tp_getattro": FN,
    # PyTypeObject (only ever passed on to message formatting)
    "tp_name": Obj,
}
OWNING_FIELDS = {"ctrait_dict", "itrait_dict", "notifiers", "obj_dict", "py_post_setattr", "py_validate", "default_value",
                 "delegate_name", "delegate_prefix", "handler"}


def sort_of_ctype(q):
    q = q.replace("const ", "").strip()
    if q in ("int", "long", "Py_ssize_t", "ssize_t", "size_t", "unsigned long", "Py_hash_t", "Py_UCS4", "char"):
        return INT
    if q in ("unsigned int",):
        return BV32
    if q == "double":
        return F64
    if "(*)" in q or q in ("trait_getattr", "trait_setattr", "trait_post_setattr", "trait_validate",
                           "delegate_attr_name_func", "getattrofunc", "visitproc", "void *"):
        return FN if q != "void *" else None
    if q.endswith("*"):
        return Obj
    return None


class CCx:
    def __init__(self):
        self.n = itertools.count()
        self.axioms = []
        self.side_obligations = []       # (name, pc, goal, witness)
        self.fn_ids = {None: 0}
        self.notes = []
        self.hints = []
        self.inline_depth = 0
        self.summaries = {}              # C function name -> callable(ex, args, st, k)
        self.field_call = {}             # struct field name (function pointer) -> callable(ex, fnterm, args, st, k)
        self.check_own = False
        self.globals = {}

    def fresh(self, prefix, sort):
        return z3.Const("%s!%d" % (prefix, next(self.n)), sort)

    def fn_id(self, name):
        if name not in self.fn_ids:
            self.fn_ids[name] = len(self.fn_ids)
        return self.fn_ids[name]

    def const_obj(self, name):
        return z3.Const("g_" + name, Obj)

    def feasible(self, st, cond=None):
        s = z3.Solver()
        s.set("timeout", 1500)
        s.add(*self.axioms)
        s.add(*st.pc)
        if cond is not None:
            s.add(cond)
        return s.check() != z3.unsat

    def branch(self, st, cond, kt, kf):
        c = z3.simplify(cond)
        if z3.is_true(c):
            return kt(st)
        if z3.is_false(c):
            return kf(st)
        out = []
        if self.feasible(st, c):
            out += kt(st.assume(c))
        nc = z3.simplify(z3.Not(c))
        if self.feasible(st, nc):
            out += kf(st.assume(nc))
        return out

    def require(self, st, cond, name, witness=None):
        self.side_obligations.append((name, list(st.pc), cond, witness or {}))
        return st.assume(cond)


def truth(v):
    if z3.is_bool(v):
        return v
    if z3.is_fp(v):
        return z3.Not(z3.fpIsZero(v))
    if z3.is_bv(v):
        return v != 0
    if z3.is_int(v):
        return v != 0
    if z3.is_expr(v) and v.sort() == Obj:
        return v != NULL
    if isinstance(v, (FnRef, StrLit, Ptr)):
        return z3.BoolVal(True)
    raise Unsupported("C truth of %r" % (v,))


def as_int(v):
    if z3.is_bool(v):
        return z3.If(v, z3.IntVal(1), z3.IntVal(0))
    if z3.is_bv(v):
        return z3.BV2Int(v, is_signed=False)
    return v


def strip(e):
    while e.get("kind") in ("ImplicitCastExpr", "ParenExpr", "CStyleCastExpr", "ConstantExpr"):
        e = e["inner"][0]
    return e


class CExec:
    def __init__(self, cx, api, front):
        self.cx, self.api, self.front = cx, api, front
        api.ex = self

    # ------------------------------------------------------------------ function bodies
    def run_function(self, decl, args, st, k_ret):
        """execute FunctionDecl `decl` with argument values; k_ret(value, st) for each return."""
        params = [c for c in decl.get("inner", []) if c.get("kind") == "ParmVarDecl"]
        body = [c for c in decl.get("inner", []) if c.get("kind") == "CompoundStmt"][0]
        saved_env = st.env
        env = {}
        for p, a in zip(params, args):
            env[p["name"]] = a
        env["@labels"] = label_ids(decl)         # per frame: the continuation of an inlined call runs in the caller's frame again
        st = st._copy(env=env)
        labels = self.collect_labels(body)
        out = []
        for (kind, payload, st2) in self.block_with_gotos(body, st, labels):
            st3 = st2._copy(env=saved_env)
            if kind == "return":
                out += k_ret(payload, st3)
            elif kind == "next":
                out += k_ret(None, st3)
            else:
                raise Unsupported("outcome %s escapes C function %s" % (kind, decl.get("name")))
        return out

    def collect_labels(self, body):
        """label name -> (list of statements that follow the label in its enclosing compound, incl. the labelled one)"""
        labels = {}

        def walk(n):
            if n.get("kind") == "CompoundStmt":
                inner = n.get("inner", [])
                for i, s in enumerate(inner):
                    if s.get("kind") == "LabelStmt":
                        labels[s["name"]] = (n, i)
            for c in n.get("inner", []):
                walk(c)
        walk(body)
        return labels

    def block_with_gotos(self, body, st, labels):
        out = []
        work = list(self.stmt(body, st))
        guard = 0
        while work:
            guard += 1
            if guard > 5000:
                raise Unsupported("goto loop")
            (kind, payload, st2) = work.pop()
            if kind == "goto":
                if payload not in labels:
                    raise Unsupported("goto to unknown label %s" % payload)
                comp, i = labels[payload]
                if comp is not body:
                    raise Unsupported("goto into a nested block (%s)" % payload)
                work += self.stmts(comp["inner"][i:], st2)
            else:
                out.append((kind, payload, st2))
        return out

    # ------------------------------------------------------------------ statements
    def stmts(self, ss, st):
        states = [st]
        out = []
        for s in ss:
            nxt = []
            for cur in states:
                for (kind, payload, s2) in self.stmt(s, cur):
                    if kind == "next":
                        nxt.append(s2)
                    else:
                        out.append((kind, payload, s2))
            states = nxt
            if not states:
                break
        return out + [("next", None, s) for s in states]

    def stmt(self, s, st):
        k = s.get("kind")
        if k == "CompoundStmt":
            return self.stmts(s.get("inner", []), st)
        if k == "NullStmt":
            return [("next", None, st)]
        if k == "DeclStmt":
            def go(i, st2):
                ds = s.get("inner", [])
                if i == len(ds):
                    return [("next", None, st2)]
                d = ds[i]
                if d.get("kind") != "VarDecl":
                    return go(i + 1, st2)
                init = [c for c in d.get("inner", []) if c.get("kind") not in ("UnusedAttr",)]
                if init:
                    return self.ev(init[0], st2, lambda v, st3: go(i + 1, st3.set(d["name"], self.coerce(v, d["type"]["qualType"]))))
                return go(i + 1, st2.set(d["name"], None))
            return go(0, st)
        if k == "IfStmt":
            inner = s["inner"]
            return self.ev(inner[0], st, lambda c, st2: self.cx.branch(
                st2, truth(c), lambda a: self.stmt(inner[1], a),
                lambda b: self.stmt(inner[2], b) if len(inner) > 2 else [("next", None, b)]))
        if k == "ReturnStmt":
            if not s.get("inner"):
                return [("return", None, st)]
            return self.ev(s["inner"][0], st, lambda v, st2: [("return", v, st2)])
        if k == "GotoStmt":
            return [("goto", self.label_name(s, st), st)]
        if k == "LabelStmt":
            return self.stmt(s["inner"][0], st)
        if k == "BreakStmt":
            return [("break", None, st)]
        if k == "ContinueStmt":
            return [("continue", None, st)]
        if k == "DoStmt":
            body, cond = s["inner"]
            c = strip(cond)
            if c.get("kind") == "IntegerLiteral" and c.get("value") == "0":      # do { ... } while (0)
                out = []
                for (kind, payload, st2) in self.stmt(body, st):
                    out.append(("next", None, st2) if kind in ("break", "continue") else (kind, payload, st2))
                return out
            raise Unsupported("do-while loop")
        if k == "SwitchStmt":
            return self.switch(s, st)
        if k in ("ForStmt", "WhileStmt"):
            return self.loop(s, st)
        if k in ("CaseStmt", "DefaultStmt"):
            # reached by fall-through inside a switch body
            return self.stmt(s["inner"][-1], st)
        # expression statement
        return self.ev(s, st, lambda v, st2: [("next", None, st2)])

    def label_name(self, s, st):
        # clang gives the target as targetLabelDeclId; names are resolved through the label table of the current frame
        tid = s.get("targetLabelDeclId")
        return st.env.get("@labels", {}).get(tid, getattr(self, "label_ids", {}).get(tid, tid))

    def switch(self, s, st):
        cond, body = s["inner"][0], s["inner"][-1]
        items = body.get("inner", [])
        # positions of case labels (possibly nested: `case 1: case 2: stmt`)
        entries = []          # (value node or None for default, index in items)

        def labels_of(node, idx):
            if node.get("kind") == "CaseStmt":
                entries.append((node["inner"][0], idx))
                labels_of(node["inner"][-1], idx)
            elif node.get("kind") == "DefaultStmt":
                entries.append((None, idx))
                labels_of(node["inner"][-1], idx)
        for i, it in enumerate(items):
            labels_of(it, i)

        def run_from(idx, st2):
            out = []
            for (kind, payload, st3) in self.stmts(items[idx:], st2):
                out.append(("next", None, st3) if kind == "break" else (kind, payload, st3))
            return out

        def k_cond(cv, st2):
            cv = as_int(cv)
            out = []
            taken = []
            for (vn, idx) in entries:
                if vn is None:
                    continue
                val = as_int(self.const_value(vn))
                c = cv == val
                taken.append(c)
                if self.cx.feasible(st2, c):
                    out += run_from(idx, st2.assume(c))
            none = z3.Not(z3.Or(*taken)) if taken else z3.BoolVal(True)
            if self.cx.feasible(st2, none):
                d = [idx for (vn, idx) in entries if vn is None]
                st3 = st2.assume(none)
                out += run_from(d[0], st3) if d else [("next", None, st3)]
            return out
        return self.ev(cond, st, k_cond)

    def const_value(self, n):
        n = strip(n)
        if n.get("kind") == "IntegerLiteral":
            return z3.IntVal(int(n["value"]))
        if n.get("kind") == "UnaryOperator" and n.get("opcode") == "-":
            return -self.const_value(n["inner"][0])
        if n.get("kind") == "DeclRefExpr":       # enumerator
            raise Unsupported("enum case label")
        raise Unsupported("case label %s" % n.get("kind"))

    def loop(self, s, st):
        hook = getattr(self.cx, "on_loop", None)
        if hook is not None:
            r = hook(self, s, st)
            if r is not None:
                return r
        raise Unsupported("C loop without invariant / unrolling rule at line %s" % (s.get("range", {}).get("begin", {}).get("line")))

    def unroll(self, s, st, bound):
        """Bounded unrolling with the bound taken from the contract (e.g. the length of a static table); reaching the
        bound with the loop condition still true is reported as an obligation `unwind`."""
        kind = s["kind"]
        if kind == "ForStmt":
            init, _cv, cond, inc, body = (s["inner"] + [None] * 5)[:5]
        else:
            init, inc = None, None
            cond, body = s["inner"][0], s["inner"][1]

        def after_init(st1):
            def it(n, st2):
                def k_c(c, st3):
                    def go(st4):
                        if n >= bound:
                            self.cx.side_obligations.append(("unwind:loop-exceeds-%d-iterations" % bound, list(st4.pc), z3.BoolVal(False), {}))
                            return []
                        out = []
                        for (kd, payload, st5) in self.stmt(body, st4):
                            if kd in ("next", "continue"):
                                if inc and inc.get("kind"):
                                    out += self.ev(inc, st5, lambda _v, st6: it(n + 1, st6))
                                else:
                                    out += it(n + 1, st5)
                            elif kd == "break":
                                out.append(("next", None, st5))
                            else:
                                out.append((kd, payload, st5))
                        return out
                    return self.cx.branch(st3, truth(c), go, lambda b: [("next", None, b)])
                if cond and cond.get("kind"):
                    return self.ev(cond, st2, k_c)
                return k_c(z3.BoolVal(True), st2)
            return it(0, st1)
        if init and init.get("kind"):
            out = []
            for (kd, payload, st1) in self.stmt(init, st):
                out += after_init(st1) if kd == "next" else [(kd, payload, st1)]
            return out
        return after_init(st)

    def invariant_loop(self, s, st, modified, inv, variant=None, heap=True, name="loop", ghosts=None, mems=None):
        """Hoare rule for a C loop, for any number of iterations.
        modified: {local name: z3 sort} of the locals the body assigns (havocked at the loop head);
        inv(ex, st, entry) -> [(clause name, z3 Bool)] over a state (entry = state after the init statement);
        variant(ex, st) -> Int term that must decrease and stay >= 0 on every back edge (termination), or None.
        Obligations inv-init:* at entry and inv-keep:* on every back edge; the paths that leave the loop (break / return /
        condition false) continue from the *arbitrary* iteration, i.e. from a state about which only the invariant is known.
        heap=True: the loop head also forgets every field / dict / list (the body runs Python code);
        mems: names of memory maps the body writes when heap=False (forgotten at the head, described by the invariant);
        ghosts: {ghost name: sort} ghost terms the body updates (forgotten at the head, described by the invariant)."""
        kind = s["kind"]
        if kind == "ForStmt":
            init, _cv, cond, inc, body = (s["inner"] + [None] * 5)[:5]
        else:
            init, inc = None, None
            cond, body = s["inner"][0], s["inner"][1]
        cx = self.cx

        def at_head(st1):
            for cl in inv(self, st1, st1):
                cx.side_obligations.append(("inv-init#%s:%s" % (name, cl[0]), list(st1.pc), cl[1], cl[2] if len(cl) > 2 else {}))
            sth = self.api.havoc(st1, "loop-head:" + name) if heap else st1.log(("python", "loop-head:" + name))
            for ln, srt in modified.items():
                sth = sth.set(ln, cx.fresh("lh_" + ln, srt))
            for mn in (mems or ()):
                cur = sth.mem.get(mn)
                if cur is None:
                    raise Unsupported("loop rule: memory map %s not materialised before the loop" % mn)
                sth = sth.with_mem(mn, cx.fresh("lh_" + mn.strip("@"), cur.sort()))
            for gn, srt in (ghosts or {}).items():
                sth = sth.gset(gn, cx.fresh("lh_" + gn, srt))
            if sth.own is not None:
                sth = sth.with_own(cx.fresh("own_lh", sth.own.sort()))
            sth = sth.with_exc(cx.fresh("exc_lh", INT))
            sth = sth.assume(*[cl[1] for cl in inv(self, sth, st1)])
            v0 = variant(self, sth) if variant is not None else None

            def close(st6):
                for cl in inv(self, st6, st1):
                    cx.side_obligations.append(("inv-keep#%s:%s" % (name, cl[0]), list(st6.pc), cl[1], cl[2] if len(cl) > 2 else {}))
                if v0 is not None:
                    v1 = variant(self, st6)
                    cx.side_obligations.append(("inv-keep#%s:variant-decreases" % name, list(st6.pc), z3.And(v1 >= 0, v1 < v0), {}))
                return []

            def k_c(c, st3):
                def go(st4):
                    out = []
                    for (kd, payload, st5) in self.stmt(body, st4):
                        if kd in ("next", "continue"):
                            if inc and inc.get("kind"):
                                out += self.ev(inc, st5, lambda _v, st6: close(st6))
                            else:
                                out += close(st5)
                        elif kd == "break":
                            out.append(("next", None, st5))
                        else:
                            out.append((kd, payload, st5))
                    return out
                return cx.branch(st3, truth(c), go, lambda b: [("next", None, b)])
            if cond and cond.get("kind"):
                return self.ev(cond, sth, k_c)
            return k_c(z3.BoolVal(True), sth)
        if init and init.get("kind"):
            out = []
            for (kd, payload, st1) in self.stmt(init, st):
                out += at_head(st1) if kd == "next" else [(kd, payload, st1)]
            return out
        return at_head(st)

    # ------------------------------------------------------------------ expressions
    def coerce(self, v, qual):
        srt = sort_of_ctype(qual)
        if v is None or not z3.is_expr(v) or srt is None:
            return v
        if srt == INT and z3.is_bool(v):
            return as_int(v)
        if srt == INT and z3.is_bv(v):
            return z3.BV2Int(v, is_signed=False)
        if srt == BV32 and z3.is_int(v):
            return z3.Int2BV(v, 32)
        if srt == F64 and z3.is_int(v):
            return z3.fpToFP(z3.RNE(), z3.ToReal(v), F64)
        return v

    def ev_list(self, es, st, k, acc=()):
        if not es:
            return k(list(acc), st)
        return self.ev(es[0], st, lambda v, st2: self.ev_list(es[1:], st2, k, acc + (v,)))

    def ev(self, e, st, k):
        kind = e.get("kind")
        cx = self.cx
        if kind in ("ParenExpr", "ConstantExpr"):
            return self.ev(e["inner"][0], st, k)
        if kind == "ImplicitCastExpr" or kind == "CStyleCastExpr":
            ck = e.get("castKind")
            if ck == "NullToPointer":
                q = e["type"]["qualType"]
                return k(z3.IntVal(0) if sort_of_ctype(q) is FN and q != "void *" else NULL, st)
            return self.ev(e["inner"][0], st, lambda v, st2: k(self.cast(v, e, ck), st2))
        if kind == "IntegerLiteral":
            q = e["type"]["qualType"]
            v = int(e["value"])
            return k(z3.BitVecVal(v, 32) if q == "unsigned int" else z3.IntVal(v), st)
        if kind == "FloatingLiteral":
            return k(z3.FPVal(float(e["value"]), F64), st)
        if kind == "CharacterLiteral":
            return k(z3.IntVal(int(e["value"])), st)
        if kind == "StringLiteral":
            return k(StrLit(e.get("value", "").strip(chr(34))), st)
        if kind == "DeclRefExpr":
            return self.declref(e, st, k)
        if kind == "MemberExpr":
            return self.ev(e["inner"][0], st, lambda base, st2: self.load_field(base, e["name"], st2, k))
        if kind == "UnaryOperator":
            return self.unary(e, st, k)
        if kind == "BinaryOperator":
            return self.binary(e, st, k)
        if kind == "CompoundAssignOperator":
            op = e["opcode"][:-1]
            lhs, rhs = e["inner"]
            return self.ev(lhs, st, lambda a, s1: self.ev(rhs, s1, lambda b, s2: self.store(
                lhs, self.arith(op, a, b), s2, k)))
        if kind == "ConditionalOperator":
            c, a, b = e["inner"]
            return self.ev(c, st, lambda cv, st2: cx.branch(st2, truth(cv), lambda s1: self.ev(a, s1, k),
                                                           lambda s2: self.ev(b, s2, k)))
        if kind == "CallExpr":
            return self.call(e, st, k)
        if kind == "ArraySubscriptExpr":
            return self.subscript(e, st, k)
        if kind == "UnaryExprOrTypeTraitExpr":
            # sizeof of a pointer (8 on the LP64 target the extension is built for) and of an array of pointers, whose length
            # clang records in the operand type; anything else stays an unspecified positive integer
            import re as _re
            q = ((e.get("inner") or [{}])[0].get("type") or e.get("argType") or {}).get("qualType", "")
            m = _re.match(r"^(.*)\[(\d+)\]$", q)
            if e.get("name") == "sizeof" and m and sort_of_ctype(m.group(1).strip()) in (FN, Obj):
                return k(z3.IntVal(8 * int(m.group(2))), st)
            if e.get("name") == "sizeof" and not m and q and sort_of_ctype(q) in (FN, Obj):
                return k(z3.IntVal(8), st)
            sz = cx.fresh("sizeof", INT)
            return k(sz, st.assume(sz >= 1))
        raise Unsupported("C expression %s" % kind)

    def cast(self, v, e, ck):
        q = e["type"]["qualType"]
        if ck in ("IntegralCast", "IntegralToBoolean", "IntegralToFloating", "FloatingCast"):
            return self.coerce(v, q)
        if ck == "BitCast" and z3.is_expr(v) and v.eq(NULL) and sort_of_ctype(q) is FN and q != "void *":
            return z3.IntVal(0)          # (trait_validate)NULL
        return v

    def declref(self, e, st, k):
        rd = e["referencedDecl"]
        name, dk = rd["name"], rd.get("kind")
        if dk in ("VarDecl", "ParmVarDecl") and name in st.env:
            return k(st.env[name], st)
        if dk == "FunctionDecl":
            return k(FnRef(name), st)
        if dk == "EnumConstantDecl":
            raise Unsupported("enum constant %s" % name)
        if dk == "VarDecl":
            # global variable of ctraits.c or of CPython
            g = self.cx.globals.get(name)
            if g is not None:
                return k(g, st)
            q = rd["type"]["qualType"]
            if "[" in q:
                return k(("table", name), st)
            srt = sort_of_ctype(q)
            if srt == Obj:
                return k(self.cx.const_obj(name), st)
            if q in ("PyTypeObject", "PyObject", "struct _object", "struct _typeobject", "struct _longobject", "PyLongObject"):
                return k(("lvalue-global", name), st)
            raise Unsupported("global %s : %s" % (name, q))
        raise Unsupported("reference to %s %s" % (dk, name))

    def unary(self, e, st, k):
        op = e.get("opcode")
        sub = e["inner"][0]
        if op == "&":
            t = strip(sub)
            if t.get("kind") == "DeclRefExpr":
                rd = t["referencedDecl"]
                if rd["name"] in st.env:
                    return k(Ptr("local", rd["name"]), st)
                if rd.get("kind") == "FunctionDecl":
                    return k(FnRef(rd["name"]), st)
                return k(self.cx.const_obj(rd["name"]), st)       # &_Py_NoneStruct, &PyLong_Type, ...
            if t.get("kind") == "MemberExpr":
                return self.ev(t["inner"][0], st, lambda base, st2: k(Ptr("field", base, t["name"]), st2))
            raise Unsupported("address-of %s" % t.get("kind"))
        if op in ("++", "--"):
            d = 1 if op == "++" else -1
            post = e.get("isPostfix", False)
            return self.ev(sub, st, lambda v, st2: self.store(sub, v + d, st2, lambda _n, st3: k(v if post else v + d, st3)))

        def k1(v, st2):
            if op == "!":
                return k(z3.Not(truth(v)), st2)
            if op == "-":
                return k(z3.fpNeg(v) if z3.is_fp(v) else -as_int(v), st2)
            if op == "+":
                return k(v, st2)
            if op == "~":
                return k(~v if z3.is_bv(v) else -as_int(v) - 1, st2)
            if op == "*":
                if isinstance(v, Ptr):
                    if v.kind == "local":
                        return k(st2.env[v.a], st2)
                    return self.load_field(v.a, v.b, st2, k)
                raise Unsupported("dereference of %r" % (v,))
            raise Unsupported("unary %s" % op)
        return self.ev(sub, st, k1)

    def binary(self, e, st, k):
        op = e["opcode"]
        lhs, rhs = e["inner"]
        cx = self.cx
        if op == "=":
            return self.ev(rhs, st, lambda v, st2: self.store(lhs, v, st2, k))
        if op in ("&&", "||"):
            merged = self.try_pure_shortcircuit(op, lhs, rhs, st, k)
            if merged is not None:
                return merged
        if op == "&&":
            return self.ev(lhs, st, lambda a, s1: cx.branch(
                s1, truth(a), lambda t: self.ev(rhs, t, lambda b, s2: k(truth(b), s2)), lambda f: k(z3.BoolVal(False), f)))
        if op == "||":
            return self.ev(lhs, st, lambda a, s1: cx.branch(
                s1, truth(a), lambda t: k(z3.BoolVal(True), t), lambda f: self.ev(rhs, f, lambda b, s2: k(truth(b), s2))))
        if op == ",":
            return self.ev(lhs, st, lambda _a, s1: self.ev(rhs, s1, k))
        return self.ev(lhs, st, lambda a, s1: self.ev(rhs, s1, lambda b, s2: k(self.arith(op, a, b), s2)))

    def try_pure_shortcircuit(self, op, lhs, rhs, st, k):
        """`a && b` / `a || b` whose operands neither fork nor change the state are evaluated to one boolean term
        instead of forking the path: b is evaluated in a state where the guard (a, resp. !a) is assumed -- so the
        obligations it generates (NULL checks, bounds) carry the guard -- and the result continues from the
        original state."""
        box = []
        r1 = self.ev(lhs, st, lambda v, s: box.append((v, s)) or [])
        if r1 or len(box) != 1:
            return None
        a, s1 = box[0]
        if not self.same_state(st, s1):
            return None
        ta = truth(a)
        guard = ta if op == "&&" else z3.Not(ta)
        box2 = []
        sg = s1.assume(guard)
        if not self.cx.feasible(sg):
            return k(ta if op == "||" else z3.BoolVal(False), s1) if False else None
        r2 = self.ev(rhs, sg, lambda v, s: box2.append((v, s)) or [])
        if r2 or len(box2) != 1:
            return None
        b, s2 = box2[0]
        if not self.same_state(sg, s2, ignore_pc=True):
            return None
        tb = truth(b)
        # facts assumed while evaluating b (e.g. list lengths >= 0) hold under the guard
        extra = [z3.Implies(guard, c) for c in s2.pc[len(sg.pc):]]
        res = z3.And(ta, tb) if op == "&&" else z3.Or(ta, tb)
        return k(res, s1.assume(*extra) if extra else s1)

    @staticmethod
    def same_state(a, b, ignore_pc=False):
        return (a.env is b.env or a.env == b.env) and a.mem is b.mem and a.own is b.own and a.trace == b.trace \
            and a.exc is b.exc and (ignore_pc or a.pc == b.pc) and a.ghost is b.ghost

    def arith(self, op, a, b):
        if isinstance(a, FnRef) or isinstance(b, FnRef):
            ia = z3.IntVal(self.cx.fn_id(a.name)) if isinstance(a, FnRef) else a
            ib = z3.IntVal(self.cx.fn_id(b.name)) if isinstance(b, FnRef) else b
            return {"==": ia == ib, "!=": ia != ib}[op]
        if z3.is_fp(a) or z3.is_fp(b):
            a = a if z3.is_fp(a) else z3.fpToFP(z3.RNE(), z3.ToReal(as_int(a)), F64)
            b = b if z3.is_fp(b) else z3.fpToFP(z3.RNE(), z3.ToReal(as_int(b)), F64)
            t = {"==": z3.fpEQ, "!=": lambda x, y: z3.Not(z3.fpEQ(x, y)), "<": z3.fpLT, "<=": z3.fpLEQ, ">": z3.fpGT,
                 ">=": z3.fpGEQ}.get(op)
            if t is None:
                raise Unsupported("floating %s" % op)
            return t(a, b)
        if z3.is_expr(a) and z3.is_expr(b) and a.sort() == Obj and b.sort() == Obj:
            return {"==": a == b, "!=": a != b}[op]
        if z3.is_bv(a) or z3.is_bv(b):
            a = a if z3.is_bv(a) else z3.Int2BV(as_int(a), 32)
            b = b if z3.is_bv(b) else z3.Int2BV(as_int(b), 32)
            t = {"&": lambda: a & b, "|": lambda: a | b, "^": lambda: a ^ b, "==": lambda: a == b, "!=": lambda: a != b,
                 "+": lambda: a + b, "-": lambda: a - b, "<<": lambda: a << b, ">>": lambda: z3.LShR(a, b),
                 "<": lambda: z3.ULT(a, b), "<=": lambda: z3.ULE(a, b), ">": lambda: z3.UGT(a, b), ">=": lambda: z3.UGE(a, b)}.get(op)
            if t is None:
                raise Unsupported("bit-vector %s" % op)
            return t()
        a, b = as_int(a), as_int(b)
        if op in ("&", "|", "^"):
            # small non-negative masks on mathematical ints (in_float_range's `exclude_mask & 1`): via 64-bit vectors
            x, y = z3.Int2BV(a, 64), z3.Int2BV(b, 64)
            r = {"&": x & y, "|": x | y, "^": x ^ y}[op]
            return z3.BV2Int(r, is_signed=True)
        if op in ("<<", ">>"):
            sb = z3.simplify(b)
            if z3.is_int_value(sb):
                return a * (2 ** sb.as_long()) if op == "<<" else a / (2 ** sb.as_long())
            raise Unsupported("shift by a symbolic amount")
        if z3.is_expr(a) and z3.is_expr(b) and a.sort() != b.sort():
            raise Unsupported("comparison of %s with %s" % (a.sort(), b.sort()))
        if op in ("/", "%"):
            # C division truncates toward zero; only with a positive constant divisor (sizeof quotients)
            sb = z3.simplify(b)
            if z3.is_int_value(sb) and sb.as_long() > 0:
                q = z3.If(a >= 0, a / b, -((-a) / b))
                return z3.simplify(q) if op == "/" else z3.simplify(a - b * q)
            raise Unsupported("integer %s by a non-constant or non-positive divisor" % op)
        t = {"+": lambda: a + b, "-": lambda: a - b, "*": lambda: a * b, "==": lambda: a == b, "!=": lambda: a != b,
             "<": lambda: a < b, "<=": lambda: a <= b, ">": lambda: a > b, ">=": lambda: a >= b}.get(op)
        if t is None:
            raise Unsupported("integer %s" % op)
        return t()

    # ------------------------------------------------------------------ memory
    def field_array(self, st, name):
        if name not in st.mem:
            srt = FIELD_SORTS.get(name)
            if srt is None:
                raise Unsupported("struct field %s" % name)
            return z3.Const("fld0_" + name, z3.ArraySort(Obj, srt))
        return st.mem[name]

    def load_field(self, base, name, st, k):
        if isinstance(base, tuple) and base[0] == "lvalue-global":
            raise Unsupported("field of global struct %s" % base[1])
        if not (z3.is_expr(base) and base.sort() == Obj):
            raise Unsupported("field %s of %r" % (name, base))
        st = self.cx.require(st, base != NULL, "valid-deref:%s->%s" % ("p", name))
        st = self.api.live(st, base, "p->" + name)
        if name in ("ob_type",):
            return self.api.call("Py_TYPE", [base], st, k)
        for (r, snap) in st.ghost.get("allocs", ()):
            if name in snap:          # at allocation time no field of any object pointed to the new object r
                st = st.assume(snap[name][base] != r)
        return k(self.field_array(st, name)[base], st)

    def store_field(self, base, fname, v, st2, k):
        st2 = self.cx.require(st2, base != NULL, "valid-deref:store->%s" % fname)
        st2 = self.api.live(st2, base, "store->" + fname)
        arr = self.field_array(st2, fname)
        srt = FIELD_SORTS[fname]
        val = v
        if isinstance(val, FnRef):
            val = z3.IntVal(self.cx.fn_id(val.name))
        if srt == BV32 and z3.is_int(val):
            val = z3.Int2BV(val, 32)
        if srt == INT:
            val = as_int(val)
        st3 = st2
        if fname in OWNING_FIELDS and st2.own is not None:
            old = arr[base]
            own = st2.own
            # the field's reference moves to the function (old value) and the function's to the field (new value)
            own = self.api.own_add(own, old, 1)
            own = self.api.own_add(own, val, -1)
            st3 = st2.with_own(own)
            if z3.is_expr(val):
                st3 = st3.gset("kept_by_field", st3.ghost.get("kept_by_field", ()) + (val,))
        st3 = st3.with_mem(fname, z3.Store(arr, base, val))
        st3 = st3.log(("store", fname, base, val))
        return k(val, st3)

    def store(self, lhs, v, st, k):
        t = strip(lhs)
        kd = t.get("kind")
        if kd == "DeclRefExpr":
            name = t["referencedDecl"]["name"]
            q = t["type"]["qualType"]
            v2 = self.coerce(v, q) if z3.is_expr(v) else v
            if isinstance(v2, FnRef):
                v2 = z3.IntVal(self.cx.fn_id(v2.name))
            return k(v2, st.set(name, v2))
        if kd == "MemberExpr":
            fname = t["name"]
            return self.ev(t["inner"][0], st, lambda base, st2: self.store_field(base, fname, v, st2, k))
        if kd == "UnaryOperator" and t.get("opcode") == "*":
            def k2(p, st2):
                if isinstance(p, Ptr) and p.kind == "local":
                    return k(v, st2.set(p.a, v))
                if isinstance(p, Ptr) and p.kind == "field":
                    return self.store_field(p.a, p.b, v, st2, k)
                raise Unsupported("store through pointer")
            return self.ev(t["inner"][0], st, k2)
        raise Unsupported("assignment to %s" % kd)

    def subscript(self, e, st, k):
        base, idx = e["inner"]

        def k1(b, st2):
            def k2(i, st3):
                if isinstance(b, tuple) and b[0] == "table":
                    tab = self.front.table(b[1])
                    if tab is None:
                        raise Unsupported("table %s" % b[1])
                    i2 = as_int(i)
                    st4 = self.cx.require(st3, z3.And(0 <= i2, i2 < len(tab)), "bounds:%s[%d]" % (b[1], len(tab)),
                                          witness={"index": i2})
                    t = z3.IntVal(0)
                    for j, nm in reversed(list(enumerate(tab))):
                        t = z3.If(i2 == j, z3.IntVal(self.cx.fn_id(nm)), t)
                    return k(t, st4)
                raise Unsupported("array subscript on %r" % (b,))
            return self.ev(idx, st2, k2)
        return self.ev(base, st, k1)

    # ------------------------------------------------------------------ calls
    def call(self, e, st, k):
        f = strip(e["inner"][0])
        argn = e["inner"][1:]
        if f.get("kind") == "DeclRefExpr" and f["referencedDecl"].get("kind") == "FunctionDecl":
            name = f["referencedDecl"]["name"]
            return self.ev_list(argn, st, lambda args, st2: self.call_named(name, args, st2, k))
        if f.get("kind") == "UnaryOperator" and f.get("opcode") == "*" and strip(f["inner"][0]).get("kind") == "MemberExpr":
            f = strip(f["inner"][0])             # (*tp->slot)(...) is tp->slot(...)
        if f.get("kind") == "MemberExpr":
            fld = f["name"]
            h = self.cx.field_call.get(fld)
            if h is None:
                raise Unsupported("call through function-pointer field %s" % fld)
            return self.ev(f, st, lambda fn, st2: self.ev_list(argn, st2, lambda args, st3: h(self, fn, args, self.api.protect_borrowed(st3, args, fld), k)))
        if f.get("kind") == "DeclRefExpr" and f["referencedDecl"].get("kind") in ("VarDecl", "ParmVarDecl"):
            # call through a local function-pointer variable: dispatched by the pointer's typedef name
            fam = {"trait_post_setattr": "post_setattr", "trait_validate": "validate", "trait_getattr": "getattr",
                   "trait_setattr": "setattr", "delegate_attr_name_func": "delegate_attr_name", "visitproc": "visitproc"}.get(f["type"]["qualType"])
            h = self.cx.field_call.get(fam)
            if h is not None:
                return self.ev(f, st, lambda fn, st2: self.ev_list(argn, st2, lambda args, st3: h(self, fn, args, self.api.protect_borrowed(st3, args, fam), k)))
        raise Unsupported("indirect call")

    def call_named(self, name, args, st, k):
        cx = self.cx
        if name in cx.summaries:
            return cx.summaries[name](self, args, st, k)
        if self.api.has(name):
            if name in PYTHON_RUNNING_API:
                st = self.api.protect_borrowed(st, args, name)
            return self.api.call(name, args, st, k)
        r = self.front.function(name)
        if r is not None:
            if cx.inline_depth > 6:
                raise Unsupported("inline depth exceeded at %s" % name)
            cx.inline_depth += 1
            saved = getattr(self, "label_ids", {})
            try:
                self.label_ids = label_ids(r[0])
                return self.run_function(r[0], args, st, k)
            finally:
                self.label_ids = saved
                cx.inline_depth -= 1
        raise Unsupported("call of %s: neither API primitive nor a function of ctraits.c" % name)


# API entry points that run arbitrary Python code on (or with) their object arguments
PYTHON_RUNNING_API = {"PyObject_Call", "PyObject_CallMethod", "PyObject_CallFunctionObjArgs", "PyObject_CallObject", "PyObject_GetAttr",
                      "PyObject_SetAttr", "PyObject_GetAttrString", "PyObject_IsInstance", "PyObject_RichCompare", "PyObject_RichCompareBool",
                      "PyObject_IsTrue", "PySequence_Contains", "PyNumber_Index", "PyNumber_Long", "PyFloat_AsDouble", "PyObject_Str",
                      "PyObject_Repr", "PyObject_GenericGetAttr", "PyObject_GenericSetAttr", "PyObject_GetItem", "PyObject_SetItem"}


def label_ids(decl):
    out = {}

    def walk(n):
        if n.get("kind") == "LabelStmt":
            out[n.get("declId")] = n["name"]
        for c in n.get("inner", []):
            walk(c)
    walk(decl)
    return out
